------------------------------- MODULE HostSet -------------------------------
(***************************************************************************)
(* The host container of samaritan (`Set`, /repo/host/host.go:284-494)     *)
(* and the host objects it stores (`Host`, host.go:109-192, flag in        *)
(* `Stats`, host.go:195-272).                                              *)
(*                                                                         *)
(* Implementation shaped: the variables are the three maps, the atomically *)
(* published slice and the per object flag / removal latch; one action is  *)
(* one critical section of the write lock (Add, Remove, ReplaceAll, the    *)
(* locked half of MarkHostHealthy/Unhealthy) or one atomic operation       *)
(* outside the lock (the flag CAS of MarkHost*, host.go:399/413).  Host    *)
(* OBJECTS have an identity: the controller builds fresh *Host objects     *)
(* from endpoints for every call (controller.go:273-284), so the object    *)
(* passed to Remove is normally not the stored one, and the health monitor *)
(* holds the objects of an earlier All() snapshot during a check round     *)
(* (monitor.go:157-182), so the object passed to MarkHost* may have been   *)
(* replaced or removed in the meantime.                                    *)
(*                                                                         *)
(* The four boolean constants select, per code section, what the pinned    *)
(* code does (FALSE) or the repaired behaviour (TRUE):                     *)
(*   FixRemove - remove() operates on the STORED object of the address:    *)
(*               closes its removal latch and drops the address from both  *)
(*               tiers (pinned: closes the latch of the passed object and  *)
(*               deletes only the tier named by the passed object's Type)  *)
(*   FixAdd    - add() of an address that is already stored with another   *)
(*               object displaces that object: its latch is closed and the *)
(*               address is dropped from both tiers before the insert      *)
(*               (pinned: overwrites all[addr], inserts into the new tier, *)
(*               leaves the other tier's entry and the old latch alone)    *)
(*   FixFlag   - add() puts the host into its healthy tier only if its     *)
(*               flag says healthy (pinned: unconditionally)               *)
(*   FixMark   - the locked half of MarkHost* acts only if the STORED      *)
(*               object of the address is the passed object and then makes *)
(*               the tier entry agree with the flag read under the lock    *)
(*               (pinned: membership by address only, inserts/deletes the  *)
(*               passed object in the tier of the passed object's Type)    *)
(*                                                                         *)
(* Readers (Healthy / All / Random, host.go:433-477) do not change the     *)
(* state; what they return in a state is given by the operators Healthy,   *)
(* AllHosts and RandomCandidates, and the property is stated as            *)
(* invariants over them, so it covers a reader running between any two     *)
(* steps of the writers.                                                   *)
(***************************************************************************)
EXTENDS Naturals, Sequences, FiniteSets, TLC

CONSTANTS NAddr,        \* addresses are 1..NAddr (their order is the string order of the real addresses)
          MaxObj,       \* host objects ever created
          MaxOps,       \* operations per behaviour (Add, Remove, ReplaceAll, MarkHost* calls)
          MaxInflight,  \* MarkHost* calls that may be between their CAS and their lock at the same time
          WithReplace,  \* include ReplaceAll
          FixRemove, FixAdd, FixFlag, FixMark

Addrs == 1..NAddr
Types == {"main", "backup"}
Objs  == 1..MaxObj
NoObj == 0

VARIABLES
  nobj,      \* objects created so far (ids are handed out in order of creation)
  oaddr,     \* Addr of an object (0: not created)
  otype,     \* Type of an object ("none": not created)
  flag,      \* Stats.isHealthy of an object
  removed,   \* removal latch of an object (removeCh closed)
  all,       \* Set.all:           address -> stored object or NoObj
  hmain,     \* Set.healthyMain:   address -> object or NoObj
  hbackup,   \* Set.healthyBackup: address -> object or NoObj
  cache,     \* Set.healthyCache: sequence of objects (host.go:345-360)
  inflight,  \* MarkHost* calls after their CAS, before their lock: records [o, k]
  nops,      \* operations so far
  carried,   \* ghost: address -> objects stored under it during the current membership period
  owed       \* ghost: objects whose address has been removed since they were stored under it

vars == <<nobj, oaddr, otype, flag, removed, all, hmain, hbackup, cache, inflight, nops, carried, owed>>

-----------------------------------------------------------------------------
(* helpers *)

\* the objects of map m (address -> object) in ascending address order (sort.Strings over the keys)
SeqOf(m) ==
  LET dom == {a \in Addrs : m[a] # NoObj}
  IN [i \in 1..Cardinality(dom) |-> m[CHOOSE a \in dom : Cardinality({b \in dom : b < a}) = i - 1]]

\* Set.healthy(), host.go:425-431
Pick(hm, hb) == IF \E a \in Addrs : hm[a] # NoObj THEN hm ELSE hb

\* buildHealthyCache, host.go:345-360
Rebuild(hm, hb) == SeqOf(Pick(hm, hb))

Range(s) == {s[i] : i \in 1..Len(s)}

\* the part of the state the set operations work on, as a record, so that ReplaceAll can be
\* written as a fold of remove() and add()
Cur == [all |-> all, hm |-> hmain, hb |-> hbackup, rem |-> removed]

\* add(host) for one host, host.go:369-377 + addToHealthy 305-323.  o: the object, a/t/fl its
\* address, type and flag
AddP(S, o, a, t, fl) ==
  LET old       == S.all[a]
      displaced == old # NoObj /\ old # o
      rem1 == IF FixAdd /\ displaced THEN [S.rem EXCEPT ![old] = TRUE] ELSE S.rem
      hm1  == IF FixAdd THEN [S.hm EXCEPT ![a] = NoObj] ELSE S.hm
      hb1  == IF FixAdd THEN [S.hb EXCEPT ![a] = NoObj] ELSE S.hb
      ins  == (~FixFlag) \/ fl
      hm2  == IF t = "main"
              THEN (IF ins THEN [hm1 EXCEPT ![a] = o] ELSE [hm1 EXCEPT ![a] = NoObj])
              ELSE hm1
      hb2  == IF t = "backup"
              THEN (IF ins THEN [hb1 EXCEPT ![a] = o] ELSE [hb1 EXCEPT ![a] = NoObj])
              ELSE hb1
  IN [all |-> [S.all EXCEPT ![a] = o], hm |-> hm2, hb |-> hb2, rem |-> rem1]

\* remove(host) for one host, host.go:386-395 + removeFromHealthy 325-343.  a/t: address and
\* type of the passed object, passed: its id or NoObj for a fresh object nobody else holds
RemoveP(S, a, t, passed) ==
  LET stored == S.all[a]
      rem1 == IF passed # NoObj THEN [S.rem EXCEPT ![passed] = TRUE] ELSE S.rem
      rem2 == IF FixRemove /\ stored # NoObj THEN [rem1 EXCEPT ![stored] = TRUE] ELSE rem1
      hm1  == IF FixRemove \/ t = "main"   THEN [S.hm EXCEPT ![a] = NoObj] ELSE S.hm
      hb1  == IF FixRemove \/ t = "backup" THEN [S.hb EXCEPT ![a] = NoObj] ELSE S.hb
  IN [all |-> [S.all EXCEPT ![a] = NoObj], hm |-> hm1, hb |-> hb1, rem |-> rem2]

\* ReplaceAll first removes every stored host, passing the stored object (host.go:490-492)
RECURSIVE RemoveStored(_, _)
RemoveStored(S, as) ==
  IF as = {} THEN S
  ELSE LET a == CHOOSE x \in as : TRUE
           S1 == IF S.all[a] = NoObj THEN S ELSE RemoveP(S, a, otype[S.all[a]], S.all[a])
       IN RemoveStored(S1, as \ {a})

Install(S) ==
  /\ all' = S.all /\ hmain' = S.hm /\ hbackup' = S.hb /\ removed' = S.rem
  /\ cache' = Rebuild(S.hm, S.hb)

-----------------------------------------------------------------------------
TypeOK ==
  /\ nobj \in 0..MaxObj
  /\ oaddr \in [Objs -> 0..NAddr] /\ otype \in [Objs -> Types \cup {"none"}]
  /\ flag \in [Objs -> BOOLEAN] /\ removed \in [Objs -> BOOLEAN]
  /\ all \in [Addrs -> 0..MaxObj] /\ hmain \in [Addrs -> 0..MaxObj] /\ hbackup \in [Addrs -> 0..MaxObj]
  /\ cache \in Seq(Objs)
  /\ \A m \in inflight : m.o \in 1..nobj /\ m.k \in {"healthy", "unhealthy"}
  /\ nops \in 0..MaxOps
  /\ \A a \in Addrs : all[a] # NoObj => all[a] <= nobj /\ oaddr[all[a]] = a

Init ==
  /\ nobj = 0
  /\ oaddr = [o \in Objs |-> 0] /\ otype = [o \in Objs |-> "none"]
  /\ flag = [o \in Objs |-> TRUE]            \* NewStats: healthy, host.go:207-211
  /\ removed = [o \in Objs |-> FALSE]
  /\ all = [a \in Addrs |-> NoObj] /\ hmain = [a \in Addrs |-> NoObj] /\ hbackup = [a \in Addrs |-> NoObj]
  /\ cache = <<>>
  /\ inflight = {} /\ nops = 0
  /\ carried = [a \in Addrs |-> {}] /\ owed = {}

\* Set.Add(host.NewWithType(a, t)): what the controller does (controller.go:166-180)
AddFresh(a, t) ==
  /\ nops < MaxOps /\ nobj < MaxObj
  /\ LET o == nobj + 1 IN
       /\ nobj' = o
       /\ oaddr' = [oaddr EXCEPT ![o] = a] /\ otype' = [otype EXCEPT ![o] = t]
       /\ Install(AddP(Cur, o, a, t, TRUE))
       /\ carried' = [carried EXCEPT ![a] = (IF all[a] = NoObj THEN {} ELSE @) \cup {o}]
  /\ nops' = nops + 1
  /\ UNCHANGED <<flag, inflight, owed>>

\* Set.Add(h) with an object that already exists (stored, replaced or removed earlier)
AddExisting(o) ==
  /\ nops < MaxOps /\ o \in 1..nobj
  /\ LET a == oaddr[o] IN
       /\ Install(AddP(Cur, o, a, otype[o], flag[o]))
       /\ carried' = [carried EXCEPT ![a] = (IF all[a] = NoObj THEN {} ELSE @) \cup {o}]
  /\ nops' = nops + 1
  /\ UNCHANGED <<nobj, oaddr, otype, flag, inflight, owed>>

Leave(a) ==   \* ghost bookkeeping when address a stops being a member
  IF all[a] = NoObj THEN UNCHANGED <<carried, owed>>
  ELSE /\ owed' = owed \cup carried[a]
       /\ carried' = [carried EXCEPT ![a] = {}]

\* Set.Remove(host.NewWithType(a, t)): what the controller does (controller.go:182-197)
RemoveFresh(a, t) ==
  /\ nops < MaxOps
  /\ Install(RemoveP(Cur, a, t, NoObj))
  /\ Leave(a)
  /\ nops' = nops + 1
  /\ UNCHANGED <<nobj, oaddr, otype, flag, inflight>>

\* Set.Remove(h) with an existing object (the stored one or another one of that address)
RemoveExisting(o) ==
  /\ nops < MaxOps /\ o \in 1..nobj
  /\ Install(RemoveP(Cur, oaddr[o], otype[o], o))
  /\ Leave(oaddr[o])
  /\ nops' = nops + 1
  /\ UNCHANGED <<nobj, oaddr, otype, flag, inflight>>

\* Set.ReplaceAll(hosts), host.go:487-494; hosts = fresh objects, one per address a with
\* f[a] # "none", in ascending address order
ReplaceArgs == [Addrs -> Types \cup {"none"}]

RECURSIVE AddFreshAll(_, _, _, _)
AddFreshAll(S, f, as, next) ==   \* as: addresses still to add, next: next object id
  IF as = {} THEN S
  ELSE LET a == CHOOSE x \in as : \A y \in as : x <= y
       IN AddFreshAll(AddP(S, next, a, f[a], TRUE), f, as \ {a}, next + 1)

ReplaceAll(f) ==
  LET as == {a \in Addrs : f[a] # "none"}
      n  == Cardinality(as)
      id(a) == nobj + 1 + Cardinality({b \in as : b < a})
  IN /\ WithReplace /\ nops < MaxOps /\ nobj + n <= MaxObj
     /\ nobj' = nobj + n
     /\ oaddr' = [o \in Objs |-> IF \E a \in as : id(a) = o THEN CHOOSE a \in as : id(a) = o ELSE oaddr[o]]
     /\ otype' = [o \in Objs |-> IF \E a \in as : id(a) = o THEN f[CHOOSE a \in as : id(a) = o] ELSE otype[o]]
     /\ Install(AddFreshAll(RemoveStored(Cur, Addrs), f, as, nobj + 1))
     \* ghost: only the addresses that are not in the new list are removed; an address that
     \* stays (with a new object) continues its membership period
     /\ owed' = owed \cup UNION {carried[a] : a \in {x \in Addrs : all[x] # NoObj /\ x \notin as}}
     /\ carried' = [a \in Addrs |-> IF a \in as
                                    THEN (IF all[a] # NoObj THEN carried[a] ELSE {}) \cup {id(a)}
                                    ELSE {}]
     /\ nops' = nops + 1
     /\ UNCHANGED <<flag, inflight>>

\* first half of MarkHostHealthy / MarkHostUnhealthy: setHealthy / setUnhealthy, the CAS on the
\* flag of the PASSED object, outside the lock (host.go:399, 413; 262-272).  A failing CAS
\* returns false at once.
MarkBegin(o, k) ==
  /\ nops < MaxOps /\ o \in 1..nobj
  /\ \A m \in inflight : m.o # o
  /\ LET want == (k = "healthy") IN
       IF flag[o] = want
       THEN UNCHANGED <<flag, inflight>>
       ELSE /\ Cardinality(inflight) < MaxInflight
            /\ flag' = [flag EXCEPT ![o] = want]
            /\ inflight' = inflight \cup {[o |-> o, k |-> k]}
  /\ nops' = nops + 1
  /\ UNCHANGED <<nobj, oaddr, otype, removed, all, hmain, hbackup, cache, carried, owed>>

\* second half: lock, membership check, map update, rebuild (host.go:402-408, 416-422), as a
\* function of the maps S, the flags fl, the passed object o and the kind of the call k
MarkEndP(S, fl, o, k) ==
  LET a == oaddr[o]
      t == otype[o]
      stored == S.all[a]
      ins(X) == [X EXCEPT !.hm = IF t = "main" THEN [@ EXCEPT ![a] = o] ELSE @,
                          !.hb = IF t = "backup" THEN [@ EXCEPT ![a] = o] ELSE @]
      del(X) == [X EXCEPT !.hm = IF t = "main" THEN [@ EXCEPT ![a] = NoObj] ELSE @,
                          !.hb = IF t = "backup" THEN [@ EXCEPT ![a] = NoObj] ELSE @]
      clr(X) == [X EXCEPT !.hm = [@ EXCEPT ![a] = NoObj], !.hb = [@ EXCEPT ![a] = NoObj]]
  IN IF FixMark
     THEN IF stored = o
          THEN (IF fl[o] THEN ins(clr(S)) ELSE clr(S))
          ELSE S
     ELSE IF stored # NoObj
          THEN (IF k = "healthy" THEN ins(S) ELSE del(S))
          ELSE S

MarkEndState(m) == MarkEndP(Cur, flag, m.o, m.k)

\* value returned by the MarkHost* call
MarkEndRet(m) ==
  IF FixMark THEN all[oaddr[m.o]] = m.o ELSE all[oaddr[m.o]] # NoObj

MarkEnd(m) ==
  /\ m \in inflight
  /\ Install(MarkEndState(m))
  /\ inflight' = inflight \ {m}
  /\ UNCHANGED <<nobj, oaddr, otype, flag, nops, carried, owed>>

\* MarkHostHealthy / MarkHostUnhealthy as ONE step (both halves with nothing in between); not part
\* of Next - used where the subject is not the window between the two halves (HostSetPub)
MarkAtomic(o, k) ==
  /\ nops < MaxOps /\ o \in 1..nobj
  /\ LET want == (k = "healthy")
         fl1 == [flag EXCEPT ![o] = want]
     IN IF flag[o] = want
        THEN UNCHANGED <<flag, removed, all, hmain, hbackup, cache>>
        ELSE flag' = fl1 /\ Install(MarkEndP(Cur, fl1, o, k))
  /\ nops' = nops + 1
  /\ UNCHANGED <<nobj, oaddr, otype, inflight, carried, owed>>

Next ==
  \/ \E a \in Addrs, t \in Types : AddFresh(a, t) \/ RemoveFresh(a, t)
  \/ \E o \in Objs : AddExisting(o) \/ RemoveExisting(o)
  \/ \E f \in ReplaceArgs : ReplaceAll(f)
  \/ \E o \in Objs, k \in {"healthy", "unhealthy"} : MarkBegin(o, k)
  \/ \E m \in inflight : MarkEnd(m)

Spec == Init /\ [][Next]_vars

-----------------------------------------------------------------------------
(* What the readers return *)

Healthy == cache                                      \* host.go:434-437
AllHosts == {all[a] : a \in {x \in Addrs : all[x] # NoObj}}            \* host.go:440-448
RandomCandidates ==                                   \* host.go:456-477
  LET m == Pick(hmain, hbackup) IN {m[a] : a \in {x \in Addrs : m[x] # NoObj}}

-----------------------------------------------------------------------------
(* The property (C15), over what the readers return.                       *)
(* Members are the stored objects; "currently marked healthy" is the flag  *)
(* of the stored object.  While a MarkHost* call is between its CAS and    *)
(* its lock the flag of its object has changed and the maps have not, so   *)
(* for objects with a mark in flight either value of the flag is accepted; *)
(* with no mark in flight the reported list must be exact.                 *)

Members == {a \in Addrs : all[a] # NoObj}
InflightObjs == {m.o : m \in inflight}

\* usable member objects when the objects in S count with the opposite flag
UsableWith(S) ==
  LET eff(o) == IF o \in S THEN ~flag[o] ELSE flag[o]
      mainH   == {a \in Members : otype[all[a]] = "main"   /\ eff(all[a])}
      backupH == {a \in Members : otype[all[a]] = "backup" /\ eff(all[a])}
  IN {all[a] : a \in (IF mainH # {} THEN mainH ELSE backupH)}

Usable == UsableWith({})

UsableIsPreferredTier ==
  /\ \E S \in SUBSET InflightObjs : Range(Healthy) = UsableWith(S)
  /\ \E S \in SUBSET InflightObjs : RandomCandidates = UsableWith(S)

SortedNoDup ==
  \A i \in 1..Len(cache) : \A j \in 1..Len(cache) : i < j => oaddr[cache[i]] < oaddr[cache[j]]

\* a host that is not (any more) a member of the set is neither reported nor selectable:
\* every reported object is the stored object of its address
RemovedNeverReported ==
  \A o \in Range(Healthy) \cup RandomCandidates : all[oaddr[o]] = o

\* when an address is removed, the removal latch of every object that was stored under it is
\* closed (the TCP processor's watcher then closes the relays established through that object,
\* proc/tcp/proc.go:126-137)
RemovedClosesEstablished == \A o \in owed : removed[o]

\* internal consistency of the implementation (not part of the property, expected to hold in all variants)
CacheIsSortedHealthyMap == cache = Rebuild(hmain, hbackup)

-----------------------------------------------------------------------------
(* Named windows: the situations in which the pinned code leaves the maps   *)
(* inconsistent.  Used as tags of emitted behaviours (HostSetGen) and as    *)
(* trap invariants (must be reachable).                                    *)
W_ReaddOtherType(o, a, t) == all[a] # NoObj /\ all[a] # o /\ otype[all[a]] # t
W_ReaddSameType(o, a, t)  == all[a] # NoObj /\ all[a] # o /\ otype[all[a]] = t
W_AddUnhealthy(o)         == o # NoObj /\ ~flag[o]
W_RemoveNotStored(a, o)   == all[a] # NoObj /\ all[a] # o
W_RemoveOtherType(a, t)   == all[a] # NoObj /\ otype[all[a]] # t
W_StaleMark(m)            == all[oaddr[m.o]] # NoObj /\ all[oaddr[m.o]] # m.o
=============================================================================
