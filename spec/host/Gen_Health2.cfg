SPECIFICATION GenSpec
CONSTANTS
  Thresholds = {1, 2, 3}
  MaxResults = 6
  CmpStrict = TRUE
  MaxReconf = 2
  IgnoreSameInterval = FALSE
VIEW GenView
ACTION_CONSTRAINT Emit
CHECK_DEADLOCK FALSE
