---------------------------- MODULE HostSetTrace -----------------------------
(***************************************************************************)
(* Trace specification (code -> spec): a trace recorded from the real      *)
(* host.Set (trace.json, an array of events written by the harness command *)
(* c15-trace) must be a behaviour of HostSet - every event names the       *)
(* operation and carries what the real code showed after it (Healthy(),    *)
(* All(), the flags and removal latches of all objects) - and the property *)
(* invariants of HostSet are evaluated by TLC on every state of the trace, *)
(* i.e. on the real observations.  The verdict per event is collected in   *)
(* the variable `bad` and printed by the postcondition, so that one run    *)
(* judges all concatenated traces ({"op":"Reset"} separates them).         *)
(***************************************************************************)
EXTENDS HostSet, Json, TLCExt

TraceLog == TLCEval(JsonDeserialize("trace.json"))

VARIABLES l, bad
tvars == <<vars, l, bad>>

TraceInit == Init /\ l = 1 /\ bad = <<>>

Reset ==
  /\ nobj' = 0
  /\ oaddr' = [o \in Objs |-> 0] /\ otype' = [o \in Objs |-> "none"]
  /\ flag' = [o \in Objs |-> TRUE] /\ removed' = [o \in Objs |-> FALSE]
  /\ all' = [a \in Addrs |-> NoObj] /\ hmain' = [a \in Addrs |-> NoObj] /\ hbackup' = [a \in Addrs |-> NoObj]
  /\ cache' = <<>> /\ inflight' = {} /\ nops' = 0
  /\ carried' = [a \in Addrs |-> {}] /\ owed' = {}

\* the real observation equals the model state after the step
Match(e) ==
  /\ cache' = e.healthy
  /\ \A a \in Addrs : all'[a] = e.all[a]
  /\ \A o \in 1..nobj' : flag'[o] = e.flag[o] /\ removed'[o] = e.removed[o]

Verdicts ==
  (IF UsableIsPreferredTier' THEN {} ELSE {"UsableIsPreferredTier"}) \cup
  (IF SortedNoDup' THEN {} ELSE {"SortedNoDup"}) \cup
  (IF RemovedNeverReported' THEN {} ELSE {"RemovedNeverReported"}) \cup
  (IF RemovedClosesEstablished' THEN {} ELSE {"RemovedClosesEstablished"})

TraceNext ==
  /\ l <= Len(TraceLog)
  /\ LET e == TraceLog[l] IN
       \/ /\ e.op = "Reset" /\ Reset
          /\ bad' = bad
       \/ /\ \/ e.op = "Add" /\ e.o = nobj + 1 /\ AddFresh(e.a, e.t)
             \/ e.op = "Add" /\ e.o <= nobj /\ AddExisting(e.o)
             \/ e.op = "Remove" /\ e.o = 0 /\ RemoveFresh(e.a, e.t)
             \/ e.op = "Remove" /\ e.o > 0 /\ RemoveExisting(e.o)
             \/ e.op = "ReplaceAll" /\ ReplaceAll([a \in Addrs |-> e.f[a]])
             \/ e.op = "MarkBegin" /\ MarkBegin(e.o, e.k) /\ (e.hasret <=> inflight' = inflight)
             \/ e.op = "MarkEnd" /\ (\E m \in inflight : m.o = e.o /\ MarkEnd(m) /\ e.ret = MarkEndRet(m))
          /\ Match(e)
          /\ bad' = IF Verdicts = {} THEN bad ELSE Append(bad, [i |-> l, inv |-> Verdicts])
  /\ l' = l + 1

TraceSpec == TraceInit /\ [][TraceNext]_tvars

\* accepted iff every event was consumed; the per-event property verdicts are printed either way
TraceAccepted ==
  LET d == TLCGet("stats").diameter IN
  IF d - 1 = Len(TraceLog) THEN TRUE
  ELSE Print(<<"@@REJECT", d, IF d <= Len(TraceLog) THEN TraceLog[d] ELSE "end">>, FALSE)

\* bad is a history variable: print it from the last state (it only grows)
PrintBad == l <= Len(TraceLog) \/ PrintT("@@BAD " \o ToJson(bad))
=============================================================================
