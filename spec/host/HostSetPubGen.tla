---------------------------- MODULE HostSetPubGen ----------------------------
(* Scripts for the reader-race test of the real host.Set: sequential mutation  *)
(* sequences (atomic marks) with the published list after each mutation       *)
(* (S0 = <<>>, S1, ...), printed by simulation when MaxOps operations are used *)
EXTENDS HostSet, Json

VARIABLES hist, finished, kind   \* kind: the kind of the next mutation, chosen first (uniform over kinds)
ggvars == <<vars, hist, finished, kind>>
NoF == [a \in Addrs |-> "none"]

Orders(f) ==
  LET as == {a \in Addrs : f[a] # "none"}
      n  == Cardinality(as)
  IN {p \in [1..n -> as] : \A i \in 1..n, j \in 1..n : i # j => p[i] # p[j]}

RecO(op, a, t, o, k, f, ord) ==
  hist' = Append(hist, [op |-> op, a |-> a, t |-> t, o |-> o, k |-> k, f |-> f, order |-> ord,
                        readd |-> (op = "Add" /\ all[a] # NoObj /\ all[a] # o /\ all[a] \in Range(cache)),
                        obs |-> [cache |-> cache', all |-> all', flag |-> flag', nobj |-> nobj']])

Rec(op, a, t, o, k, f) == RecO(op, a, t, o, k, f, <<>>)

SInit == Init /\ hist = <<>> /\ finished = FALSE /\ kind = ""

SChoose ==
  /\ ~finished /\ kind = "" /\ nops < MaxOps
  /\ kind' \in {"add", "addx", "remove", "replace", "mark"}
  /\ UNCHANGED <<vars, hist, finished>>

SNext ==
  /\ ~finished /\ UNCHANGED finished /\ kind # "" /\ kind' = ""
  /\ \/ \E a \in Addrs, t \in Types :
          \/ kind = "add" /\ AddFresh(a, t) /\ Rec("Add", a, t, nobj + 1, "", NoF)
          \/ kind = "remove" /\ RemoveFresh(a, t) /\ Rec("Remove", a, t, NoObj, "", NoF)
     \/ \E o \in Objs :
          \/ kind = "addx" /\ AddExisting(o) /\ Rec("Add", oaddr[o], otype[o], o, "", NoF)
     \/ \E f \in ReplaceArgs : \E ord \in Orders(f) :
          kind = "replace" /\ ReplaceAll(f) /\ RecO("ReplaceAll", 0, "", nobj + 1, "", f, ord)
     \/ \E o \in Objs, k \in {"healthy", "unhealthy"} :
          kind = "mark" /\ flag[o] # (k = "healthy") /\ MarkAtomic(o, k) /\ Rec("Mark", oaddr[o], otype[o], o, k, NoF)
     \/ kind \in {"addx", "mark"} /\ nobj = 0 /\ UNCHANGED <<vars, hist>>

SFinish ==
  /\ ~finished /\ nops = MaxOps
  /\ PrintT("@@SCRIPT " \o ToJson(hist))
  /\ finished' = TRUE /\ UNCHANGED <<vars, hist, kind>>

SSpec == SInit /\ [][SChoose \/ SNext \/ SFinish]_ggvars
=============================================================================
