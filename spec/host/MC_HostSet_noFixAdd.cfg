SPECIFICATION Spec
CONSTANTS
  NAddr = 2
  MaxObj = 4
  MaxOps = 5
  MaxInflight = 2
  WithReplace = TRUE
  FixRemove = TRUE
  FixAdd = FALSE
  FixFlag = TRUE
  FixMark = TRUE
INVARIANTS TypeOK CacheIsSortedHealthyMap UsableIsPreferredTier SortedNoDup RemovedNeverReported RemovedClosesEstablished
CHECK_DEADLOCK FALSE
