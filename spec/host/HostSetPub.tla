----------------------------- MODULE HostSetPub ------------------------------
(***************************************************************************)
(* Publication of the usable list of the host set (HostSet.tla) to its     *)
(* lock-free readers.  Healthy() is one atomic Load of the published slice *)
(* (host.go, Healthy); every mutation updates the maps AND publishes the   *)
(* rebuilt slice inside one critical section of the write lock, so in the  *)
(* intended design each mutation is ONE linearization point: the value a   *)
(* reader loads is the list of some state between its call and its return. *)
(*                                                                         *)
(* `pub` is what readers Load: [valid, list].  `cache` of HostSet is the   *)
(* sorted list of the current maps (what buildHealthyCache computes).      *)
(* Constants select how mutations publish:                                 *)
(*   LazyRebuild        mutations only invalidate (`pub.valid = FALSE`);   *)
(*                      a reader that loads an invalid value takes the     *)
(*                      read lock, sorts, releases the lock and THEN       *)
(*                      stores: a mutation between unlock and store is     *)
(*                      overwritten by the older list                      *)
(*   ReaddIntermediate  add() of a stored address with a new object first  *)
(*                      publishes the list WITHOUT that address            *)
(*                      (set.remove(old)), then the final list             *)
(*   ReplaceIntermediate ReplaceAll publishes after every single removal   *)
(*                      of a stored host (host.go ReplaceAll calls         *)
(*                      set.remove(host) per stored host, each of which    *)
(*                      rebuilds and stores), then the final list          *)
(* A writer in the middle of such a mutation holds the write lock          *)
(* (`wpend`): no other mutation and no rebuilding reader runs, but Loads   *)
(* do.                                                                     *)
(*                                                                         *)
(* Readers: Call, Load (or RLock-compute / Store for the lazy variant),    *)
(* Return.  Ghost `win` = the lists of all states since the call.          *)
(***************************************************************************)
EXTENDS HostSet

CONSTANTS Readers, MaxReads, LazyRebuild, ReaddIntermediate, ReplaceIntermediate

VARIABLES pub,     \* what Healthy() loads: [valid |-> BOOLEAN, list |-> Seq(Objs)]
          wpend,   \* writer inside a mutation that publishes in several steps: [kind, ...] or NoW
          rd,      \* reader -> [pc, val, win]
          nreads

pvars == <<pub, wpend, rd, nreads>>
pall == <<vars, pvars>>

NoW == [kind |-> "none"]
IdleR == [pc |-> "idle", val |-> <<>>, win |-> {}]

PInit ==
  /\ Init
  /\ pub = [valid |-> ~LazyRebuild, list |-> <<>>]
  /\ wpend = NoW /\ rd = [r \in Readers |-> IdleR] /\ nreads = 0

\* every step extends the window of every reader that is inside a call
Windows(newrd) ==
  rd' = [r \in Readers |-> IF newrd[r].pc = "idle" THEN newrd[r]
                           ELSE [newrd[r] EXCEPT !.win = @ \cup {cache'}]]

Publish == pub' = IF LazyRebuild THEN [valid |-> FALSE, list |-> <<>>] ELSE [valid |-> TRUE, list |-> cache']

\* the list published after dropping the addresses in as from both tiers
Without(as) ==
  Rebuild([a \in Addrs |-> IF a \in as THEN NoObj ELSE hmain[a]], [a \in Addrs |-> IF a \in as THEN NoObj ELSE hbackup[a]])

Mutation ==
  \/ \E a \in Addrs, t \in Types : AddFresh(a, t) \/ RemoveFresh(a, t)
  \/ \E o \in Objs : AddExisting(o) \/ RemoveExisting(o)
  \/ \E f \in ReplaceArgs : ReplaceAll(f)
  \/ \E o \in Objs, k \in {"healthy", "unhealthy"} : MarkAtomic(o, k)

\* a mutation as one linearization point
Mutate ==
  /\ wpend = NoW
  /\ Mutation
  /\ Publish
  /\ Windows(rd)
  /\ UNCHANGED <<wpend, nreads>>

\* first half of a re-add that publishes an intermediate list (ReaddIntermediate)
ReaddBegin(a) ==
  /\ ReaddIntermediate /\ wpend = NoW /\ nops < MaxOps /\ nobj < MaxObj /\ all[a] # NoObj
  /\ wpend' = [kind |-> "readd", a |-> a]
  /\ pub' = IF LazyRebuild THEN [valid |-> FALSE, list |-> <<>>] ELSE [valid |-> TRUE, list |-> Without({a})]
  /\ UNCHANGED <<vars, nreads>> /\ Windows(rd)

ReaddEnd ==
  /\ wpend.kind = "readd"
  /\ \E t \in Types : AddFresh(wpend.a, t)
  /\ Publish /\ wpend' = NoW /\ Windows(rd) /\ UNCHANGED nreads

\* ReplaceAll that publishes after each removal of a stored host (ReplaceIntermediate)
ReplaceStep ==
  /\ ReplaceIntermediate /\ nops < MaxOps
  /\ \/ /\ wpend = NoW /\ Members # {}
        /\ \E a \in Members : wpend' = [kind |-> "replace", gone |-> {a}]
     \/ /\ wpend.kind = "replace" /\ Members \ wpend.gone # {}
        /\ \E a \in Members \ wpend.gone : wpend' = [kind |-> "replace", gone |-> wpend.gone \cup {a}]
  /\ pub' = IF LazyRebuild THEN [valid |-> FALSE, list |-> <<>>] ELSE [valid |-> TRUE, list |-> Without(wpend'.gone)]
  /\ UNCHANGED <<vars, nreads>> /\ Windows(rd)

ReplaceEnd ==
  /\ wpend.kind = "replace" /\ wpend.gone = Members
  /\ \E f \in ReplaceArgs : ReplaceAll(f)
  /\ Publish /\ wpend' = NoW /\ Windows(rd) /\ UNCHANGED nreads

Call(r) ==
  /\ rd[r].pc = "idle" /\ nreads < MaxReads
  /\ nreads' = nreads + 1
  /\ UNCHANGED <<vars, pub, wpend>>
  /\ Windows([rd EXCEPT ![r] = [pc |-> "called", val |-> <<>>, win |-> {cache}]])

Load(r) ==
  /\ rd[r].pc = "called"
  /\ UNCHANGED <<vars, pub, wpend, nreads>>
  /\ Windows([rd EXCEPT ![r] = IF pub.valid THEN [@ EXCEPT !.pc = "ret", !.val = pub.list]
                                         ELSE [@ EXCEPT !.pc = "rlock"]])

\* lazy variant: read lock, sort, unlock
Compute(r) ==
  /\ rd[r].pc = "rlock" /\ wpend = NoW
  /\ UNCHANGED <<vars, pub, wpend, nreads>>
  /\ Windows([rd EXCEPT ![r] = [@ EXCEPT !.pc = "computed", !.val = cache]])

\* lazy variant: store after the unlock
Store(r) ==
  /\ rd[r].pc = "computed"
  /\ pub' = [valid |-> TRUE, list |-> rd[r].val]
  /\ UNCHANGED <<vars, wpend, nreads>>
  /\ Windows([rd EXCEPT ![r] = [@ EXCEPT !.pc = "ret"]])

Return(r) ==
  /\ rd[r].pc = "ret"
  /\ UNCHANGED <<vars, pub, wpend, nreads>>
  /\ Windows([rd EXCEPT ![r] = IdleR])

PNext ==
  \/ Mutate
  \/ \E a \in Addrs : ReaddBegin(a)
  \/ ReaddEnd \/ ReplaceStep \/ ReplaceEnd
  \/ \E r \in Readers : Call(r) \/ Load(r) \/ Compute(r) \/ Store(r) \/ Return(r)

PSpec == PInit /\ [][PNext]_pall

-----------------------------------------------------------------------------
\* C15 for what a reader observes at any time: the value Healthy() returns is the usable list of
\* SOME state between the call and the return
LinearizableHealthy ==
  \A r \in Readers : rd[r].pc = "ret" => rd[r].val \in rd[r].win

\* no staleness: with no writer inside a mutation and no reader between its computation and its
\* store, a valid published value is the list of the current state
PublishedIsCurrent ==
  (wpend = NoW /\ \A r \in Readers : rd[r].pc # "computed") /\ pub.valid => pub.list = cache
=============================================================================
