SPECIFICATION Spec
CONSTANTS
  Thresholds = {1, 2, 3}
  MaxResults = 8
  CmpStrict = TRUE
INVARIANTS NoFlipBack
CHECK_DEADLOCK FALSE
