SPECIFICATION GenSpec
CONSTANTS
  NAddr = 3
  MaxObj = 10
  MaxOps = 12
  MaxInflight = 2
  WithReplace = TRUE
  FixRemove = TRUE
  FixAdd = TRUE
  FixFlag = TRUE
  FixMark = TRUE
CHECK_DEADLOCK FALSE
