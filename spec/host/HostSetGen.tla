----------------------------- MODULE HostSetGen ------------------------------
(***************************************************************************)
(* Behaviour emitter for HostSet.  hist records per step the operation,    *)
(* its arguments, the named windows the step goes through (evaluated in    *)
(* the state before the step), the value the call returns and the state of *)
(* the model after the step.  Two uses:                                    *)
(*   transition cover: exhaustive run with VIEW GenView (hist hidden) and  *)
(*     ACTION_CONSTRAINT Emit: every transition of the reduced state graph *)
(*     is printed as one path from the initial state;                      *)
(*   simulation (-simulate): Finish prints a behaviour when it has used    *)
(*     all its operations (longer behaviours over more objects).           *)
(***************************************************************************)
EXTENDS HostSet, Json

VARIABLES hist, finished
gvars == <<vars, hist, finished>>
GenView == <<vars, finished>>

Obs == [all |-> all, cache |-> cache, flag |-> flag, removed |-> removed,
        inflight |-> {m.o : m \in inflight}, nobj |-> nobj, owed |-> owed]

NoF == [a \in Addrs |-> "none"]

StepO(op, a, t, o, k, f, win, ret, ord) ==
  hist' = Append(hist, [op |-> op, a |-> a, t |-> t, o |-> o, k |-> k, f |-> f, order |-> ord,
                        win |-> win, ret |-> ret, obs |-> Obs'])
Step(op, a, t, o, k, f, win, ret) == StepO(op, a, t, o, k, f, win, ret, <<>>)

\* the orders in which the hosts of a ReplaceAll argument list can be passed (the set does not
\* depend on it; the published list must be sorted by address whatever the order)
Orders(f) ==
  LET as == {a \in Addrs : f[a] # "none"}
      n  == Cardinality(as)
  IN {p \in [1..n -> as] : \A i \in 1..n, j \in 1..n : i # j => p[i] # p[j]}

AddWin(o, a, t, fl) ==
  (IF W_ReaddOtherType(o, a, t) THEN {"readd-other-type"} ELSE {}) \cup
  (IF W_ReaddSameType(o, a, t) THEN {"readd-same-type"} ELSE {}) \cup
  (IF ~fl THEN {"add-unhealthy-object"} ELSE {})

RemoveWin(a, t, o) ==
  (IF all[a] = NoObj THEN {"remove-absent"} ELSE {}) \cup
  (IF W_RemoveNotStored(a, o) THEN {"fresh-object"} ELSE {}) \cup
  (IF W_RemoveOtherType(a, t) THEN {"remove-other-type"} ELSE {})

MarkWin(m) ==
  (IF W_StaleMark(m) THEN {"stale-object-mark"} ELSE {}) \cup
  (IF all[oaddr[m.o]] = NoObj THEN {"mark-removed"} ELSE {})

GenInit == Init /\ hist = <<>> /\ finished = FALSE

GenNext ==
  /\ ~finished
  /\ \/ \E a \in Addrs, t \in Types :
          \/ AddFresh(a, t) /\ Step("Add", a, t, nobj + 1, "", NoF, AddWin(NoObj, a, t, TRUE), TRUE)
          \/ RemoveFresh(a, t) /\ Step("Remove", a, t, NoObj, "", NoF, RemoveWin(a, t, NoObj), TRUE)
     \/ \E o \in Objs :
          \/ AddExisting(o) /\ Step("Add", oaddr[o], otype[o], o, "", NoF, AddWin(o, oaddr[o], otype[o], flag[o]), TRUE)
          \/ RemoveExisting(o) /\ Step("Remove", oaddr[o], otype[o], o, "", NoF, RemoveWin(oaddr[o], otype[o], o), TRUE)
     \/ \E f \in ReplaceArgs : \E ord \in Orders(f) :
          ReplaceAll(f) /\ StepO("ReplaceAll", 0, "", nobj + 1, "", f, {"replace-all"}, TRUE, ord)
     \/ \E o \in Objs, k \in {"healthy", "unhealthy"} :
          MarkBegin(o, k) /\ Step("MarkBegin", oaddr[o], otype[o], o, k, NoF, {}, flag[o] # (k = "healthy"))
     \/ \E m \in inflight :
          MarkEnd(m) /\ Step("MarkEnd", oaddr[m.o], otype[m.o], m.o, m.k, NoF, MarkWin(m), MarkEndRet(m))
  /\ UNCHANGED finished

\* simulation: print a behaviour once it has used up its operations and finished its marks
Finish ==
  /\ ~finished /\ nops = MaxOps /\ inflight = {}
  /\ PrintT("@@BEH " \o ToJson(hist))
  /\ finished' = TRUE
  /\ UNCHANGED <<vars, hist>>

GenSpec == GenInit /\ [][GenNext \/ Finish]_gvars

Emit == finished' \/ PrintT("@@EDGE " \o ToJson(hist'))
=============================================================================
