SPECIFICATION Spec
CONSTANTS
  NAddr = 3
  MaxObj = 5
  MaxOps = 5
  MaxInflight = 2
  WithReplace = TRUE
  FixRemove = TRUE
  FixAdd = TRUE
  FixFlag = TRUE
  FixMark = TRUE
INVARIANTS TypeOK CacheIsSortedHealthyMap UsableIsPreferredTier SortedNoDup RemovedNeverReported RemovedClosesEstablished
CHECK_DEADLOCK FALSE
