SPECIFICATION GenSpec
CONSTANTS
  NAddr = 2
  MaxObj = 3
  MaxOps = 3
  MaxInflight = 1
  WithReplace = TRUE
  FixRemove = TRUE
  FixAdd = TRUE
  FixFlag = TRUE
  FixMark = TRUE
CHECK_DEADLOCK FALSE
VIEW GenView
ACTION_CONSTRAINT Emit
