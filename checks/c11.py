"""C11 - no byte sequence from a client or a backend can crash or wedge the proxy.

spec/redis/Malformed.tla is a structural partition of what the proxy parses: generic malformed / boundary RESP
(lengths -2, -1, 0, max, max+1, 2^63, ...; nesting depths up to 2*10^6), redirection errors (verb x word count x
slot token x address shape), CLUSTER NODES payloads (field counts, address shapes, unknown master id, slot
tokens: reversed, negative, > 16383, astronomically large, brackets, non numeric), SCAN replies, replies to the
proxy's own ASKING / READONLY. TLC enumerates the product and emits one vector per combination.
Every vector is fed to a real Redis processor: client side frames over a downstream connection, backend side frames
as the simulated node's answer to the request that makes the proxy parse them. Oracle (the property): the process
hosting the proxy survives, another connection is served, the offending/waiting client gets a reply or its connection
is closed, the affected backend becomes usable again, stack and heap stay bounded.
Runs (spec/redis/DecodeStack.tla + the Run vectors of Malformed.tla): the decoder as a machine over a STREAM of units with the
number of live decoder activations as state; invariant StackBounded (the stack never depends on the length of a run); the
tolerant-decoder variants (blank lines / empty frames skipped by recursion, no nesting limit) must violate it. Every run
(unit class blank | empty | cmd x count 3 .. 8*10^6) is sent by a client and, for blank units, by a backend, every time.
Backend connection faults (spec/redis/BackendFault.tla): one backend connection with the ASKING hand-over of loopWrite made
explicit, a slow backend (owes QCap replies) and the faults eof | rst | garbage | stop | remove; invariants NoCrash, AtMostOnce,
NoLost, PairingFIFO; the broken exits of the hand-over ("fail-label", "drop") must violate them. The exhaustive run emits the
strata window x fault (windows: ask-handover-blocked, ask-handoff-blocked, ask-queued-blocked, ask-inflight, plain-blocked,
plain-inflight); all 30 are replayed on a real processor every run (harness c11-fault), the window confirmed from the hook
points of the real connection and from what the node received; oracle as above plus: every waiting client gets its replies
or a close.
Near-redirections (Malformed.tla NearRedirects / FoldRedirects): error replies whose first word equals MOVED / ASK / CLUSTERDOWN only
under Unicode simple case folding (long s U+017F, Kelvin sign U+212A), in mixed ASCII case, or merely starts with a verb; as the
reply to a keyed command, to a child of a split MGET (ctx keyed-child), to SCAN, to the proxy's own READONLY / ASKING and to the
refresher's CLUSTER NODES; for the latter the waiting party is the refresher: it must start another round (counter slots_refresh.total).
Well-formed requests with adversarial argument bytes (Malformed.tla KeyVecs / NumberVecs / ArityVecs, side client, contexts key |
number | arity, form "request"): every key over the brace alphabet { } x up to length 4 and longer mixes, the empty key, one-byte keys,
keys with CR / LF / NUL / 0xff, keys of 1 KiB .. 1 MiB, each routed by itself (GET, SET, HSET), as a child in every position of MGET /
MSET / DEL / EXISTS and as EVAL's key; SCAN cursors at the boundaries of the node-index / node-cursor encoding and of int64; argument
counts at and below what the handlers index. One connection per vector, one reply per request or a close; all of them run every time.
Spec modules owned: spec/redis/Malformed.tla, DecodeStack.tla, BackendFault.tla and their MC_*.cfg.
This is exploration with a TLA+-generated corpus: the structural partition is exhaustive, the byte strings are not.
"""
import concurrent.futures
import json
import os

import kit

LEVEL = "exploration"

STACK_LIMIT_MB = 64      # the deepest legitimate reply nests a handful of levels
HEAP_LIMIT_MB = 1500     # 512 MiB bulk limit + 1M element array limit, with head room
QCAP_CODE = 1024         # capacity of client.processingReqs (proc/redis/upstream.go newClient)
MANDATORY = ["ask-handover-blocked", "ask-handoff-blocked", "ask-queued-blocked", "ask-inflight", "plain-blocked", "plain-inflight"]
FAULTS = ["eof", "rst", "garbage", "stop", "remove"]
SHARDS = 6               # harness processes that share the vectors


def run(ctx):
    ctx.build()
    ctx.assumptions += ["the byte space is covered by a structural partition, not exhaustively (a coverage-guided fuzzer would be the natural tool for the residual; outside this technique family)",
                        "memory bound: %d MiB heap, %d MiB stack for any single frame and for any run of frames; heap samples above 900 MiB are confirmed after a garbage "
                        "collection (buffers of connections that are already closed are not the proxy's memory use; how long they linger is GC timing)" % (HEAP_LIMIT_MB, STACK_LIMIT_MB),
                        "BackendFault.tla: the capacity of processingReqs is %d in the code (QCap = 2 in the model); a stratum whose window is not confirmed "
                        "from the hook points of the real connection is not counted" % QCAP_CODE]
    # the small models run beside the replays (each is a JVM start of about a second)
    pool = concurrent.futures.ThreadPoolExecutor(max_workers=3)
    side = [pool.submit(models, ctx)]
    try:
        r = ctx.mc("redis", "Malformed", "MC_Malformed.cfg", workers=1, timeout=300)
        vecs = [p for (tag, p) in r.prints if tag == "VEC"]
        if len(vecs) < 200:
            raise kit.Inconclusive("only %d vectors emitted" % len(vecs))
        strata = fault_strata(ctx)
        # the replays run side by side: the strata in one process, the vectors in SHARDS processes (each hosts its own proxy)
        fs = pool.submit(drive, ctx, "c11-fault", strata, os.path.join(ctx.work, "fault-results.ndjson"))
        run_vectors(ctx, vecs)
        run_strata(ctx, strata, *fs.result())
    finally:
        # violations observed on the real code stand over trouble with the models
        try:
            for f in side:
                f.result()
        finally:
            pool.shutdown(wait=True)
    ctx.cov["rule"] = ("one case per vector of Malformed.tla (side x parsing context x form x payload class; runs: unit x count), distinct by payload, "
                       "every vector is parsed by the real code in the context it names; one case per stratum of BackendFault.tla "
                       "(window x fault) whose window was confirmed on the real connection")


def models(ctx):
    """DecodeStack.tla (stack of the decoder over a run of units) and the broken variants of BackendFault.tla:
    the code's policies satisfy the invariants, every broken policy violates them, the windows are reachable."""
    for cfg, exp in (("code", None), ("blankloop", None), ("blankrecurse", ["StackBounded"]), ("emptyrecurse", ["StackBounded"]),
                     ("nolimit", ["StackBounded"]), ("win_norun", ["NotW_LongRunNoFrame"]), ("win_frames", ["NotW_LongRunOfFrames"])):
        ctx.mc("redis", "DecodeStack", "MC_DecodeStack_%s.cfg" % cfg, workers=1, timeout=120, expect_violated=exp, count=(exp is None))
    for cfg, exp in (("faillabel", ["NoCrash"]), ("drop", ["NoLost"]), ("win_askquit", ["NotW_AskHandoverQuit"])):
        ctx.mc("redis", "BackendFault", "MC_BackendFault_%s.cfg" % cfg, workers=1, timeout=120, expect_violated=exp, count=False)


def fault_strata(ctx):
    """BackendFault.tla, exhaustive: the invariants hold for the code's exits; every transition in which a fault strikes a
    silent backend in a mandatory window prints its stratum. One replay per (window, fault): the instance in which the
    backend owes the fewest replies, mapped from the model's capacity to the code's."""
    r = ctx.mc("redis", "BackendFault", "MC_BackendFault_code%s.cfg" % ("_thorough" if ctx.thorough else ""), workers=4, timeout=600)
    best = {}
    for tag, p in r.prints:
        if tag != "STRATUM":
            continue
        k = (p["win"], p["fault"])
        if k not in best or p["owed"] < best[k]["owed"]:
            best[k] = p
    missing = [(w, f) for w in MANDATORY for f in FAULTS if (w, f) not in best]
    if missing:
        raise kit.Inconclusive("BackendFault.tla does not reach the mandatory strata %s" % missing[:6])
    strata = []
    for k in sorted(best):
        p = dict(best[k])
        if p["win"].endswith("-blocked"):
            p["owed"] = p["owed"] - p["qcap"] + QCAP_CODE
        strata.append(p)
    if ctx.thorough:
        # the unblocked ASKING hand-over is a narrow race: it cannot be forced from outside, strike at random moments
        strata += [{"win": "ask-handover-race", "fault": f, "owed": o, "askingOnWire": False, "askOnWire": False, "rep": i}
                   for f in FAULTS for o in (0, QCAP_CODE - 2) for i in range(12)]
    return strata


def drive(ctx, sub, items, rfile, extra_env=None):
    """Run a sub-command of the harness over items (ndjson); the harness process hosts the proxy: when it dies, the item
    that was started and not finished killed it - report and restart behind it. Returns (records, [(item index, stderr)])."""
    ifile = rfile.replace("results", "items")
    kit.write_ndjson(ifile, items)
    if os.path.exists(rfile):
        os.remove(rfile)
    skip = 0
    deaths = []
    while skip < len(items):
        rc, so, se = ctx.harness([sub, "-in", ifile, "-out", rfile, "-skip", str(skip)], timeout=1800, allow_fail=True, env=extra_env)
        recs = kit.read_ndjson(rfile) if os.path.exists(rfile) else []
        started = [x["start"] for x in recs if x.get("start")]
        finished = [x["id"] for x in recs if x.get("id")]
        if rc == 0:
            break
        culprit = started[-1] if started and (not finished or finished[-1] != started[-1]) else None
        if culprit is None:
            raise kit.Inconclusive("%s exited %d outside a case: %s" % (sub, rc, se[-1500:]))
        deaths.append((culprit - 1, rc, se))
        skip = culprit
        if len(deaths) > 60:
            # what was seen so far stands; the caller notices that items are missing
            ctx.notes.append("%s: more than 60 crashes, stopped after item %d of %d" % (sub, skip, len(items)))
            break
    recs = [x for x in kit.read_ndjson(rfile) if x.get("id")] if os.path.exists(rfile) else []
    return recs, deaths


def died(rc, se):
    why = "panic" if "panic:" in se else ("fatal error" if "fatal error" in se else "exit %d" % rc)
    m = [l for l in se.splitlines() if l.startswith("panic:") or l.startswith("fatal error")]
    return m[0] if m else why


def run_vectors(ctx, vecs):
    if not ctx.thorough:
        # quick tier: every backend-side vector, client side vectors thinned deterministically by the seed; the long
        # frames, the runs (form "big") and the well-formed requests with adversarial arguments (form "request") are mandatory
        vecs = [v for i, v in enumerate(vecs) if v["side"] == "backend" or (i + ctx.seed) % 2 == 0 or v["form"] in ("big", "request")]
    # shard k executes the vectors k, k + SHARDS, ...; ids are mapped back to positions in vecs
    with concurrent.futures.ThreadPoolExecutor(max_workers=SHARDS) as tp:
        parts = list(tp.map(lambda k: drive(ctx, "c11-run", vecs[k::SHARDS], os.path.join(ctx.work, "results-%d.ndjson" % k), {"GOMEMLIMIT": "off"}),
                            range(SHARDS)))
    recs, deaths = [], []
    for k, (rs, ds) in enumerate(parts):
        recs += [dict(x, id=(x["id"] - 1) * SHARDS + k + 1) for x in rs]
        deaths += [(idx * SHARDS + k, rc, se) for idx, rc, se in ds]
    recs.sort(key=lambda x: x["id"])
    for idx, rc, se in deaths:
        v = vecs[idx]
        ctx.violation("crash/%s/%s/%s" % (v["side"], v["ctx"], classify(v)),
                      "the process hosting the proxy died (%s) on %s/%s %r" % (died(rc, se), v["side"], v["ctx"], short(v)),
                      {"vector": v, "stderr_tail": se[-3000:]})
    for x in recs:
        v = vecs[x["id"] - 1]
        ctx.case(key=[v["side"], v["ctx"], v["form"], json.dumps(v["payload"])[:200]], nontrivial=True)
        cls = classify(v)
        if x.get("err"):
            ctx.notes.append("vector %d: %s" % (x["id"], x["err"]))
            continue
        bad = False
        if x.get("witness"):
            bad = True
            ctx.violation("other-connections-not-served/%s/%s/%s" % (v["side"], v["ctx"], cls), "%s: %s" % (x["vec"], x["witness"]), {"vector": v, "result": x})
        if x.get("outcome", "").startswith("timeout"):
            bad = True
            ctx.violation("wedged/%s/%s/%s" % (v["side"], v["ctx"], cls), "%s: the waiting client got neither a reply nor a close (%s)" % (x["vec"], x["outcome"]),
                          {"vector": v, "result": x})
        if x.get("recover"):
            bad = True
            ctx.violation("backend-not-usable-again/%s/%s/%s" % (v["side"], v["ctx"], cls), "%s: %s" % (x["vec"], x["recover"]), {"vector": v, "result": x})
        if x.get("refresh"):
            # the waiting party here is the proxy's own slot refresher: its CLUSTER NODES request never got an answer
            bad = True
            ctx.violation("wedged/%s/%s/%s" % (v["side"], v["ctx"], cls), "%s: %s" % (x["vec"], x["refresh"]), {"vector": v, "result": x})
        if x["stackMB"] > STACK_LIMIT_MB:
            bad = True
            ctx.violation("stack-unbounded/%s/%s/%s" % (v["side"], v["ctx"], cls), "%s: %d MiB of stack in use" % (x["vec"], x["stackMB"]), {"vector": v, "result": x})
        if x["heapMB"] > HEAP_LIMIT_MB:
            bad = True
            ctx.violation("memory-unbounded/%s/%s/%s" % (v["side"], v["ctx"], cls), "%s: %d MiB of heap in use" % (x["vec"], x["heapMB"]), {"vector": v, "result": x})
        if not bad:
            ctx.cov["traces_validated_against_impl"] += 1
    if len(recs) + len(deaths) < len(vecs) * 0.95:
        raise kit.Inconclusive("only %d of %d vectors executed" % (len(recs), len(vecs)))
    runs = [x for x in recs if isinstance(vecs[x["id"] - 1]["payload"], dict) and vecs[x["id"] - 1]["payload"].get("kind") == "repeat"]
    ctx.cov["runs_replayed"] = len(runs)
    ctx.cov["crashes"] = len(deaths)
    for x in recs[:: max(1, len(recs) // 5)]:
        ctx.sample(x)


def run_strata(ctx, strata, recs, deaths):
    for idx, rc, se in deaths:
        s = strata[idx]
        ctx.violation("crash/backend-fault/%s/%s" % (s["win"], s["fault"]),
                      "the process hosting the proxy died (%s): backend owes %d replies, window %s, fault %s" % (died(rc, se), s["owed"], s["win"], s["fault"]),
                      {"stratum": s, "stderr_tail": se[-3000:]})
    reached = set((strata[idx]["win"], strata[idx]["fault"]) for idx, _, _ in deaths)
    for x in recs:
        s = strata[x["id"] - 1]
        sig = "%s/%s" % (s["win"], s["fault"])
        if x.get("err"):
            ctx.notes.append("stratum %s: %s" % (sig, x["err"]))
            continue
        if not x.get("window"):
            if s["win"] in MANDATORY:
                ctx.notes.append("stratum %s: window not reached (%s)" % (sig, x.get("windowWhy")))
                continue
        else:
            reached.add((s["win"], s["fault"]))
        ctx.case(key=["backend-fault", s["win"], s["fault"], s["owed"], s.get("rep", 0)], nontrivial=bool(x.get("window")))
        bad = False
        if x.get("ask") == "timeout" or x.get("fillers"):
            bad = True
            ctx.violation("wedged/backend-fault/%s" % sig, "a waiting client got neither a reply nor a close within 8 s (redirected request: %s; %s)"
                          % (x.get("ask"), x.get("fillers")), {"stratum": s, "result": x})
        if x.get("witness"):
            bad = True
            ctx.violation("other-connections-not-served/backend-fault/%s" % sig, x["witness"], {"stratum": s, "result": x})
        if x.get("recover"):
            bad = True
            ctx.violation("backend-not-usable-again/backend-fault/%s" % sig, x["recover"], {"stratum": s, "result": x})
        if x.get("stop"):
            # whether Stop returns is C09's property; here it is only recorded
            ctx.notes.append("stratum %s: %s" % (sig, x["stop"]))
        if x["stackMB"] > STACK_LIMIT_MB or x["heapMB"] > HEAP_LIMIT_MB:
            bad = True
            ctx.violation("memory-unbounded/backend-fault/%s" % sig, "%d MiB of stack, %d MiB of heap in use" % (x["stackMB"], x["heapMB"]), {"stratum": s, "result": x})
        if not bad and x.get("window"):
            ctx.cov["traces_validated_against_impl"] += 1
    ctx.cov["fault_strata_reached"] = len(reached)
    missing = [(w, f) for w in MANDATORY for f in FAULTS if (w, f) not in reached]
    if missing:
        raise kit.Inconclusive("mandatory strata of BackendFault.tla not exercised on the code: %s" % missing[:8])
    for x in recs[:: max(1, len(recs) // 3)]:
        ctx.sample(x)


def short(v):
    p = v["payload"]
    if isinstance(p, dict) and "reqs" in p:
        return "%s %r: %s" % (p["class"], p["name"][:40], " | ".join(" ".join(a[:40] for a in r) for r in p["reqs"])[:160])
    return p if not isinstance(p, str) else p[:80]


def classify(v):
    """stable class name of a vector for signatures"""
    p = v["payload"]
    if isinstance(p, dict) and "reqs" in p:
        return "%s-%s" % (p["class"], p["name"].encode("unicode_escape").decode("ascii")[:32])
    if isinstance(p, dict) and p.get("kind") == "repeat":
        return "run-%s-x%d" % (p["name"], p["n"])
    if isinstance(p, dict) and "shape" in p:
        return "cps-%s-%s" % (p["shape"], "".join(ch if ch.isalnum() else "_" for ch in p["val"])[:16])
    if isinstance(p, dict):
        return "%s-%d" % (p["kind"], p["n"])
    if v["form"] == "error":
        words = p.split(" ")
        return "redirect-%dwords-%s" % (len(words), words[0].lower())
    if v["ctx"] == "cluster-nodes" and v["form"] == "bulk":
        if "slave" in p:
            return "replica-line"
        if "connected " in p:
            return "slots-" + p.split("connected ")[1].replace(" ", "_")[:24]
        return "fields-%d" % len(p.split())
    return "frame-" + "".join(ch if ch.isalnum() or ch in "$*:+-" else "_" for ch in p)[:24]
