"""C11 - no byte sequence from a client or a backend can crash or wedge the proxy.

spec/redis/Malformed.tla is a structural partition of what the proxy parses: generic malformed / boundary RESP
(lengths -2, -1, 0, max, max+1, 2^63, ...; nesting depths up to 2*10^6), redirection errors (verb x word count x
slot token x address shape), CLUSTER NODES payloads (field counts, address shapes, unknown master id, slot
tokens: reversed, negative, > 16383, astronomically large, brackets, non numeric), SCAN replies, replies to the
proxy's own ASKING / READONLY. TLC enumerates the product and emits one vector per combination.
Every vector is fed to a real Redis processor: client side frames over a downstream connection, backend side frames
as the simulated node's answer to the request that makes the proxy parse them. Oracle (the property): the process
hosting the proxy survives, another connection is served, the offending/waiting client gets a reply or its connection
is closed, the affected backend becomes usable again, stack and heap stay bounded.
This is exploration with a TLA+-generated corpus: the structural partition is exhaustive, the byte strings are not.
"""
import json
import os
import subprocess

import kit

LEVEL = "exploration"

STACK_LIMIT_MB = 64      # the deepest legitimate reply nests a handful of levels
HEAP_LIMIT_MB = 1500     # 512 MiB bulk limit + 1M element array limit, with head room


def run(ctx):
    ctx.build()
    ctx.assumptions += ["the byte space is covered by a structural partition, not exhaustively (a coverage-guided fuzzer would be the natural tool for the residual; outside this technique family)",
                        "memory bound: %d MiB heap, %d MiB stack for any single frame" % (HEAP_LIMIT_MB, STACK_LIMIT_MB)]
    r = ctx.mc("redis", "Malformed", "MC_Malformed.cfg", workers=1, timeout=300)
    vecs = [p for (tag, p) in r.prints if tag == "VEC"]
    if len(vecs) < 200:
        raise kit.Inconclusive("only %d vectors emitted" % len(vecs))
    if not ctx.thorough:
        # quick tier: every backend-side vector, client side vectors thinned deterministically by the seed
        vecs = [v for i, v in enumerate(vecs) if v["side"] == "backend" or (i + ctx.seed) % 2 == 0 or v["form"] == "big"]
    vfile = os.path.join(ctx.work, "vectors.ndjson")
    kit.write_ndjson(vfile, vecs)
    rfile = os.path.join(ctx.work, "results.ndjson")
    if os.path.exists(rfile):
        os.remove(rfile)
    skip = 0
    crashes = 0
    while skip < len(vecs):
        rc, so, se = ctx.harness(["c11-run", "-in", vfile, "-out", rfile, "-skip", str(skip)], timeout=1800, allow_fail=True,
                                 env={"GOMEMLIMIT": "off"})
        recs = kit.read_ndjson(rfile) if os.path.exists(rfile) else []
        started = [x["start"] for x in recs if x.get("start")]
        finished = [x["id"] for x in recs if x.get("id")]
        if rc == 0:
            break
        # the process hosting the proxy died: the vector that was started and not finished killed it
        crashes += 1
        culprit = started[-1] if started and (not finished or finished[-1] != started[-1]) else None
        if culprit is None:
            raise kit.Inconclusive("c11-run exited %d outside a vector: %s" % (rc, se[-1500:]))
        v = vecs[culprit - 1]
        why = "panic" if "panic:" in se else ("fatal error" if "fatal error" in se else "exit %d" % rc)
        m = [l for l in se.splitlines() if l.startswith("panic:") or l.startswith("fatal error")]
        ctx.violation("crash/%s/%s/%s" % (v["side"], v["ctx"], classify(v)),
                      "the process hosting the proxy died (%s) on %s/%s %r" % (m[0] if m else why, v["side"], v["ctx"], short(v)),
                      {"vector": v, "stderr_tail": se[-3000:]})
        skip = culprit
        if crashes > 60:
            raise kit.Inconclusive("too many crashes")
    recs = [x for x in kit.read_ndjson(rfile) if x.get("id")]
    for x in recs:
        v = vecs[x["id"] - 1]
        ctx.case(key=[v["side"], v["ctx"], v["form"], json.dumps(v["payload"])[:200]], nontrivial=True)
        cls = classify(v)
        if x.get("err"):
            ctx.notes.append("vector %d: %s" % (x["id"], x["err"]))
            continue
        bad = False
        if x.get("witness"):
            bad = True
            ctx.violation("other-connections-not-served/%s/%s/%s" % (v["side"], v["ctx"], cls), "%s: %s" % (x["vec"], x["witness"]), {"vector": v, "result": x})
        if x.get("outcome", "").startswith("timeout"):
            bad = True
            ctx.violation("wedged/%s/%s/%s" % (v["side"], v["ctx"], cls), "%s: the waiting client got neither a reply nor a close (%s)" % (x["vec"], x["outcome"]),
                          {"vector": v, "result": x})
        if x.get("recover"):
            bad = True
            ctx.violation("backend-not-usable-again/%s/%s/%s" % (v["side"], v["ctx"], cls), "%s: %s" % (x["vec"], x["recover"]), {"vector": v, "result": x})
        if x["stackMB"] > STACK_LIMIT_MB:
            bad = True
            ctx.violation("stack-unbounded/%s/%s/%s" % (v["side"], v["ctx"], cls), "%s: %d MiB of stack in use" % (x["vec"], x["stackMB"]), {"vector": v, "result": x})
        if x["heapMB"] > HEAP_LIMIT_MB:
            bad = True
            ctx.violation("memory-unbounded/%s/%s/%s" % (v["side"], v["ctx"], cls), "%s: %d MiB of heap in use" % (x["vec"], x["heapMB"]), {"vector": v, "result": x})
        if not bad:
            ctx.cov["traces_validated_against_impl"] += 1
    if len(recs) + crashes < len(vecs) * 0.95:
        raise kit.Inconclusive("only %d of %d vectors executed" % (len(recs), len(vecs)))
    ctx.cov["crashes"] = crashes
    for x in recs[:: max(1, len(recs) // 5)]:
        ctx.sample(x)
    ctx.cov["rule"] = ("one case per vector of Malformed.tla (side x parsing context x form x payload class); distinct by payload; every vector is non-trivial "
                       "(it is parsed by the real code in the context it names)")


def short(v):
    p = v["payload"]
    return p if not isinstance(p, str) else p[:80]


def classify(v):
    """stable class name of a vector for signatures"""
    p = v["payload"]
    if isinstance(p, dict) and "shape" in p:
        return "cps-%s-%s" % (p["shape"], "".join(ch if ch.isalnum() else "_" for ch in p["val"])[:16])
    if isinstance(p, dict):
        return "%s-%d" % (p["kind"], p["n"])
    if v["form"] == "error":
        words = p.split(" ")
        return "redirect-%dwords-%s" % (len(words), words[0].lower())
    if v["ctx"] == "cluster-nodes" and v["form"] == "bulk":
        if "slave" in p:
            return "replica-line"
        if "connected " in p:
            return "slots-" + p.split("connected ")[1].replace(" ", "_")[:24]
        return "fields-%d" % len(p.split())
    return "frame-" + "".join(ch if ch.isalnum() or ch in "$*:+-" else "_" for ch in p)[:24]
