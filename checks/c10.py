"""C10 - RESP codec: decode and encode are inverse and independent of chunking.

spec/redis/Resp.tla        values, Encode, DecodeAll (abstract decoder of a byte stream), inline commands,
                           ParseInt (contract of btoi64) and the transcription of its fast path;
spec/redis/RespReader.tla  the decoder as implemented: transcription of bufio.go (window, compaction, buffer-full,
                           fragment assembly, read bypass, slab thresholds) + codec.go on a chunked stream;
spec/redis/RespGen.tla     bounded enumeration (exhaustive TLC runs), property predicates checked on every state,
                           one JSON test vector printed per state;
spec/redis/RespTrace.tla   validation of recorded runs of the real codec.

 1. TLC: RespReader refines Resp on every chunking with <= 2 cuts, byte by byte and every truncation of short
    streams for buffers {4,5,8,32} (MC_Resp_ref_*); round trip / re-encode / exact consumption for every value
    (ValSpec); concatenations of <= 3 messages incl. inline commands (CatSpec); long lines / payloads x buffer
    sizes {32,33,64,4096,8192} x explicit chunkings with predicted reads and branches (RdSpec); integer texts:
    fast path = ParseInt (IntSpec).
 2. spec -> code: every vector replayed through VerifEncode / VerifDecodeAll / VerifBtoi64 / VerifItoa under one read,
    byte by byte and every set of <= 3 cuts out of the vector's cut candidates, all five buffer sizes, all
    truncations.  RD vectors also compare the sizes of the reads the real Reader issued with RespReader's prediction
    (binding of the transcription; a difference there is a model problem, not a violation).
 3. code -> spec: seeded random values / inline commands / chunkings through the real codec, recorded and judged by
    TLC with the operators of Resp.tla (RespTrace).
"""
import json
import os

import kit

LEVEL = "model_checking"

REQUIRED_BRANCHES = {
    "byte.fill", "fill.reset", "fill.compact",         # refill with nothing / with data to move
    "slice.fill", "slice.refill", "slice.full",        # a line spanning a refill; a line longer than the buffer
    "bytes.assembled",                                 # ReadBytes fragment assembly
    "read.buffered", "read.fill", "read.bypass",       # bulk from the buffer / refill / larger than the buffer
    "make.slab.first", "make.slab", "make.slab.exhausted", "make.big", "make.big.8192",   # 512 / 8192 thresholds
}

STRUCT = {43, 45, 58, 36, 42, 13, 10, 32}


def _nontrivial_value(v):
    if v["t"] == "array":
        return True
    if v["t"] == "int":
        return len(v["d"]) >= 9
    return any((x in STRUCT) or x < 0 for x in v.get("s", []))


def _gen(ctx, cfg, tag, workers=4, timeout=900):
    r = ctx.mc("redis", "RespGen", cfg, workers=workers, timeout=timeout)
    out = [p for (t, p) in r.prints if t in tag]
    bad = [p for p in out if not isinstance(p, dict)]
    if bad or not out:
        raise kit.Inconclusive("%s: %d vectors, %d unparsable" % (cfg, len(out), len(bad)))
    return r, [(t, p) for (t, p) in r.prints if t in tag]


def run(ctx):
    ctx.build()
    tier = "thorough" if ctx.thorough else "quick"
    ctx.assumptions += [
        "bounded enumeration with the TLA+ module as oracle, not a proof over all values: payload alphabet "
        "{+ - : $ * CR LF SP 0 1 a}, payload length <= 3 (quick) / 4 (thorough), arrays of <= 3 / 4 leaves, nesting depth <= 4; "
        "long payloads and the 64 bit range enter through boundary classes (around 32 / 512 / 8192 bytes, buffer size, int64 bounds)",
        "canonical input only: simple strings / errors without CR LF, lengths without sign or leading zeros; inline command = "
        "space separated words on one CR LF terminated line whose first byte is not a type byte (malformed input is C11)",
        "connection reads never return data together with an error and never return (0, nil) (true for net.Conn)",
        "VerifDecodeAll copies each top-level value when Decode returns, so aliasing between values of different "
        "top-level messages is not observable through it (elements of one message are)",
        "RespReader models window arithmetic, not buffer contents; contents are observed on the real code",
    ]
    # 1. refinement of the abstract decoder by the implementation-shaped one
    ctx.mc("redis", "RespGen", "MC_Resp_ref_%s.cfg" % tier, workers=4 if not ctx.thorough else 8, timeout=900)

    # 2. vectors
    vectors = []
    rv, vals = _gen(ctx, "Gen_Resp_val_%s.cfg" % tier, {"VAL"}, workers=4 if not ctx.thorough else 8)
    rc, cats = _gen(ctx, "Gen_Resp_cat_%s.cfg" % tier, {"CAT"})
    rr, rds = _gen(ctx, "Gen_Resp_rd_%s.cfg" % tier, {"RD"}, workers=4 if not ctx.thorough else 8)
    ri, ints = _gen(ctx, "Gen_Resp_int_%s.cfg" % tier, {"INT", "ITOA"})
    for t, p in vals + cats + rds + ints:
        vectors.append({"tag": t, "id": len(vectors), "o": p})
    counts = {}
    for v in vectors:
        counts[v["tag"]] = counts.get(v["tag"], 0) + 1
    kit.log("[c10] vectors: %s" % counts)
    # every branch of the reader must be reached by some RD vector (TLC chose chunking x buffer size)
    br = {}
    for t, p in rds:
        for b in p["br"]:
            br[b] = br.get(b, 0) + 1
    missing = REQUIRED_BRANCHES - set(br)
    ctx.cov["reader_branches"] = br
    if missing:
        raise kit.Inconclusive("RD vectors do not reach reader branches %s" % sorted(missing))
    caps = sorted({p["cap"] for t, p in rds})
    if caps != [32, 33, 64, 4096, 8192]:
        raise kit.Inconclusive("RD vectors cover buffer sizes %s" % caps)
    if counts.get("ITOA", 0) != 132:
        raise kit.Inconclusive("ITOA chunks: %s" % counts.get("ITOA"))

    vfile = os.path.join(ctx.work, "vectors.ndjson")
    kit.write_ndjson(vfile, vectors)
    rfile = os.path.join(ctx.work, "replay.ndjson")
    rcode, so, se = ctx.harness(["c10-replay", "-in", vfile, "-out", rfile, "-maxcuts", "3" if ctx.thorough else "2"],
                                 timeout=3000, allow_fail=True)
    recs = kit.read_ndjson(rfile) if os.path.exists(rfile) else []
    if rcode != 0:
        raise kit.Inconclusive("c10-replay exited %d: %s" % (rcode, se[-1500:]))
    sums = {r["tag"]: r for r in recs if r.get("kind") == "summary"}
    for t, n in counts.items():
        if t not in sums or sums[t]["vectors"] != n:
            raise kit.Inconclusive("replay of %s vectors incomplete: %s of %d" % (t, sums.get(t), n))
    model_bad = []
    for r in recs:
        if r.get("kind") != "mismatch":
            continue
        if r["what"].startswith("model/"):
            model_bad.append(r)
            continue
        vec = vectors[r["id"]]
        ctx.violation("%s/%s" % (r["what"], r["tag"]),
                      "%s: real codec %s, specification %s (input rope %s, chunks %s, buffer %s)" % (
                          r["what"], json.dumps(r.get("got"))[:300], json.dumps(r.get("want"))[:300],
                          r.get("input"), r.get("chunks"), r.get("buf")),
                      {"mismatch": r, "vector": vec if len(json.dumps(vec)) < 20000 else "(large)"})
    if model_bad and not ctx.violations:
        raise kit.Inconclusive("RespReader.tla predicts other reads than bufio.go issues (%d vectors), e.g. %s"
                               % (len(model_bad), json.dumps(model_bad[0])[:600]))
    runs = 0
    for t, s in sums.items():
        runs += s["runs"]
    # bookkeeping: one case per vector, the remaining executions counted as evaluations
    for t, p in vals:
        ctx.case(key="V" + json.dumps(p["v"], sort_keys=True), nontrivial=_nontrivial_value(p["v"]))
    for t, p in cats:
        ctx.case(key="C" + json.dumps(p["i"]), nontrivial=len(p["i"]) >= 2)
    for t, p in rds:
        ctx.case(key="R%d|%s|%s" % (p["cap"], p["s"], p["c"]),
                 nontrivial=bool({"slice.full", "slice.refill", "read.bypass", "fill.compact"} & set(p["br"])))
    for t, p in ints:
        if t == "INT":
            ctx.case(key="I" + bytes(p["x"]).decode("latin1"), nontrivial=bool(p["x"]) and not (p["ok"] and len(p["x"]) < 3))
        else:
            ctx.case(key="A%d" % p["lo"], nontrivial=True, n=256)
    ctx.case(n=max(0, runs - len(vectors)), nontrivial=False)
    ctx.cov["traces_validated_against_impl"] += len(vectors)
    ctx.cov["replay"] = {"vectors": counts, "codec_executions": runs,
                         "chunkings": "one read, byte by byte, every subset of <= %d of the vector's cut candidates; " % (3 if ctx.thorough else 2) +
                                      "buffers 32,33,64,4096,8192 (2 cuts: 32,33,4096; 3 cuts: one of these, rotating)"}
    ctx.sample({"VAL": vals[len(vals) // 2][1]})
    ctx.sample({"CAT": cats[-1][1]})
    small_rd = [p for t, p in rds if len(p["r"]) <= 8 and "read.bypass" in p["br"]]
    if small_rd:
        ctx.sample({"RD": small_rd[0]})

    # 3. recorded runs of the real codec judged by TLC
    n_rec = 1500 if ctx.thorough else 300
    n_long = 150 if ctx.thorough else 25
    per = 300
    accepted = 0
    for part in range(0, n_rec, per):
        tfile = os.path.join(ctx.work, "recorded-%d.json" % part)
        ctx.harness(["c10-record", "-n", str(min(per, n_rec - part)), "-long", str(max(0, min(per, n_long - part))), "-out", tfile],
                    env={"VERIF_SEED": str(ctx.seed * 1000 + part)}, timeout=600)
        with open(tfile) as f:
            events = json.load(f)
        rt = ctx.validate_traces("redis", "RespTrace", "Trace_Resp.cfg", events, len(events), timeout=600)
        ctx.cov["states"] += rt.distinct
        ctx.cov["transitions"] += rt.generated
        if not rt.ok:
            if rt.reject is None:
                raise kit.Inconclusive("RespTrace failed without a rejection: %s" % (rt.error or rt.violated))
            idx = rt.reject[0] - 1
            e = events[idx] if 0 <= idx < len(events) else None
            failed = rt.reject[1].strip().strip('"').split()
            if failed == ["reads"]:
                raise kit.Inconclusive("RespReader.tla predicts other reads than bufio.go issued in recorded run %d: %s"
                                       % (idx, json.dumps(e)[:800]))
            ctx.violation("recorded/" + "+".join(x for x in failed if x != "reads"),
                          "TLC rejects a recorded run of the real codec (%s): stream rope %s chunks %s buffer %s decoded %s err %s" % (
                              failed, e and e["stream"][:80], e and e["chunks"][:20], e and e["buf"],
                              e and json.dumps(e["dec"])[:300], e and e["err"]),
                          {"index": idx, "failed": failed, "record": e})
            break
        accepted += len(events)
        for e in events:
            ctx.case(key="T" + json.dumps([e["buf"], e["chunks"][:50], e["stream"][:200]]),
                     nontrivial=len(e["chunks"]) > 1 and len(e["dec"]) > 0)
        if part == 0:
            ctx.sample({"recorded": {k: events[0][k] for k in ("buf", "chunks", "stream", "dec", "err", "reads")}})
    ctx.cov["recorded_runs"] = accepted
    ctx.cov["exhaustive"] = False
    ctx.cov["exhaustive_scope"] = ("complete for the bounded grammar stated in the assumptions (every value / concatenation / "
                                   "chunking of it was enumerated), not for all RESP values")
    # long concatenations on ONE decoder (a connection's decoder is long lived): hundreds of messages of every shape,
    # arrays beyond any pre-allocation, nesting up to the documented limit
    lfile = os.path.join(ctx.work, "longlived.ndjson")
    ctx.harness(["c10-longlived", "-out", lfile], timeout=600)
    for r in kit.read_ndjson(lfile):
        ctx.case(key=["longlived", r["case"]], nontrivial=r["n"] > 1)
        if not r["ok"]:
            ctx.violation("decode/long-concatenation/" + r["case"].split(" ")[0], "%s: %s" % (r["case"], r["why"]), r)
    ctx.cov["rule"] = ("cases: one per TLC vector (VAL distinct by value, non-trivial = array, structural byte or run in the payload, "
                       ">= 9 digit integer; CAT by message indices, non-trivial = >= 2 messages; RD by buffer, stream, chunks, "
                       "non-trivial = reaches buffer-full / refill / bypass / compaction; INT by text, non-trivial = not a short plain "
                       "number; ITOA chunk = 256 integers) plus one per recorded run; every other execution of the real codec "
                       "(chunkings, buffers, truncations) only adds to evaluations")
