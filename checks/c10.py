"""C10 - RESP codec: decode and encode are inverse and independent of chunking.

spec/redis/Resp.tla        values, Encode, DecodeAll (abstract decoder of a byte stream), inline commands,
                           ParseInt (contract of btoi64) and the transcription of its fast path;
spec/redis/RespReader.tla  the decoder as implemented: transcription of bufio.go (window, compaction, buffer-full,
                           fragment assembly, read bypass, slab thresholds) + codec.go on a chunked stream;
spec/redis/RespGen.tla     bounded enumeration (exhaustive TLC runs), property predicates checked on every state,
                           one JSON test vector printed per state;
spec/redis/RespTrace.tla   validation of recorded runs of the real codec.

 1. TLC: RespReader refines Resp on every chunking with <= 2 cuts, byte by byte and every truncation of short
    streams for buffers {4,5,8,32} (MC_Resp_ref_*); round trip / re-encode / exact consumption for every value
    (ValSpec); concatenations of <= 3 messages incl. inline commands (CatSpec); long lines / payloads x buffer
    sizes {32,33,64,4096,8192} x explicit chunkings with predicted reads and branches (RdSpec); integer texts:
    fast path = ParseInt (IntSpec).
 2. spec -> code: every vector replayed through VerifEncode / VerifDecodeAll / VerifBtoi64 / VerifItoa under one read,
    byte by byte and every set of <= 3 cuts out of the vector's cut candidates, all five buffer sizes, all
    truncations.  RD vectors also compare the sizes of the reads the real Reader issued with RespReader's prediction
    (binding of the transcription; a difference there is a model problem, not a violation).
 3. code -> spec: seeded random values / inline commands / chunkings through the real codec, recorded and judged by
    TLC with the operators of Resp.tla (RespTrace).
 4. shared state of the codec (spec/redis/RespEnc.tla): several encoders interleaved at the granularity format a number /
    write it (possibly in two pieces around a blocking flush).  With a scratch private to the call (the code) every wire
    carries its own values (MC_RespEnc_private); with a scratch shared between encoders the round trip breaks
    (MC_RespEnc_shared must yield the counterexample).  Code side: c10-concurrent runs >= 64 goroutines, each round with
    its own real encoder and decoder, on streams dense in integers outside the itoa table, bulk strings > 32768 bytes
    and arrays > 32768 elements, while other goroutines replay the TLC vectors of all classes and 16 clients pipeline
    through a real Redis processor (session / backend client encoders over TCP); what was decoded must be what was sent,
    and recorded concurrent rounds are judged by TLC (wire = Encode(sent)).
 5. life cycle of a decoder (spec/redis/RespLife.tla): a connection ends at any point, also mid-message with bytes left in
    the decoder's window; the next connection's decoder must be in the initial state (MC_RespLife_fresh holds; the
    variant in which the window of a retired decoder survives must violate "exactly the messages of this stream":
    MC_RespLife_residue).  Code side: c10-residue runs rounds through a real processor's sessions: connection A sends k
    complete requests and a prefix cut at every position class and closes, then 1..8 fresh connections send PING / a
    unique GET (array or inline form) and must read exactly their own replies.
"""
import json
import os
import threading

import kit

LEVEL = "model_checking"

REQUIRED_BRANCHES = {
    "byte.fill", "fill.reset", "fill.compact",         # refill with nothing / with data to move
    "slice.fill", "slice.refill", "slice.full",        # a line spanning a refill; a line longer than the buffer
    "bytes.assembled",                                 # ReadBytes fragment assembly
    "read.buffered", "read.fill", "read.bypass",       # bulk from the buffer / refill / larger than the buffer
    "make.slab.first", "make.slab", "make.slab.exhausted", "make.big", "make.big.8192",   # 512 / 8192 thresholds
}

STRUCT = {43, 45, 58, 36, 42, 13, 10, 32}


def _nontrivial_value(v):
    if v["t"] == "array":
        return True
    if v["t"] == "int":
        return len(v["d"]) >= 9
    return any((x in STRUCT) or x < 0 for x in v.get("s", []))


def _gen(ctx, cfg, tag, workers=4, timeout=900):
    r = ctx.mc("redis", "RespGen", cfg, workers=workers, timeout=timeout)
    out = [p for (t, p) in r.prints if t in tag]
    bad = [p for p in out if not isinstance(p, dict)]
    if bad or not out:
        raise kit.Inconclusive("%s: %d vectors, %d unparsable" % (cfg, len(out), len(bad)))
    return r, [(t, p) for (t, p) in r.prints if t in tag]


class _Bg:
    """Run fn in a thread (harness sub-processes that need no TLC result); join() returns its result or re-raises."""

    def __init__(self, fn):
        self.res, self.exc = None, None
        self.t = threading.Thread(target=self._run, args=(fn,))
        self.t.start()

    def _run(self, fn):
        try:
            self.res = fn()
        except BaseException as e:   # noqa: re-raised in join
            self.exc = e

    def join(self):
        self.t.join()
        if self.exc is not None:
            raise self.exc
        return self.res


def encoders_model(ctx):
    """4. RespEnc.tla: private scratch (the code) holds, shared scratch violates the round trip."""
    ctx.assumptions.append(
        "concurrent encoders: the interleaving of the real goroutines is not forced (no hook between formatting a number and "
        "writing it, and the exports encode into memory only): many encoders run at once on more goroutines than Ps and the "
        "window is hit statistically; the blocked-flush-in-the-middle-of-a-number window is explored in the model only")
    ctx.mc("redis", "RespEnc", "MC_RespEnc_private.cfg", workers=4, timeout=300)
    ctx.mc("redis", "RespEnc", "MC_RespEnc_shared.cfg", workers=2, timeout=300, count=False,
           expect_violated=["WireIsOwn", "RoundTripAll"])
    if ctx.thorough:
        # the round trip also breaks without a split write; every encoder finishes in some behaviour
        ctx.mc("redis", "RespEnc", "MC_RespEnc_shared_nosplit.cfg", workers=2, timeout=300, count=False,
               expect_violated=["RoundTripAll"])
        ctx.mc("redis", "RespEnc", "MC_RespEnc_done.cfg", workers=2, timeout=300, count=False, expect_violated=["NeverAllDone"])


def lifecycle_model(ctx):
    """5. RespLife.tla: a new connection's decoder is in the initial state; a surviving window violates the property."""
    ctx.mc("redis", "RespLife", "MC_RespLife_fresh_thorough.cfg" if ctx.thorough else "MC_RespLife_fresh.cfg", workers=4, timeout=600)
    ctx.mc("redis", "RespLife", "MC_RespLife_residue.cfg", workers=1, dfs=True, timeout=300, count=False, expect_violated=["OwnMessagesOnly"])
    if ctx.thorough:
        # some connection does end with bytes left in the window
        ctx.mc("redis", "RespLife", "MC_RespLife_leftover.cfg", workers=2, timeout=300, count=False, expect_violated=["NeverLeftover"])


def residue_results(ctx, res, resfile):
    rc, so, se = res
    recs = kit.read_ndjson(resfile) if os.path.exists(resfile) else []
    for r in recs:
        if r.get("kind") == "mismatch":
            ctx.violation("codec/session-residue/" + r["what"],
                          "round %s: the previous connection ended %s (left %r after %s complete requests); fresh connection %s sent %s "
                          "and must read %s but got %s" % (r["round"], r["cut"], r["prefix_left_by_previous_connection"],
                                                         r["complete_requests_before"], r["fresh_connection"], r["sent"], r["want"], r["got"]), r)
    sums = [r for r in recs if r.get("kind") == "summary"]
    infra = [r for r in recs if r.get("kind") == "infra"]
    if ctx.violations:
        return
    if rc != 0 or infra or not sums:
        raise kit.Inconclusive("c10-residue: rc=%s %s %s" % (rc, "; ".join(r["why"] for r in infra[:3]), se[-600:]))
    s = sums[0]
    if s["fresh_connections"] < 100 or len(s["cut_classes"]) < 15:
        raise kit.Inconclusive("c10-residue too thin: %s" % s)
    ctx.cov["session_residue"] = {k: s[k] for k in ("rounds", "fresh_connections", "replies_checked", "cut_classes", "gomaxprocs")}
    for c, n in s["cut_classes"].items():
        ctx.case(key="residue/" + c, n=n)
    ctx.case(n=max(0, s["replies_checked"] - s["rounds"]), nontrivial=False)
    ctx.assumptions.append("decoder life cycle: whether a retired decoder is handed out again is up to the runtime (sync.Pool, per P); "
                           "the rounds are repeated (150 / 600) with few Ps instead of forcing it")


def run_concurrent(ctx, vfile):
    """The concurrent stratum on the real code (sub-process only; interpreted by concurrent_results)."""
    cfile = os.path.join(ctx.work, "concurrent.ndjson")
    tfile = os.path.join(ctx.work, "concurrent-recorded.json")
    rounds = 8000 if ctx.thorough else 2500
    rc, so, se = ctx.harness(["c10-concurrent", "-out", cfile, "-trace", tfile, "-vectors", vfile, "-workers", "64",
                              "-rounds", str(rounds), "-tracen", "240" if ctx.thorough else "150"], timeout=900, allow_fail=True)
    return rc, se, cfile, tfile


def concurrent_results(ctx, rc, se, cfile, tfile):
    recs = kit.read_ndjson(cfile) if os.path.exists(cfile) else []
    if rc != 0:
        if "panic" in se or "fatal error" in se:
            ctx.violation("codec/concurrent-encoders/crash", "the harness process died while encoders ran concurrently: %s" % se[-600:],
                          {"stderr": se[-3000:]})
            return
        raise kit.Inconclusive("c10-concurrent exited %d: %s" % (rc, se[-1500:]))
    sums = {r["part"]: r for r in recs if r.get("kind") == "summary"}
    for part in ("inproc", "vectors", "e2e"):
        if part not in sums:
            raise kit.Inconclusive("c10-concurrent: no summary of part %s" % part)
    for r in recs:
        if r.get("kind") != "mismatch":
            continue
        if "part" in r:
            ctx.violation("codec/concurrent-encoders/" + r["what"],
                          "%s, %d encoders at once: goroutine %s round %s sent %s, got %s %s (wire rope %s)" % (
                              r["part"], sums[r["part"]]["workers"], r.get("worker"), r.get("round"),
                              json.dumps(r.get("sent"))[:400], json.dumps(r.get("got"))[:400], r.get("err", ""),
                              (r.get("wire") or [])[:120]),
                          r)
        elif not r["what"].startswith("model/"):
            ctx.violation("codec/concurrent-encoders/" + r["what"],
                          "vector %s %s replayed while other encoders run: real codec %s, specification %s" % (
                              r.get("tag"), r.get("id"), json.dumps(r.get("got"))[:300], json.dumps(r.get("want"))[:300]), r)
    infra = [r for r in recs if r.get("kind") == "infra"]
    if infra and not ctx.violations:
        raise kit.Inconclusive("c10-concurrent: %s" % "; ".join(r["why"] for r in infra[:3]))
    if sums["inproc"]["workers"] < 8 or sums["inproc"]["big_numbers"] < 100000 or sums["e2e"]["round_trips"] < 1000:
        if not ctx.violations:
            raise kit.Inconclusive("concurrent stratum too thin: %s" % sums)
    ctx.cov["concurrent_encoders"] = {
        "goroutines_with_own_encoder_decoder": sums["inproc"]["workers"], "round_trips": sums["inproc"]["round_trips"],
        "numbers_outside_itoa_table_encoded": sums["inproc"]["big_numbers"], "gomaxprocs": sums["inproc"]["gomaxprocs"],
        "vector_replaying_goroutines": sums["vectors"]["workers"], "vector_executions": sums["vectors"]["round_trips"],
        "e2e_clients": sums["e2e"]["workers"], "e2e_replies_checked": sums["e2e"]["round_trips"]}
    ctx.case(key="concurrent encoders: in-process round trips", n=sums["inproc"]["round_trips"])
    ctx.case(key="concurrent encoders: vectors replayed meanwhile", n=sums["vectors"]["round_trips"])
    ctx.case(key="concurrent encoders: replies through the proxy", n=sums["e2e"]["round_trips"])
    # recorded concurrent rounds judged by TLC
    with open(tfile) as f:
        events = json.load(f)
    if len(events) < 50:
        if not ctx.violations:
            raise kit.Inconclusive("only %d concurrent rounds recorded" % len(events))
        return
    rt = ctx.validate_traces("redis", "RespTrace", "Trace_Resp.cfg", events, len(events), timeout=600)
    ctx.cov["states"] += rt.distinct
    ctx.cov["transitions"] += rt.generated
    if not rt.ok:
        if rt.reject is None:
            if ctx.violations:
                return
            raise kit.Inconclusive("RespTrace (concurrent rounds) failed without a rejection: %s" % (rt.error or rt.violated))
        idx = rt.reject[0] - 1
        e = events[idx] if 0 <= idx < len(events) else None
        failed = rt.reject[1].strip().strip('"').split()
        if failed == ["reads"]:
            if ctx.violations:
                return
            raise kit.Inconclusive("RespReader.tla predicts other reads than bufio.go issued in a concurrent round: %s" % json.dumps(e)[:800])
        ctx.violation("codec/concurrent-encoders/recorded-" + "+".join(x for x in failed if x != "reads"),
                      "TLC rejects a round recorded while %d encoders ran (%s): sent %s, wire rope %s, decoded %s" % (
                          sums["inproc"]["workers"], failed, e and json.dumps(e["sent"])[:300], e and e["stream"][:120],
                          e and json.dumps(e["dec"])[:300]),
                      {"index": idx, "failed": failed, "record": e})
    else:
        for e in events:
            ctx.case(key="K" + json.dumps([e["buf"], e["chunks"][:50], e["stream"][:200]]), nontrivial=True)


def recorded_runs(ctx):
    """3. recorded runs of the real codec judged by TLC."""
    n_rec = 1500 if ctx.thorough else 300
    n_long = 150 if ctx.thorough else 25
    per = 300
    accepted = 0
    model_trouble = None
    for part in range(0, n_rec, per):
        tfile = os.path.join(ctx.work, "recorded-%d.json" % part)
        ctx.harness(["c10-record", "-n", str(min(per, n_rec - part)), "-long", str(max(0, min(per, n_long - part))), "-out", tfile],
                    env={"VERIF_SEED": str(ctx.seed * 1000 + part)}, timeout=600)
        with open(tfile) as f:
            events = json.load(f)
        rt = ctx.validate_traces("redis", "RespTrace", "Trace_Resp.cfg", events, len(events), timeout=600)
        ctx.cov["states"] += rt.distinct
        ctx.cov["transitions"] += rt.generated
        if not rt.ok:
            if rt.reject is None:
                raise kit.Inconclusive("RespTrace failed without a rejection: %s" % (rt.error or rt.violated))
            idx = rt.reject[0] - 1
            e = events[idx] if 0 <= idx < len(events) else None
            failed = rt.reject[1].strip().strip('"').split()
            if failed == ["reads"]:
                # a model problem unless the replay (still running) shows that the code is what changed: decided by run()
                model_trouble = ("RespReader.tla predicts other reads than bufio.go issued in recorded run %d: %s"
                                 % (idx, json.dumps(e)[:800]))
                break
            ctx.violation("recorded/" + "+".join(x for x in failed if x != "reads"),
                          "TLC rejects a recorded run of the real codec (%s): stream rope %s chunks %s buffer %s decoded %s err %s" % (
                              failed, e and e["stream"][:80], e and e["chunks"][:20], e and e["buf"],
                              e and json.dumps(e["dec"])[:300], e and e["err"]),
                          {"index": idx, "failed": failed, "record": e})
            break
        accepted += len(events)
        for e in events:
            ctx.case(key="T" + json.dumps([e["buf"], e["chunks"][:50], e["stream"][:200]]),
                     nontrivial=len(e["chunks"]) > 1 and len(e["dec"]) > 0)
        if part == 0:
            ctx.sample({"recorded": {k: events[0][k] for k in ("buf", "chunks", "stream", "dec", "err", "reads")}})
    ctx.cov["recorded_runs"] = accepted
    ctx.cov["exhaustive"] = False
    ctx.cov["exhaustive_scope"] = ("complete for the bounded grammar stated in the assumptions (every value / concatenation / "
                                   "chunking of it was enumerated), not for all RESP values")
    return model_trouble


def run(ctx):
    ctx.build()
    tier = "thorough" if ctx.thorough else "quick"
    ctx.assumptions += [
        "bounded enumeration with the TLA+ module as oracle, not a proof over all values: payload alphabet "
        "{+ - : $ * CR LF SP 0 1 a}, payload length <= 3 (quick) / 4 (thorough), arrays of <= 3 / 4 leaves, nesting depth <= 4; "
        "long payloads and the 64 bit range enter through boundary classes (around 32 / 512 / 8192 bytes, buffer size, int64 bounds)",
        "canonical input only: simple strings / errors without CR LF, lengths without sign or leading zeros; inline command = "
        "space separated words on one CR LF terminated line whose first byte is not a type byte (malformed input is C11)",
        "connection reads never return data together with an error and never return (0, nil) (true for net.Conn)",
        "VerifDecodeAll copies each top-level value when Decode returns, so aliasing between values of different "
        "top-level messages is not observable through it (elements of one message are)",
        "RespReader models window arithmetic, not buffer contents; contents are observed on the real code",
    ]
    # 1. refinement of the abstract decoder by the implementation-shaped one
    ctx.mc("redis", "RespGen", "MC_Resp_ref_%s.cfg" % tier, workers=8, timeout=900)

    # 2. vectors
    vectors = []
    rv, vals = _gen(ctx, "Gen_Resp_val_%s.cfg" % tier, {"VAL"}, workers=4 if not ctx.thorough else 8)
    rc, cats = _gen(ctx, "Gen_Resp_cat_%s.cfg" % tier, {"CAT"})
    rr, rds = _gen(ctx, "Gen_Resp_rd_%s.cfg" % tier, {"RD"}, workers=8)
    ri, ints = _gen(ctx, "Gen_Resp_int_%s.cfg" % tier, {"INT", "ITOA"})
    for t, p in vals + cats + rds + ints:
        vectors.append({"tag": t, "id": len(vectors), "o": p})
    counts = {}
    for v in vectors:
        counts[v["tag"]] = counts.get(v["tag"], 0) + 1
    kit.log("[c10] vectors: %s" % counts)
    # every branch of the reader must be reached by some RD vector (TLC chose chunking x buffer size)
    br = {}
    for t, p in rds:
        for b in p["br"]:
            br[b] = br.get(b, 0) + 1
    missing = REQUIRED_BRANCHES - set(br)
    ctx.cov["reader_branches"] = br
    if missing:
        raise kit.Inconclusive("RD vectors do not reach reader branches %s" % sorted(missing))
    caps = sorted({p["cap"] for t, p in rds})
    if caps != [32, 33, 64, 4096, 8192]:
        raise kit.Inconclusive("RD vectors cover buffer sizes %s" % caps)
    if counts.get("ITOA", 0) != 132:
        raise kit.Inconclusive("ITOA chunks: %s" % counts.get("ITOA"))

    vfile = os.path.join(ctx.work, "vectors.ndjson")
    kit.write_ndjson(vfile, vectors)
    rfile = os.path.join(ctx.work, "replay.ndjson")
    # the replay (Go, all cores) runs while TLC judges the recorded runs
    replay = _Bg(lambda: ctx.harness(["c10-replay", "-in", vfile, "-out", rfile, "-maxcuts", "3" if ctx.thorough else "2"],
                                     timeout=3000, allow_fail=True))
    model_trouble = recorded_runs(ctx)
    rcode, so, se = replay.join()
    recs = kit.read_ndjson(rfile) if os.path.exists(rfile) else []
    if rcode != 0:
        raise kit.Inconclusive("c10-replay exited %d: %s" % (rcode, se[-1500:]))
    sums = {r["tag"]: r for r in recs if r.get("kind") == "summary"}
    for t, n in counts.items():
        if t not in sums or sums[t]["vectors"] != n:
            raise kit.Inconclusive("replay of %s vectors incomplete: %s of %d" % (t, sums.get(t), n))
    model_bad = []
    for r in recs:
        if r.get("kind") != "mismatch":
            continue
        if r["what"].startswith("model/"):
            model_bad.append(r)
            continue
        vec = vectors[r["id"]]
        ctx.violation("%s/%s" % (r["what"], r["tag"]),
                      "%s: real codec %s, specification %s (input rope %s, chunks %s, buffer %s)" % (
                          r["what"], json.dumps(r.get("got"))[:300], json.dumps(r.get("want"))[:300],
                          r.get("input"), r.get("chunks"), r.get("buf")),
                      {"mismatch": r, "vector": vec if len(json.dumps(vec)) < 20000 else "(large)"})
    if model_bad and not ctx.violations:
        raise kit.Inconclusive("RespReader.tla predicts other reads than bufio.go issues (%d vectors), e.g. %s"
                               % (len(model_bad), json.dumps(model_bad[0])[:600]))
    if model_trouble and not ctx.violations:
        raise kit.Inconclusive(model_trouble)
    runs = 0
    for t, s in sums.items():
        runs += s["runs"]
    # bookkeeping: one case per vector, the remaining executions counted as evaluations
    for t, p in vals:
        ctx.case(key="V" + json.dumps(p["v"], sort_keys=True), nontrivial=_nontrivial_value(p["v"]))
    for t, p in cats:
        ctx.case(key="C" + json.dumps(p["i"]), nontrivial=len(p["i"]) >= 2)
    for t, p in rds:
        ctx.case(key="R%d|%s|%s" % (p["cap"], p["s"], p["c"]),
                 nontrivial=bool({"slice.full", "slice.refill", "read.bypass", "fill.compact"} & set(p["br"])))
    for t, p in ints:
        if t == "INT":
            ctx.case(key="I" + bytes(p["x"]).decode("latin1"), nontrivial=bool(p["x"]) and not (p["ok"] and len(p["x"]) < 3))
        else:
            ctx.case(key="A%d" % p["lo"], nontrivial=True, n=256)
    ctx.case(n=max(0, runs - len(vectors)), nontrivial=False)
    ctx.cov["traces_validated_against_impl"] += len(vectors)
    ctx.cov["replay"] = {"vectors": counts, "codec_executions": runs,
                         "chunkings": "one read, byte by byte, every subset of <= %d of the vector's cut candidates; " % (3 if ctx.thorough else 2) +
                                      "buffers 32,33,64,4096,8192 (2 cuts: 32,33,4096; 3 cuts: one of these, rotating)"}
    ctx.sample({"VAL": vals[len(vals) // 2][1]})
    ctx.sample({"CAT": cats[-1][1]})
    small_rd = [p for t, p in rds if len(p["r"]) <= 8 and "read.bypass" in p["br"]]
    if small_rd:
        ctx.sample({"RD": small_rd[0]})

    # the long-lived decoder cases and the concurrent stratum run while TLC checks RespEnc
    lfile = os.path.join(ctx.work, "longlived.ndjson")
    resfile = os.path.join(ctx.work, "residue.ndjson")
    side = _Bg(lambda: (ctx.harness(["c10-longlived", "-out", lfile], timeout=600), run_concurrent(ctx, vfile),
                        ctx.harness(["c10-residue", "-out", resfile, "-rounds", "600" if ctx.thorough else "150"],
                                    timeout=600, allow_fail=True)))
    encoders_model(ctx)
    lifecycle_model(ctx)
    _, conc, res = side.join()
    residue_results(ctx, res, resfile)
    # long concatenations on ONE decoder (a connection's decoder is long lived): hundreds of messages of every shape,
    # arrays beyond any pre-allocation, nesting up to the documented limit
    for r in kit.read_ndjson(lfile):
        ctx.case(key=["longlived", r["case"]], nontrivial=r["n"] > 1)
        if not r["ok"]:
            ctx.violation("decode/long-concatenation/" + r["case"].split(" ")[0], "%s: %s" % (r["case"], r["why"]), r)
    concurrent_results(ctx, *conc)
    ctx.cov["rule"] = ("cases: one per TLC vector (VAL distinct by value, non-trivial = array, structural byte or run in the payload, "
                       ">= 9 digit integer; CAT by message indices, non-trivial = >= 2 messages; RD by buffer, stream, chunks, "
                       "non-trivial = reaches buffer-full / refill / bypass / compaction; INT by text, non-trivial = not a short plain "
                       "number; ITOA chunk = 256 integers) plus one per recorded run; every other execution of the real codec "
                       "(chunkings, buffers, truncations) only adds to evaluations")
