"""Shared end-to-end pipeline driver (C01, C02, C20).

The Go harness (`pipe-run`) drives the real Redis processor with random pipelines on several
connections against simulated cluster nodes (random reply pacing across nodes, random fragmentation,
optionally backend faults and scheduler perturbation at the verifhook points), checks every reply
against the k-th request, and records the boundary trace; TLC validates the trace against
spec/redis/PipelineObs.tla (PipelineObsTrace).
"""
import json
import os

import kit


def run_pipelines(ctx, faults, label, runs=None, conns=None, reqs=None, perturb=True, stopopen=False):
    if runs is None:
        runs = 40 if ctx.thorough else 8
    conns = conns or (6 if ctx.thorough else 5)
    reqs = reqs or (80 if ctx.thorough else 40)   # TLC validates ~2.5 ms per trace event: keep traces below ~50k events
    out = os.path.join(ctx.work, "pipe-%s.ndjson" % label)
    trace = os.path.join(ctx.work, "pipe-%s-trace.ndjson" % label)
    args = ["pipe-run", "-runs", str(runs), "-conns", str(conns), "-reqs", str(reqs), "-gate", "-fragment",
            "-out", out, "-trace", trace]
    if faults:
        args.append("-faults")
    if perturb:
        args.append("-perturb")
    if stopopen:
        args.append("-stopopen")
    ctx.build("pipe")
    rc, so, se = ctx.harness(args, timeout=3000, allow_fail=True, name="pipe")
    results = kit.read_ndjson(out) if os.path.exists(out) else []
    if rc != 0:
        if "close of closed channel" in se:
            ctx.violation("double-completion/stress", "a request was completed twice: the processor panicked (close of closed channel)",
                          {"stderr": se[-3000:], "runs_completed": len(results)})
            return results
        raise kit.Inconclusive("pipe-run exited %d: %s" % (rc, se[-1500:]))
    sent = recvd = 0
    for r in results:
        if r.get("err"):
            raise kit.Inconclusive("pipe-run: " + r["err"])
        sent += r["sent"]
        recvd += r["received"]
        ctx.case(key=["pipe", label, r["seed"]], nontrivial=r["sent"] > 1, n=r["sent"])
        for m in (r.get("mismatches") or []):
            ctx.violation("reply-mismatch/%s%s" % (m["kind"], "/faults" if faults else ""),
                          "conn %s request %s (%s): got %s want %s" % (m["c"], m["k"], m["kind"], m["got"], m["want"]),
                          {"run": r, "mismatch": m})
        for m in (r.get("lost") or []):
            ctx.violation("lost-request/stress%s" % ("/faults" if faults else ""),
                          "conn %s request %s (%s) never answered: %s" % (m["c"], m["k"], m["kind"], m["why"]),
                          {"run": r, "lost": m})
        if r.get("closed") and not (faults or stopopen):
            ctx.violation("connection-closed-unexpectedly", "%d connection(s) closed by the proxy before all replies arrived" % r["closed"], {"run": r})
        for m in (r.get("extra") or []):
            ctx.violation("extra-reply", "conn %s got more replies than requests: %s" % (m["c"], m["got"]), {"run": r, "extra": m})
    # code -> spec: boundary trace against the observational specification
    events = kit.read_ndjson(trace) if os.path.exists(trace) else []
    if events:
        cfg = "Trace_PipelineObs_faults.cfg" if faults else "Trace_PipelineObs.cfg"
        tr = ctx.validate_traces("redis", "PipelineObsTrace", cfg, events, n_traces=len(results))
        if not tr.ok:
            idx, ev = tr.reject if tr.reject else (-1, "?")
            ctx.violation("trace-rejected/PipelineObs%s" % ("/faults" if faults else ""),
                          "recorded trace is not a behaviour of PipelineObs: event %s %s" % (idx, ev),
                          {"event_index": idx, "event": ev, "prefix_tail": events[max(0, idx - 6):idx]})
    ctx.cov.setdefault("pipelines", {})[label] = {"runs": len(results), "requests": sent, "replies": recvd,
                                                   "error_replies": sum(r["errors"] for r in results),
                                                   "faults_injected": sum(len(r.get("faults") or []) for r in results),
                                                   "trace_events": len(events)}
    if results:
        r0 = dict(results[0])
        r0.pop("stats", None)
        ctx.sample({"pipeline_run": r0, "trace_head": events[:6]})
    return results
