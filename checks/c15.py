"""C15 - host set and health checking keep a consistent view of usable hosts.

spec/host/HostSet.tla (implementation shaped: all / healthyMain / healthyBackup / published slice, object identity,
flags, removal latches; Add, Remove, ReplaceAll, the two halves of MarkHost*; Fix* constants select pinned or
repaired behaviour per code section), spec/host/Health.tla (hysteresis).

 1. exhaustive TLC run of the repaired design (UsableIsPreferredTier, SortedNoDup, RemovedNeverReported,
    RemovedClosesEstablished); the pinned variant and every single-Fix-off variant must still yield a counterexample;
    Health: FlipOnlyAfterThreshold for thresholds {1,2,3}^2 and all outcome sequences of length <= 8 (+ traps).
 2. spec -> code: transition cover of HostSetGen (pinned and repaired variant) replayed on the real host.Set through
    its public API, the two halves of MarkHost* separated through the pause point between CAS and lock; after every step
    Healthy()/All()/Random()/flags/latches are compared with the model (conformance) and judged by the property predicate
    evaluated on the real observations (verdict).
 3. code -> spec: longer simulated behaviours are applied to the real set, the recorded (operation, observation) trace is
    validated by TLC against HostSetTrace (must be a behaviour of the variant the code conforms to) and TLC evaluates the
    property invariants on the recorded observations; its per-event verdicts must agree with the harness' evaluator.
 4. health hysteresis: every path of HealthGen and every outcome sequence of length 8 through the real monitor
    (re-exported constructor, scripted checker, one synchronous round per result).
"""
import collections
import json
import os
import re

import kit

LEVEL = "model_checking"

VIEW_INVS = {"UsableIsPreferredTier", "SortedNoDup", "RemovedNeverReported"}
ALL_INVS = ["UsableIsPreferredTier", "SortedNoDup", "RemovedNeverReported", "RemovedClosesEstablished"]

PREF = {
    "stale-tier-entry": ["stale-object-mark", "remove-other-type", "readd-other-type", "readd-same-type", "fresh-object", "replace-all"],
    "unhealthy-reported": ["add-unhealthy-object"],
    "healthy-member-dropped": ["stale-object-mark"],
}

WHAT = {
    "stale-tier-entry/readd-other-type": "an address re-added with the other Type leaves its entry in the old tier: Healthy() keeps reporting the "
                                         "replaced object (also after the address is removed)",
    "stale-tier-entry/remove-other-type": "Remove with an object of the other Type than the stored one deletes the member but leaves its tier entry: "
                                          "Healthy() reports a removed host",
    "stale-tier-entry/stale-object-mark": "MarkHostHealthy with an object that is no longer the stored one of its address inserts that object "
                                          "into the usable list",
    "unhealthy-readded-usable": "Add of a host object flagged unhealthy puts it (back) into the usable list",
    "healthy-member-dropped/stale-object-mark": "MarkHostUnhealthy with an object that was replaced (same address) drops the healthy new member from "
                                                "the usable list; the monitor can never re-add it (its CAS fails)",
    "removed-latch-not-closed/fresh-object": "Remove with an object that is not the stored one (what the controller passes) never closes the stored "
                                             "host's removal latch: established relays to the removed host stay open",
    "removed-latch-not-closed/replaced-object": "the removal latch of an object displaced by a later Add of its address is never closed, not even "
                                                "when the address is removed",
}


def signature(v):
    if v["group"] == "latch":
        how = v.get("detail", "").split(":")[0]
        return "removed-latch-not-closed/" + ("fresh-object" if how == "stored" else "replaced-object")
    sym = v["symptom"]
    tags = v.get("cause") or []
    w = None
    for p in PREF.get(sym, []):
        if p in tags:
            w = p
            break
    if w is None:
        w = "+".join(sorted(tags)) or "unattributed"
    if sym == "unhealthy-reported" and w == "add-unhealthy-object":
        return "unhealthy-readded-usable"
    return sym + "/" + w


def ops_of(path):
    out = []
    for s in path:
        if s["op"] == "ReplaceAll":
            out.append(["ReplaceAll", s["f"]])
        elif s["op"] in ("MarkBegin", "MarkEnd", "Mark"):
            out.append([s["op"], "obj%d" % s["o"], s["k"]])
        else:
            out.append([s["op"], "addr%d" % s["a"], s["t"], ("obj%d" % s["o"]) if s["o"] else "fresh"])
    return out


def emit(ctx, cfg, tag, mode="mc", module="HostSetGen", **kw):
    r = ctx.tlc("host", module, cfg, mode=mode, workers=1, deadlock=False, timeout=900, **kw)
    if r.timeout or (r.error and not r.prints):
        raise kit.Inconclusive("behaviour emission %s failed: %s" % (cfg, r.error[:500]))
    paths = [p for (t, p) in r.prints if t == tag]
    r.stdout = ""
    r.prints = []
    return paths


def judge_results(ctx, paths, results, label, found):
    by_id = {r["id"]: r for r in results}
    conform = 0
    errs = 0
    for i, p in enumerate(paths):
        r = by_id.get(i)
        if r is None or r.get("err"):
            errs += 1
            if r is not None and len(ctx.notes) < 10:
                ctx.notes.append("%s path %d: %s" % (label, i, r["err"]))
            continue
        nontrivial = any(s["win"] for s in p) or any(s["op"] == "MarkEnd" for s in p)
        ctx.case(key=ops_of(p), nontrivial=nontrivial)
        if r["conform"]:
            conform += 1
        for v in r.get("viol") or []:
            sig = signature(v)
            e = found.setdefault(sig, {"n": 0, "path": None, "res": None, "v": None})
            e["n"] += 1
            if e["path"] is None or len(p) < len(e["path"]):
                e["path"], e["res"], e["v"] = p, r, v
    return conform, errs


def report_found(ctx, found):
    for sig in sorted(found):
        e = found[sig]
        v = e["v"]
        what = "%s [%s at step %d of %s; %d paths]" % (WHAT.get(sig, v["symptom"]), v.get("detail", ""), v["step"],
                                                        json.dumps(ops_of(e["path"])), e["n"])
        ctx.violation(sig, what, {"kind": "c15-path", "path": e["path"], "result": e["res"], "ops": ops_of(e["path"])})


def replay_paths(ctx, paths, label, naddr):
    pfile = os.path.join(ctx.work, "paths-%s.ndjson" % label)
    rfile = os.path.join(ctx.work, "replay-%s.ndjson" % label)
    kit.write_ndjson(pfile, paths)
    ctx.harness(["c15-replay", "-in", pfile, "-out", rfile, "-naddr", str(naddr)], timeout=1200)
    return kit.read_ndjson(rfile)


def run(ctx):
    ctx.build()
    ctx.assumptions += [
        "addresses are identified with 1..NAddr (<= 3) and host objects with the order of their creation; a call passes at most one "
        "host except ReplaceAll (distinct addresses per call)",
        "at most one MarkHost* call per host object is between its CAS and its lock at a time (the monitor checks a host once per "
        "round and rounds do not overlap), at most 2 such calls overall",
        "Random() is sampled 2n+3 times per state; only membership of its results is judged",
        "the health flag is the flag of the stored member object; during the window between the CAS and the lock of a MarkHost* call "
        "either value of that object's flag is accepted",
    ]
    t = ctx.thorough

    # ---- 1. exhaustive runs
    r = ctx.mc("host", "HostSet", "MC_HostSet_fixed_quick.cfg", workers=4, timeout=600, coverage=True)
    ctx.check_vacuity(r, "HostSet")
    if t:
        ctx.mc("host", "HostSet", "MC_HostSet_fixed.cfg", workers=4, timeout=900)
        ctx.mc("host", "HostSet", "MC_HostSet_fixed_deep.cfg", workers=4, timeout=900)
    for variant in ("pinned", "noFixRemove", "noFixAdd", "noFixFlag", "noFixMark"):
        ctx.mc("host", "HostSet", "MC_HostSet_%s.cfg" % variant, workers=4, timeout=300, expect_violated=ALL_INVS, count=False)
    for inv in ("UsableIsPreferredTier", "RemovedNeverReported", "RemovedClosesEstablished"):
        ctx.mc("host", "HostSet", "MC_HostSet_pinned_%s.cfg" % inv, workers=4, timeout=300, expect_violated=[inv], count=False)
    # publication to lock-free readers: every mutation is one linearization point; the variants "lazy rebuild by the
    # reader, store after unlock", "re-add publishes an intermediate list", "ReplaceAll publishes after every removal"
    # must each violate
    ctx.mc("host", "HostSetPub", "MC_HostSetPub_atomic%s.cfg" % ("" if t else "_quick"), workers=4, timeout=900)
    ctx.mc("host", "HostSetPub", "MC_HostSetPub_lazy.cfg", workers=2, timeout=300, expect_violated=["PublishedIsCurrent"], count=False)
    ctx.mc("host", "HostSetPub", "MC_HostSetPub_readd.cfg", workers=2, timeout=300, expect_violated=["LinearizableHealthy"], count=False)
    ctx.mc("host", "HostSetPub", "MC_HostSetPub_replace.cfg", workers=2, timeout=300, expect_violated=["LinearizableHealthy"], count=False)
    if t:
        ctx.mc("host", "HostSetPub", "MC_HostSetPub_lazy_lin.cfg", workers=4, timeout=300, expect_violated=["LinearizableHealthy"], count=False)
    r = ctx.mc("host", "Health", "MC_Health.cfg", workers=2, timeout=300, coverage=True)
    ctx.check_vacuity(r, "Health")
    # anti-vacuity: a reconfiguration that is ignored when the interval is unchanged must violate FlipOnlyAfterThreshold
    ctx.mc("host", "Health", "MC_Health_ignore.cfg", workers=1, timeout=120, expect_violated=["FlipOnlyAfterThreshold"], count=False)
    ctx.mc("host", "Health", "MC_Health_docreading.cfg", workers=1, timeout=120, expect_violated=["FlipsAtThreshold"], count=False)
    ctx.mc("host", "Health", "MC_Health_flipback.cfg", workers=1, timeout=120, expect_violated=["NoFlipBack"], count=False)
    ctx.notes.append("Health: the monitor compares `count > threshold`, so a flip happens after threshold+1 consecutive contrary results "
                     "(trap FlipsAtThreshold is violated, PromptFlip holds); C15 only demands 'at least the configured number'")

    # ---- 2. transition cover replayed on the real host.Set
    found = {}
    suffix = "" if t else "_quick"
    conf = {}
    total = {}
    for variant in ("pinned", "fixed"):
        paths = emit(ctx, "Gen_HostSet_%s%s.cfg" % (variant, suffix), "EDGE")
        if len(paths) < 1000:
            raise kit.Inconclusive("only %d paths emitted for %s" % (len(paths), variant))
        results = replay_paths(ctx, paths, variant, naddr=2)
        c, errs = judge_results(ctx, paths, results, variant, found)
        if errs > len(paths) * 0.01:
            raise kit.Inconclusive("replay driver unhealthy: %d of %d %s paths failed to run" % (errs, len(paths), variant))
        conf[variant], total[variant] = c, len(paths)
        if variant == "pinned":
            ctx.sample({"ops": ops_of(paths[len(paths) // 2]), "model_state_after_last_step": paths[len(paths) // 2][-1]["obs"]})
            ctx.sample({"ops": ops_of(paths[-1]), "model_state_after_last_step": paths[-1][-1]["obs"]})
    ctx.cov["replay"] = {v: {"paths": total[v], "conform_exactly": conf[v]} for v in conf}
    code_variant = None
    for variant in ("pinned", "fixed"):
        if conf[variant] == total[variant]:
            code_variant = variant
    if code_variant is None:
        print("MODEL-DRIFT module=HostSet the real host.Set follows neither the pinned nor the repaired variant exactly "
              "(pinned %d/%d, fixed %d/%d)" % (conf["pinned"], total["pinned"], conf["fixed"], total["fixed"]), flush=True)
        ctx.notes.append("MODEL-DRIFT HostSet: conformance pinned %d/%d fixed %d/%d" % (conf["pinned"], total["pinned"], conf["fixed"], total["fixed"]))
        code_variant = "pinned" if conf["pinned"] * total["fixed"] >= conf["fixed"] * total["pinned"] else "fixed"
    else:
        ctx.cov["traces_validated_against_impl"] += conf[code_variant]
    ctx.cov["code_conforms_to_variant"] = code_variant
    ctx.cov["exhaustive"] = True

    # ---- 3. code -> spec: recorded traces validated by TLC
    nsim = 150 if t else 30
    behs = []
    for variant in ("pinned", "fixed"):
        behs += emit(ctx, "Sim_HostSet_%s.cfg" % variant, "BEH", mode="sim", sim_num=nsim, sim_depth=80, seed=ctx.seed)
    if len(behs) < nsim:
        raise kit.Inconclusive("only %d simulated behaviours" % len(behs))
    bfile = os.path.join(ctx.work, "sim.ndjson")
    rfile = os.path.join(ctx.work, "sim-results.ndjson")
    tfile = os.path.join(ctx.work, "sim-trace.ndjson")
    kit.write_ndjson(bfile, behs)
    ctx.harness(["c15-trace", "-in", bfile, "-out", rfile, "-trace", tfile, "-naddr", "3"], timeout=1200)
    results = kit.read_ndjson(rfile)
    judge_results(ctx, behs, results, "sim", found)
    events = kit.read_ndjson(tfile)
    ntraces = sum(1 for e in events if e["op"] == "Reset")
    accepted = None
    for variant in [code_variant] + [v for v in ("pinned", "fixed") if v != code_variant]:
        tr = ctx.validate_traces("host", "HostSetTrace", "Trace_HostSet_%s.cfg" % variant, events, n_traces=ntraces, timeout=600)
        if tr.ok:
            accepted = (variant, tr)
            break
    if accepted is None:
        print("MODEL-DRIFT module=HostSet recorded traces are rejected by both variants of HostSetTrace at event %s" % (tr.reject,), flush=True)
        ctx.notes.append("MODEL-DRIFT HostSetTrace: rejected at %s" % (tr.reject,))
    else:
        variant, tr = accepted
        ctx.cov["trace_validation"] = {"variant": variant, "traces": ntraces, "events": len(events)}
        bad = [p for (tag, p) in tr.prints if tag == "BAD"]
        if not bad:
            raise kit.Inconclusive("HostSetTrace did not print its verdicts")
        tlc_view = {b["i"] for b in bad[-1] if set(b["inv"]) & VIEW_INVS}
        tlc_latch = {b["i"] for b in bad[-1] if "RemovedClosesEstablished" in b["inv"]}
        go_view = {i + 1 for i, e in enumerate(events) if any(s != "removed-latch-not-closed" for s in e.get("goviol") or [])}
        go_latch = {i + 1 for i, e in enumerate(events) if "removed-latch-not-closed" in (e.get("goviol") or [])}
        ctx.cov["trace_validation"].update({"events_violating_view_invariants": len(tlc_view), "events_violating_latch_invariant": len(tlc_latch)})
        if tlc_view != go_view or tlc_latch != go_latch:
            d = sorted((tlc_view ^ go_view) | (tlc_latch ^ go_latch))[:5]
            raise kit.Inconclusive("TLC and the harness disagree on the property verdict of recorded events %s (e.g. %s)"
                                   % (d, json.dumps(events[d[0] - 1])[:600]))
    report_found(ctx, found)

    # ---- 3b. what readers observe WHILE the set changes (linearizability of Healthy() against the mutations)
    readers_race(ctx)

    # ---- 4. health hysteresis on the real monitor
    # every transition path of HealthGen: check results with one run-time reconfiguration (ResetHealthCheck: thresholds
    # raised / lowered, interval changed / unchanged) in between; thorough adds the paths with two reconfigurations
    r = ctx.tlc("host", "HealthGen", "Gen_Health.cfg", mode="mc", workers=1, deadlock=False, timeout=300)
    hpaths = [p for (tag, p) in r.prints if tag == "EDGE"]
    if t:
        r = ctx.tlc("host", "HealthGen", "Gen_Health2.cfg", mode="mc", workers=1, deadlock=False, timeout=600)
        hpaths += [p for (tag, p) in r.prints if tag == "EDGE"]
    r.stdout, r.prints = "", []
    if len(hpaths) < 1000:
        raise kit.Inconclusive("only %d health paths" % len(hpaths))
    hfile = os.path.join(ctx.work, "health.ndjson")
    hres = os.path.join(ctx.work, "health-results.ndjson")
    kit.write_ndjson(hfile, hpaths)
    ctx.harness(["c15-health", "-in", hfile, "-out", hres, "-all", "10" if t else "8"], timeout=1200)
    hr = kit.read_ndjson(hres)
    hconf = 0
    maxlate = 0
    nreconf = 0
    hfound = {}
    for x in hr:
        ctx.case(key=["health", x["rise"], x["fall"], x["seq"]], nontrivial=x["flips"] > 0)
        if x["id"] < len(hpaths) and x["conform"]:
            hconf += 1
        if x.get("reconfs"):
            nreconf += 1
        maxlate = max(maxlate, x["maxLate"])
        for key, sig in (("earlyFlip", "health-flip-before-threshold" + ("/after-reconfigure" if x.get("earlyAfterReconf") else "")),
                         ("viewMismatch", "health-view-mismatch")):
            if x.get(key):
                e = hfound.setdefault(sig, {"n": 0, "x": x, "key": key})
                e["n"] += 1
                if len(x["seq"]) < len(e["x"]["seq"]):
                    e["x"] = x
    # end to end: a real TCP processor, OnSvcConfigUpdate while a round is held, probes failed / answered round by round
    efile = os.path.join(ctx.work, "hc-e2e.ndjson")
    ctx.harness(["c15-hc-e2e", "-out", efile] + (["-disable"] if t else []), timeout=600)
    e2e = kit.read_ndjson(efile)
    for x in e2e:
        if x.get("panic"):
            # outside C15's statement (nothing about the usable view or the thresholds): recorded as an observation
            ctx.notes.append("OBSERVATION hc-e2e history %s: a call into the processor panicked: %s (OnSvcConfigUpdate with the health "
                             "check removed reaches Monitor.ResetHealthCheck(nil))" % (x["history"], x["panic"]))
            continue
        if x.get("err"):
            raise kit.Inconclusive("c15-hc-e2e: " + x["err"])
        ctx.case(key=["hc-e2e", x.get("history"), x["intervalChanged"], x["from"], x["to"]], nontrivial=True)
        if x.get("probesAfterStop", 0) > 0:
            ctx.violation("monitor-survives-stop", "history %s: %d health probes reached the backend after the processor's Stop had returned "
                          "(a health monitor is still running on the stopped service)" % (x.get("history"), x["probesAfterStop"]),
                          {"kind": "c15-hc-e2e", "e2e": x})
        early = None
        if 0 < x["failsToUnhealthy"] < x["to"][1]:
            early = "host became unusable after %d consecutive failed rounds, fall threshold in force %d" % (x["failsToUnhealthy"], x["to"][1])
        elif 0 < x["oksToHealthy"] < x["to"][0]:
            early = "host became usable again after %d consecutive successful rounds, rise threshold in force %d" % (x["oksToHealthy"], x["to"][0])
        if early:
            sig = "health-flip-before-threshold/" + ("after-enable-retune" if x.get("history") == "enable-retune" else "after-reconfigure")
            e = hfound.setdefault(sig, {"n": 0, "x": None, "key": "e2e"})
            e["n"] += 1
            e["e2e"] = (x, early)
        if x["failsToUnhealthy"] == 0 or x["oksToHealthy"] == 0:
            ctx.notes.append("hc-e2e %s: the host did not flip within 8 rounds (trace %s)" % (x, x["trace"]))
    for sig in sorted(hfound):
        e = hfound[sig]
        parts = []
        if e.get("x"):
            x = e["x"]
            parts.append("real monitor, initial rise=%d fall=%d, steps %s: %s" % (x["rise"], x["fall"], x["seq"], x[e["key"]] if e["key"] in x else ""))
        if e.get("e2e"):
            x, early = e["e2e"]
            parts.append("end to end (TCP processor, history %s, OnSvcConfigUpdate %s -> %s, interval %s): %s; rounds %s" % (
                x.get("history"), x["from"], x["to"], "changed" if x["intervalChanged"] else "unchanged", early, x["trace"]))
        ctx.violation(sig, "a host's health flipped after fewer consecutive contrary results than the threshold in force [%s; %d cases]"
                      % ("; ".join(parts), e["n"]), {"kind": "c15-health", "result": e.get("x"), "e2e": e.get("e2e")})
    ctx.cov["health"] = {"paths": len(hpaths), "conform_exactly": hconf, "sequences_total": len(hr), "with_reconfiguration": nreconf,
                         "max_results_beyond_threshold_at_flip": maxlate, "e2e_reconfigurations": e2e}
    if hconf == len(hpaths):
        ctx.cov["traces_validated_against_impl"] += hconf
    else:
        print("MODEL-DRIFT module=Health %d of %d paths followed" % (hconf, len(hpaths)), flush=True)
        ctx.notes.append("MODEL-DRIFT Health: %d of %d" % (hconf, len(hpaths)))
    ctx.sample({"health": hr[len(hr) // 3]})
    ctx.cov["rule"] = ("host set: every transition of TLC's reduced state graph of HostSetGen (pinned and repaired variant) as one path "
                       "from the initial state + seeded simulated behaviours; distinct by operation sequence; non-trivial = goes through "
                       "a named window (re-add, non-stored object, stale mark, ...) or splits a MarkHost* call; health: every transition "
                       "path of HealthGen (check results and run-time reconfigurations) + every outcome sequence of fixed length for "
                       "thresholds {1,2,3}^2; non-trivial = the flag flips; reader races: (script, repetition) pairs")


RACE_SIG = {
    "stale-after-quiescence": "stale-usable-list/after-quiescence",
    "stale": "stale-usable-list/concurrent-reader",
    "intermediate/readd": "intermediate-list-observed/readd",
    "intermediate/replace-all": "intermediate-list-observed/replace-all",
    "other": "non-linearizable-read/other",
    "random-outside-window": "random-outside-window",
}
RACE_WHAT = {
    "stale-usable-list/after-quiescence": "after the last mutation has returned and nothing changes any more, Healthy() still reports the list of "
                                          "an earlier state (a removed / unhealthy host stays reported until the next mutation)",
    "stale-usable-list/concurrent-reader": "a reader gets the usable list of a state that was over before its call began",
    "intermediate-list-observed/readd": "while a stored address is re-added with a new host object a concurrent reader sees the usable list "
                                        "WITHOUT that address (a list that is the usable set of no state)",
    "intermediate-list-observed/replace-all": "during ReplaceAll a concurrent reader sees the lists published after each single removal "
                                              "(partial / empty lists that are the usable set of no state)",
}


def readers_race(ctx):
    """Free-running readers against a scripted mutator on the real host.Set (harness c15-readers)."""
    t = ctx.thorough
    scripts = emit(ctx, "Sim_HostSetPub.cfg", "SCRIPT", mode="sim", sim_num=(150 if t else 40), sim_depth=60, seed=ctx.seed, module="HostSetPubGen")
    if len(scripts) < (100 if t else 30):
        raise kit.Inconclusive("only %d mutation scripts" % len(scripts))
    # mandatory strata
    strata = {"readd-healthy-address": 0, "remove-usable-member": 0, "mark-unhealthy-usable-member": 0, "replace-all-with-overlap": 0}
    for sc in scripts:
        cache, allm = [], None
        for st in sc:
            before = set(cache)
            stored = (allm or [0] * len(st["obs"]["all"]))
            if st["op"] == "Add" and st["readd"]:
                strata["readd-healthy-address"] += 1
            if st["op"] == "Remove" and stored[st["a"] - 1] in before:
                strata["remove-usable-member"] += 1
            if st["op"] == "Mark" and st["k"] == "unhealthy" and st["o"] in before:
                strata["mark-unhealthy-usable-member"] += 1
            if st["op"] == "ReplaceAll" and any(stored[a] in before and st["obs"]["all"][a] in st["obs"]["cache"] for a in range(len(stored))):
                strata["replace-all-with-overlap"] += 1
            cache, allm = st["obs"]["cache"], st["obs"]["all"]
    missing = [k for k, v in strata.items() if v == 0]
    if missing:
        raise kit.Inconclusive("mutation scripts lack the mandatory strata %s" % missing)
    sfile = os.path.join(ctx.work, "scripts.ndjson")
    rfile = os.path.join(ctx.work, "readers-results.ndjson")
    kit.write_ndjson(sfile, scripts)
    reps = 300 if t else 80
    ctx.harness(["c15-readers", "-in", sfile, "-out", rfile, "-reps", str(reps), "-readers", "6"], timeout=1200)
    res = kit.read_ndjson(rfile)
    counts = collections.Counter()
    example = {}
    races = reads = 0
    for r in res:
        if r.get("err"):
            raise kit.Inconclusive("c15-readers: " + r["err"])
        races += r["races"]
        reads += r["reads"]
        ctx.case(key=["race", r["script"]], nontrivial=True, n=r["races"])
        for k, v in (r.get("counts") or {}).items():
            counts[k] += v
        for v in r.get("viol") or []:
            example.setdefault(v["class"] + ("|equals-earlier-state" if v["equalsS"] >= 0 and v["class"].startswith("intermediate") else ""),
                               (v, scripts[v["script"]]))
    # an observation that equals the list of an earlier state while a re-add / ReplaceAll is in its window can be an
    # intermediate list or a stale one; if staleness is established independently (a stale list after quiescence, which
    # intermediate publication cannot produce) it is counted as stale
    stale_proven = counts["stale-after-quiescence"] > 0
    merged = collections.Counter()
    for k, v in counts.items():
        cls, _, eq = k.partition("|")
        if eq and stale_proven:
            cls = "stale"
            example.setdefault("stale", example.get(k))
        merged[cls] += v
        if eq and not stale_proven:
            example.setdefault(cls, example.get(k))
    ctx.cov["reader_races"] = {"scripts": len(scripts), "reps": reps, "mutations_raced": races, "observations": reads,
                               "strata": strata, "violations": dict(merged)}
    ctx.sample({"race_script": ops_of(scripts[0]), "lists_after_each_mutation": [st["obs"]["cache"] for st in scripts[0]]})
    if races < 1000 or reads < races:
        raise kit.Inconclusive("reader race driver unhealthy: %d mutations raced, %d observations" % (races, reads))
    for cls, n in sorted(merged.items()):
        sig = RACE_SIG.get(cls, "non-linearizable-read/" + cls)
        ex = example.get(cls)
        v, sc = ex if ex else ({}, [])
        what = "%s [%d of %d raced mutations; e.g. script %s: Healthy() returned objects %s while the set went through %s (mutations %s); " \
               "mutations completed before the call: %s, begun when it returned: %s]" % (
                   RACE_WHAT.get(sig, sig), n, races, json.dumps(ops_of(sc)), v.get("observed"), v.get("window"), v.get("ops"), v.get("b"), v.get("a"))
        ctx.violation(sig, what, {"kind": "c15-race", "script": sc, "observation": v, "reps": reps})


def replay(ctx, rep):
    """bin/check <id> --replay <file>: re-execute the recorded path on the real host.Set."""
    ctx.build()
    art = rep["artefact"]
    if art.get("kind") == "c15-race":
        sfile = os.path.join(ctx.work, "scripts.ndjson")
        rfile = os.path.join(ctx.work, "readers-results.ndjson")
        kit.write_ndjson(sfile, [art["script"]])
        ctx.harness(["c15-readers", "-in", sfile, "-out", rfile, "-reps", "3000", "-readers", "6"], timeout=600)
        r = kit.read_ndjson(rfile)[0]
        ctx.mc("host", "HostSetPub", "MC_HostSetPub_atomic_quick.cfg", workers=4, timeout=600)
        ctx.case(key="race-replay", nontrivial=True, n=r["races"])
        ctx.case(key=ops_of(art["script"]), nontrivial=True)
        ctx.sample({"script": ops_of(art["script"]), "counts": r.get("counts")})
        if r.get("counts"):
            ctx.violation(rep.get("signature", "replayed"), "raced %d times: %s" % (r["races"], r["counts"]), art)
        ctx.cov["rule"] = "replay of one mutation script against free-running readers"
        return
    if art.get("kind") == "c15-health" and art.get("result"):
        x = art["result"]
        steps, rise, fall = [], x["rise"], x["fall"]
        for tok in re.findall(r"s|f|\[[^\]]*\]", x["seq"]):
            if tok in ("s", "f"):
                steps.append({"op": "result", "ok": tok == "s", "rise": rise, "fall": fall, "ic": False, "flag": True})
            else:
                parts = tok.strip("[]").split(",")
                steps.append({"op": "reconf", "ok": True, "rise": int(parts[0]), "fall": int(parts[1]), "rise0": rise, "fall0": fall,
                              "ic": len(parts) > 2, "flag": True})
                rise, fall = int(parts[0]), int(parts[1])
        hfile = os.path.join(ctx.work, "health.ndjson")
        hres = os.path.join(ctx.work, "health-results.ndjson")
        kit.write_ndjson(hfile, [steps])
        ctx.harness(["c15-health", "-in", hfile, "-out", hres], timeout=300)
        r = kit.read_ndjson(hres)[0]
        ctx.mc("host", "Health", "MC_Health.cfg", workers=2, timeout=300)
        ctx.case(key=["health-replay", x["seq"]], nontrivial=True)
        ctx.case(key="replay", nontrivial=True)
        ctx.sample({"steps": x["seq"], "flags": r["flags"], "earlyFlip": r.get("earlyFlip")})
        if r.get("earlyFlip"):
            ctx.violation(rep.get("signature", "replayed"), "initial rise=%d fall=%d steps %s: %s" % (x["rise"], x["fall"], x["seq"], r["earlyFlip"]), art)
        ctx.cov["rule"] = "replay of one sequence of check results and reconfigurations through the real monitor"
        return
    if art.get("kind") != "c15-path":
        raise kit.Inconclusive("replay of %s artefacts is not supported" % art.get("kind"))
    ctx.mc("host", "HostSet", "MC_HostSet_fixed_quick.cfg", workers=4, timeout=600)
    naddr = len(art["path"][0]["obs"]["all"])
    results = replay_paths(ctx, [art["path"]], "single", naddr=naddr)
    found = {}
    judge_results(ctx, [art["path"]], results, "replay", found)
    ctx.sample({"ops": art["ops"], "result": results[0]})
    report_found(ctx, found)
    ctx.cov["rule"] = "replay of one recorded path"
