"""C18 - SCAN through the proxy visits every node once and terminates.

spec/redis/Scan.tla: nodes with arbitrary per-node cursor chains over symbolic cursor values around the 2^47/2^48
boundaries, the composite cursor (node index, node cursor) and the client's iteration loop. TLC enumerates every
configuration (1..3 nodes x all chains up to the bound) and checks Terminates, ExactCalls, EachNodeOnceInOrder, InOrder,
CursorRoundTrip, PastEndIsTerminal; ScanGen emits every configuration with the exact call sequence.
Every configuration is replayed through a real Redis processor against simulated nodes with scripted SCAN chains
(cursor returned by every call, number of calls, keys returned, cursors each node received, MATCH/COUNT verbatim);
plus the cursor codec on all boundaries (white box), client supplied cursors (past the end, negative, non numeric,
out of range) and iterations over real key spaces with random COUNT.
"""
import os

import kit

LEVEL = "model_checking"


def run(ctx):
    ctx.build()
    ctx.assumptions += ["node cursors are symbolic in the model (Base stands for 2^48); the replayer maps them to the concrete boundary values",
                        "the set of backend nodes does not change during an iteration (as the statement says)"]
    ctx.mc("redis", "Scan", "MC_Scan.cfg" if ctx.thorough else "MC_Scan_quick.cfg", workers=8, timeout=900)
    g = ctx.tlc("redis", "ScanGen", "Gen_Scan_full.cfg" if ctx.thorough else "Gen_Scan_quick.cfg", workers=1, timeout=900, deadlock=False)
    cfgs = [p for (tag, p) in g.prints if tag == "SCAN"]
    if len(cfgs) < 200:
        raise kit.Inconclusive("only %d configurations emitted: %s" % (len(cfgs), g.error[:300]))
    cfile = os.path.join(ctx.work, "configs.ndjson")
    kit.write_ndjson(cfile, cfgs)
    rfile = os.path.join(ctx.work, "replay.ndjson")
    ctx.harness(["c18-replay", "-in", cfile, "-out", rfile], timeout=3000)
    results = kit.read_ndjson(rfile)
    for res, cfg in zip(results, cfgs):
        ctx.case(key=cfg["nodes"], nontrivial=any(len(ch) > 0 for ch in cfg["nodes"]), n=res["calls"])
        if res.get("err"):
            raise kit.Inconclusive("c18-replay: " + res["err"])
        for b in res.get("bad") or []:
            kind = "no-termination" if "terminate" in b else ("coverage" if "never returned" in b or "nowhere" in b else "iteration")
            ctx.violation("scan/%s/%dnodes" % (kind, res["nodes"]), b, {"config": cfg, "result": res})
        if not res.get("bad"):
            ctx.cov["traces_validated_against_impl"] += 1
    if len(results) != len(cfgs):
        raise kit.Inconclusive("replayed %d of %d configurations" % (len(results), len(cfgs)))
    ctx.cov["exhaustive"] = True
    ctx.sample({"config": cfgs[len(cfgs) // 2], "result": results[len(cfgs) // 2]})
    cur = os.path.join(ctx.work, "cursors.ndjson")
    rc, so, se = ctx.harness(["c18-cursors", "-out", cur], timeout=300, allow_fail=True)
    if rc != 0:
        if "panic:" in se and "samaritan/proc/redis" in se:
            done = [r["case"] for r in kit.read_ndjson(cur)] if os.path.exists(cur) else []
            m = [l for l in se.splitlines() if l.startswith("panic:")]
            ctx.violation("scan/crash/client-supplied-cursor", "the process hosting the proxy died on a client supplied cursor (%s); "
                          "last completed case: %s" % (m[0] if m else "panic", done[-1] if done else "none"), {"stderr": se[-2500:], "completed": done})
        else:
            raise kit.Inconclusive("c18-cursors exited %d: %s" % (rc, se[-1500:]))
    for r in (kit.read_ndjson(cur) if os.path.exists(cur) else []):
        ctx.case(key=["cursor", r["case"]], nontrivial=True)
        if not r["ok"]:
            ctx.violation("scan/cursor/" + r["case"].split(" ")[0], "%s: %s" % (r["case"], r.get("why")), r)
    ks = os.path.join(ctx.work, "keyspace.ndjson")
    ctx.harness(["c18-keyspace", "-out", ks, "-runs", "40" if ctx.thorough else "6"], timeout=900)
    for r in kit.read_ndjson(ks):
        ctx.case(key=["keyspace", r["id"], r["nodes"], r["calls"]], nontrivial=True, n=r["calls"])
        for b in r.get("bad") or []:
            ctx.violation("scan/keyspace", b, r)
    ctx.cov["rule"] = ("every configuration of the bounded model (all node counts x all cursor chains) is one case, distinct by its chains, non-trivial when "
                       "some node needs more than one call; plus cursor codec boundary cases, client supplied cursors and random key spaces")
