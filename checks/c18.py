"""C18 - SCAN through the proxy visits every node once and terminates.

spec/redis/Scan.tla (+ ScanGen.tla, MC_Scan*.cfg, Gen_Scan*.cfg, Gen_ScanHosts*.cfg): nodes with arbitrary per-node
cursor chains over symbolic cursor values around the 2^47/2^48 boundaries, the composite cursor (node index, node
cursor) and the client's iteration loop. TLC enumerates every configuration (0..3 healthy hosts x all chains up to the
bound) and checks Terminates, ExactCalls, EachNodeOnceInOrder, InOrder, CursorRoundTrip, PastEndIsTerminal, NoCrash,
DeliveredComposite, ResumeSafe. Mechanisms of the module besides the codec:
* the healthy host list may be EMPTY (PastEndRule "ge" = code; "gt-last" = comparison against the last index in 16
  bits, wraps for zero hosts -> must violate NoCrash/PastEndIsTerminal/ResumeSafe);
* Withdraw: service discovery removes hosts while the client holds a saved cursor (probe), then a fresh iteration over
  the hosts kept;
* completion of a forwarded call is three steps of two goroutines: Rewrite, Publish (backend reader), Encode (session
  writer) - CompletionOrder "rewrite-publish" = code, "publish-rewrite" must violate DeliveredComposite/ExactCalls; the
  window W_WriterMayEncodeWhilePublisherRuns must be reachable.
Replayed on the real Redis processor against simulated nodes with scripted SCAN chains:
* every configuration (cursor returned by every call, number of calls, keys returned, cursors each node received,
  MATCH/COUNT verbatim), free running;
* every configuration once more with every forwarded call completed inside the window (the completing goroutine is
  parked at the hook right after the publication until the client has the reply);
* every host set history of the Gen_ScanHosts bound (OnSvcHostRemove on the running processor, saved cursor, fresh iteration);
* free running (c18-concurrent): iterations while a goroutine announces stored hosts again through OnSvcHostAdd (Reannounce:
  the host set is unchanged, every iteration is judged like a replayed configuration; ReannounceRule "remove-then-add" must
  violate ExactCalls) and pipelined SCAN calls with cursors of every node index while hosts are removed and added (Withdraw
  between ReadHosts and Dispatch; HostReads "twice" must violate ResumeSafe): the process stays alive, every array reply is the
  terminal reply or a page of one node;
plus the cursor codec on all boundaries (white box), client supplied cursors (past the end, negative, non numeric,
out of range; with two hosts and with no host) and iterations over real key spaces with random COUNT.
A death of the process hosting the proxy is a violation (the property says: the terminal reply rather than a crash).
"""
import concurrent.futures as cf
import os
import re

import kit

LEVEL = "model_checking"

INVS = ["BoundedCalls", "ExactCalls", "EachNodeOnceInOrder", "InOrder", "CursorRoundTrip", "PastEndIsTerminal", "NoCrash",
        "DeliveredComposite", "ResumeSafe"]
WINDOWS = ["NoHosts", "AllWithdrawnMidIteration", "WriterMayEncodeWhilePublisherRuns", "WithdrawnBetweenReadAndDispatch"]


def model_checking(ctx, ex):
    """exhaustive runs, anti-vacuity runs and the generators, side by side; returns (generator results by cfg, futures of
    the other runs) - the replays start as soon as the generators are through"""
    jobs = [("mc", "Scan", "MC_Scan_quick.cfg", None),
            # withdrawals between ReadHosts and Dispatch of a call: 0..2 hosts (quick), 0..3 hosts (thorough)
            ("mc", "Scan", "MC_Scan_concurrent.cfg" if ctx.thorough else "MC_Scan_concurrent_quick.cfg", None)]
    if ctx.thorough:
        jobs.append(("mc", "Scan", "MC_Scan.cfg", None))
    # the broken variants of the constants must violate their invariants (the mechanism is in the model)
    jobs.append(("mc", "Scan", "MC_Scan_pastend_wraps.cfg", ["NoCrash", "PastEndIsTerminal", "ResumeSafe"]))
    jobs.append(("mc", "Scan", "MC_Scan_pastend_wraps_withdrawn.cfg", ["ResumeSafe"]))
    jobs.append(("mc", "Scan", "MC_Scan_publish_first.cfg", ["DeliveredComposite"]))
    jobs.append(("mc", "Scan", "MC_Scan_publish_first_iter.cfg", ["ExactCalls", "EachNodeOnceInOrder", "BoundedCalls"]))
    jobs.append(("mc", "Scan", "MC_Scan_hosts_read_twice.cfg", ["ResumeSafe", "NoCrash"]))
    jobs.append(("mc", "Scan", "MC_Scan_reannounce_gap.cfg", ["ExactCalls", "EachNodeOnceInOrder"]))
    # the windows must be reachable with the constants of the code
    for w in WINDOWS:
        jobs.append(("mc", "Scan", "MC_Scan_window_%s.cfg" % w, ["NotW_" + w]))
    gens = [("gen", "ScanGen", "Gen_Scan_full.cfg" if ctx.thorough else "Gen_Scan_quick.cfg", None),
            ("gen", "ScanGen", "Gen_ScanHosts_full.cfg" if ctx.thorough else "Gen_ScanHosts_quick.cfg", None)]

    def one(j):
        kind, mod, cfg, exp = j
        if kind == "gen":
            return ctx.tlc("redis", mod, cfg, mode="mc", workers=1, timeout=900, deadlock=False)
        return ctx.mc("redis", mod, cfg, expect_violated=exp, count=exp is None, workers=4 if exp is None else 1, timeout=900)

    gf = [ex.submit(one, j) for j in gens]
    rest = [ex.submit(one, j) for j in jobs]
    out = {}
    for (kind, mod, cfg, exp), f in zip(gens, gf):
        r = f.result()
        if r.timeout or r.error:
            raise kit.Inconclusive("TLC %s %s: %s" % (mod, cfg, r.error[:500]))
        out[cfg] = r
    return out, rest


def panic_line(se):
    m = [l for l in se.splitlines() if l.startswith("panic:")]
    return m[0] if m else "panic"


def drive(ctx, sub, infile, outfile, n_items, extra=(), timeout=3000):
    """Runs a replay driver over n_items cases. Returns (results by id, crashes, first id not run) where a crash is
    (id of the case the process hosting the proxy died in, panic line, stderr tail). After a crash the driver is
    started again behind the crashed case (the remaining cases are still judged), at most three times."""
    results, crashes, start = {}, [], 1
    for attempt in range(4):
        part = "%s.%d" % (outfile, attempt)
        if os.path.exists(part):
            os.remove(part)
        rc, so, se = ctx.harness([sub, "-in", infile, "-out", part, "-from", str(start)] + list(extra), timeout=timeout, allow_fail=True)
        recs = kit.read_ndjson(part) if os.path.exists(part) else []
        begun, case = None, ""
        for r in recs:
            if "begin" in r:
                begun, case = r["begin"], r.get("case", "")
            else:
                results[r["id"]] = r
                begun = None
        if rc == 0:
            start = None
            break
        if "panic:" in se and ("samaritan/proc/redis" in se or "samaritan/host" in se) and begun is not None:
            crashes.append((begun, panic_line(se), se[-2500:], case))
            start = begun + 1
            if n_items is not None and start > n_items:
                start = None
                break
            continue
        raise kit.Inconclusive("%s exited %d: %s" % (sub, rc, se[-1500:]))
    if start is not None:
        ctx.notes.append("%s %s: the process hosting the proxy died %d times, cases from %d on were not replayed" % (sub, " ".join(extra), len(crashes), start))
    return results, crashes, (start if start is not None else 10 ** 9)


def kind_of(b):
    if b.startswith("probe:"):
        return "saved-cursor"
    if "terminate" in b:
        return "no-termination"
    if "never returned" in b or "nowhere" in b:
        return "coverage"
    return "iteration"


def judge_replay(ctx, cfgs, run, mode):
    """mode: "" (free running) or "writer-first" (every forwarded call completed inside the window)"""
    prefix = "scan/" + (mode + "/" if mode else "")
    results, crashes, stop = run
    for cid, pl, se, case in crashes:
        cfg = cfgs[cid - 1]
        ctx.violation("%scrash/%dnodes" % (prefix, len(cfg["nodes"])),
                      "the process hosting the proxy died during a SCAN iteration over %d healthy hosts (%s)" % (len(cfg["nodes"]), pl),
                      {"config": cfg, "stderr": se})
    crashed = set(c[0] for c in crashes)
    windows = 0
    for i, cfg in enumerate(cfgs, 1):
        res = results.get(i)
        if res is None:
            if i in crashed or i >= stop:
                continue
            raise kit.Inconclusive("c18-replay %s: configuration %d of %d was not replayed" % (mode, i, len(cfgs)))
        if res.get("err"):
            raise kit.Inconclusive("c18-replay: " + res["err"])
        ctx.case(key=[mode, cfg["nodes"]], nontrivial=any(len(ch) > 0 for ch in cfg["nodes"]), n=res["calls"])
        windows += res.get("windows", 0)
        for b in res.get("bad") or []:
            ctx.violation("%s%s/%dnodes" % (prefix, kind_of(b), res["nodes"]), b, {"config": cfg, "result": res, "mode": mode})
        if not res.get("bad"):
            ctx.cov["traces_validated_against_impl"] += 1
    return windows


def concurrent(ctx, cfile):
    args = ["-reps", "6", "-configs", "1500", "-rounds", "12", "-round-ms", "1000"] if ctx.thorough else \
           ["-reps", "3", "-configs", "300", "-rounds", "6", "-round-ms", "400"]
    results, crashes, stop = drive(ctx, "c18-concurrent", cfile, os.path.join(ctx.work, "concurrent.ndjson"), None, extra=args)
    for cid, pl, se, case in crashes:
        ctx.violation("scan/%s/crash" % ("reannounce" if case.startswith("reannounce") else "withdraw-during-call"),
                      "the process hosting the proxy died while SCAN calls and host changes ran concurrently, case %d: %s (%s)" % (cid, case, pl),
                      {"case": case, "stderr": se})
    iters = changes = calls = rounds = 0
    for cid in sorted(results):
        r = results[cid]
        if r.get("err"):
            raise kit.Inconclusive("c18-concurrent: " + r["err"])
        if r["stratum"] == "reannounce":
            iters += r["iterations"]
            changes += r["changes"]
            ctx.case(key=["reannounce", cid, r["nodes"]], nontrivial=True, n=r["calls"])
            if r["bad_count"]:
                ctx.violation("scan/reannounce/%dnodes" % r["nodes"],
                              "%d of %d iterations over an unchanged set of %d hosts deviate while stored hosts are announced again (%d announcements): %s"
                              % (r["bad_count"], r["iterations"], r["nodes"], r["changes"], "; ".join(r["bad"][:4])), r)
            else:
                ctx.cov["traces_validated_against_impl"] += r["iterations"]
        else:
            rounds += 1
            calls += r["calls"]
            ctx.case(key=["withdraw-during-call", cid, r["nodes"], r["victim"]], nontrivial=True, n=r["calls"])
            if r["bad_count"]:
                ctx.violation("scan/withdraw-during-call/invalid-reply",
                              "%d of %d replies are neither the terminal reply nor a page of one node while hosts are withdrawn and added (%s of %d): %s"
                              % (r["bad_count"], r["calls"], r["victim"], r["nodes"], "; ".join(r["bad"][:4])), r)
    ctx.cov["concurrent"] = {"reannounce_iterations": iters, "announcements": changes, "withdraw_rounds": rounds, "calls_during_withdrawals": calls}
    if not ctx.violations:
        if iters < 300 or changes < 20 * iters:
            raise kit.Inconclusive("re-announcement stratum too thin: %d iterations, %d announcements" % (iters, changes))
        if rounds < 6 or calls < 20000:
            raise kit.Inconclusive("concurrent withdrawal stratum too thin: %d rounds, %d calls" % (rounds, calls))


def run(ctx):
    ctx.build()
    ctx.assumptions += ["node cursors are symbolic in the model (Base stands for 2^48, IdxSpace for 2^16); the replayer maps them to the concrete boundary values",
                        "the set of backend nodes does not change during an iteration (as the statement says); a cursor saved before hosts were withdrawn "
                        "is a client supplied cursor for the new host list"]
    with cf.ThreadPoolExecutor(max_workers=6) as ex:
        gens, rest = model_checking(ctx, ex)
        replays(ctx, gens)
        for f in rest:
            f.result()      # raises Inconclusive when a run is not as expected


def replays(ctx, gens):
    g = gens["Gen_Scan_full.cfg" if ctx.thorough else "Gen_Scan_quick.cfg"]
    cfgs = [p for (tag, p) in g.prints if tag == "SCAN"]
    if len(cfgs) < 200:
        raise kit.Inconclusive("only %d configurations emitted: %s" % (len(cfgs), g.error[:300]))
    if not any(len(c["nodes"]) == 0 for c in cfgs):
        raise kit.Inconclusive("the configuration without healthy hosts was not emitted")
    cfile = os.path.join(ctx.work, "configs.ndjson")
    kit.write_ndjson(cfile, cfgs)
    # 1. every configuration, free running
    run1 = drive(ctx, "c18-replay", cfile, os.path.join(ctx.work, "replay.ndjson"), len(cfgs))
    judge_replay(ctx, cfgs, run1, "")
    results = run1[0]
    ctx.cov["exhaustive"] = True
    mid = len(cfgs) // 2
    if mid + 1 in results:
        ctx.sample({"config": cfgs[mid], "result": results[mid + 1]})
    # 2. every configuration once more with every forwarded call completed inside the window
    #    W_WriterMayEncodeWhilePublisherRuns (mandatory stratum)
    wcfgs = cfgs
    run2 = drive(ctx, "c18-replay", cfile, os.path.join(ctx.work, "replay_window.ndjson"), len(wcfgs), extra=["-window"])
    windows = judge_replay(ctx, wcfgs, run2, "writer-first")
    results = run2[0]
    forwarded = sum(1 for c in wcfgs for call in c["calls"] if call["node"] != 0)
    ctx.cov["window_writer_first"] = {"forwarded_calls": forwarded, "completed_inside_window": windows}
    if windows < 0.9 * forwarded and not ctx.violations:
        notes = [n for r in results.values() for n in (r.get("notes") or [])][:5]
        raise kit.Inconclusive("the window W_WriterMayEncodeWhilePublisherRuns was reached in %d of %d forwarded calls only (%s)" % (windows, forwarded, notes))
    # 3. host set histories
    hists = [p for (tag, p) in gens["Gen_ScanHosts_full.cfg" if ctx.thorough else "Gen_ScanHosts_quick.cfg"].prints if tag == "HOSTS"]
    if len(hists) < 300:
        raise kit.Inconclusive("only %d host set histories emitted" % len(hists))
    strata = set((len(h["probe"]["before"]), len(h["probe"]["keep"]), h["probe"]["terminal"], h["probe"]["cursor"] != 0) for h in hists)
    for need in [(n, 0, True, True) for n in (1, 2, 3)] + [(3, 1, True, True), (3, 2, True, True), (3, 2, False, True), (2, 1, False, True)]:
        if need not in strata:
            raise kit.Inconclusive("host set stratum (hosts before, kept, saved cursor past the end, mid iteration) = %s not emitted" % (need,))
    hfile = os.path.join(ctx.work, "hosts.ndjson")
    kit.write_ndjson(hfile, hists)
    results, crashes, stop = drive(ctx, "c18-hosts", hfile, os.path.join(ctx.work, "hosts_replay.ndjson"), len(hists))
    for cid, pl, se, case in crashes:
        h = hists[cid - 1]
        ctx.violation("scan/hosts-withdrawn/crash/keep%dof%d" % (len(h["probe"]["keep"]), len(h["probe"]["before"])),
                      "the process hosting the proxy died: %d of %d hosts were withdrawn after %d calls, the client came back with its cursor (%s)"
                      % (len(h["probe"]["before"]) - len(h["probe"]["keep"]), len(h["probe"]["before"]), h["probe"]["k"], pl), {"history": h, "stderr": se})
    crashed = set(c[0] for c in crashes)
    for i, h in enumerate(hists, 1):
        res = results.get(i)
        if res is None:
            if i in crashed or i >= stop:
                continue
            raise kit.Inconclusive("c18-hosts: history %d of %d was not replayed" % (i, len(hists)))
        if res.get("err"):
            raise kit.Inconclusive("c18-hosts: " + res["err"])
        p = h["probe"]
        ctx.case(key=["hosts", p["before"], p["k"], p["keep"]], nontrivial=True, n=res["calls"] + p["k"] + 1)
        for b in res.get("bad") or []:
            ctx.violation("scan/hosts-withdrawn/%s/keep%dof%d" % (kind_of(b), len(p["keep"]), len(p["before"])), b, {"history": h, "result": res})
        if not res.get("bad"):
            ctx.cov["traces_validated_against_impl"] += 1
    # 4. free running: re-announcements of stored hosts during iterations, withdrawals during calls
    concurrent(ctx, cfile)
    # 5. cursor codec and client supplied cursors
    cur = os.path.join(ctx.work, "cursors.ndjson")
    rc, so, se = ctx.harness(["c18-cursors", "-out", cur], timeout=300, allow_fail=True)
    recs = kit.read_ndjson(cur) if os.path.exists(cur) else []
    if rc != 0:
        if "panic:" in se and "samaritan/proc/redis" in se:
            begun = [r for r in recs if "begin" in r]
            last = begun[-1]["case"] if begun else "none"
            ctx.violation("scan/crash/client-supplied-cursor" + ("/no-hosts" if last.startswith("no-hosts") else ""),
                          "the process hosting the proxy died on a client supplied cursor (%s); case: %s" % (panic_line(se), last),
                          {"stderr": se[-2500:], "case": last})
        else:
            raise kit.Inconclusive("c18-cursors exited %d: %s" % (rc, se[-1500:]))
    for r in recs:
        if "begin" in r:
            continue
        ctx.case(key=["cursor", r["case"]], nontrivial=True)
        if not r["ok"]:
            ctx.violation("scan/cursor/" + r["case"].split(" ")[0], "%s: %s" % (r["case"], r.get("why")), r)
    # 6. real key spaces
    ks = os.path.join(ctx.work, "keyspace.ndjson")
    ctx.harness(["c18-keyspace", "-out", ks, "-runs", "40" if ctx.thorough else "6"], timeout=900)
    for r in kit.read_ndjson(ks):
        ctx.case(key=["keyspace", r["id"], r["nodes"], r["calls"]], nontrivial=True, n=r["calls"])
        for b in r.get("bad") or []:
            ctx.violation("scan/keyspace", b, r)
    ctx.cov["rule"] = ("every configuration of the bounded model (0..3 healthy hosts x all cursor chains) is one case, distinct by its chains, non-trivial when "
                       "some node needs more than one call; replayed free running and with every forwarded call completed inside the "
                       "writer-first window; every host set history (hosts before, calls before the withdrawal, hosts kept) is one case; plus cursor "
                       "codec boundary cases, client supplied cursors (two hosts, no host) and random key spaces")
