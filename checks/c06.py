"""C06 - TCP: connections go only to current healthy hosts, per the balancing policy.

spec/tcp/Balance.tla (selectors = concurrent accepts: Load of the published slice = linearization point, then Pick by
policy; over spec/host/HostSet.tla), spec/tcp/BalanceE2E.tla (the processor as a black box: controller-style host
operations, monitor rounds, sequential connections).

 1. exhaustive TLC runs of the repaired design for the three policies (SelectedWasUsable, BackupOnlyIfNoMain, RRFair,
    LCNotBusier, RandomInCandidates, EstablishedClosable), RRFair with 6 selections over up to 3 hosts and concurrent
    selectors, liveness RemovedClosesEstablished under fairness of the watcher; the pinned variants must still yield
    their counterexamples; BalanceE2E likewise.
 2. spec -> code, policy level: transition cover of BalanceGen on the real host.Set + the real balancers (re-exported
    lb.New, scripted random source): Load = Healthy(), Pick = PickHost; judged on the real objects.
 3. round-robin under real concurrency (16 goroutines x n*k picks: exact multiset), sliding windows, seeded scripted
    stress of random / least-connection.
 4. end to end: a real TCP processor (proc.New) with scripted backends; TLC-simulated behaviours of BalanceE2EGen: host
    operations delivered as the controller does (fresh Host objects), monitor rounds released by the backends,
    connections one at a time.  Oracle (variant independent): the backend that receives a connection is in the allowed set,
    no usable host <=> the client sees the connection closed, established connections to a removed host get closed.
 5. code -> spec: the recorded e2e trace is validated by TLC against BalanceE2ETrace, which also judges every event.
"""
import json
import os
import re
import time

import kit

LEVEL = "model_checking"

HOSTSET = os.path.join(kit.SPEC, "host", "HostSet.tla")
HOSTSETGEN = os.path.join(kit.SPEC, "host", "HostSetGen.tla")
INVS = ["SelectedWasUsable", "BackupOnlyIfNoMain", "RandomInCandidates", "LCNotBusier", "RRFair", "EstablishedClosable"]

PREF = ["stale-object-mark", "add-unhealthy-object", "remove-other-type", "readd-other-type", "readd-same-type",
        "fresh-object", "replace-all"]

WHAT = {
    "selected-not-usable/readd-other-type": "a connection is relayed through the stale entry that re-adding an address with the other Type "
                                            "leaves in the old tier (wrong tier / replaced object)",
    "selected-not-usable/remove-other-type": "a connection is relayed to a host that was removed (Remove with the other Type than the stored "
                                             "one leaves the tier entry)",
    "selected-not-usable/stale-object-mark": "a connection is relayed to a host that a mark of a replaced object put into / left in the usable list",
    "selected-not-usable/add-unhealthy-object": "a connection is relayed to a host flagged unhealthy that Add put back into the usable list",
    "closed-with-usable-host/stale-object-mark": "the client connection is closed although a healthy member exists: a mark of a replaced object "
                                                 "dropped the new member of the address from the usable list",
    "removed-latch-not-closed/fresh-object": "established relays to a removed host are not closed: Remove gets a fresh Host object (what the "
                                             "controller passes) and never closes the stored host's removal latch",
    "removed-latch-not-closed/replaced-object": "established relays through an object that a later Add of its address displaced are not closed "
                                                "when the address is removed",
    "least-conn-not-minimal/after-failed-dials": "least-connection prefers the backend that really holds strictly more relays: the connection "
                                                 "count of the other sample is inflated by dials that failed",
    "conn-count-leak/failed-dial": "a failed dial to a selected host leaves its connection count (the input of least-connection) above the "
                                   "number of relays that exist",
    "removed-latch-not-closed/client-half-closed": "an established relay whose CLIENT has shut down its write side (backend still sending) is not "
                                                   "closed when its host is removed",
    "removed-latch-not-closed/backend-half-closed": "an established relay whose BACKEND has shut down its write side (client still open) is not "
                                                    "closed when its host is removed",
}


def pick_tag(tags):
    for p in PREF:
        if p in tags:
            return p
    return "+".join(sorted(tags)) or "unattributed"


def mc(ctx, module, cfg, **kw):
    kw.setdefault("extra_files", [HOSTSET])
    return ctx.mc("tcp", module, cfg, **kw)


def emit(ctx, module, cfg, tag, mode="mc", workers=1, **kw):
    r = ctx.tlc("tcp", module, cfg, mode=mode, workers=workers, deadlock=False, timeout=900,
                extra_files=[HOSTSET, HOSTSETGEN], **kw)
    if r.timeout or (r.error and not r.prints):
        raise kit.Inconclusive("behaviour emission %s failed: %s" % (cfg, r.error[:500]))
    out = [p for (t, p) in r.prints if t == tag]
    r.stdout = ""
    r.prints = []
    return out


def validate(ctx, cfg, events, n_traces):
    """ctx.validate_traces for a trace spec that needs HostSet.tla from the other spec directory."""
    trace_file = os.path.join(ctx.work, "trace.json")
    with open(trace_file, "w") as f:
        json.dump(events, f, separators=(",", ":"))
    r = ctx.tlc("tcp", "BalanceE2ETrace", cfg, workers=1, deadlock=False, timeout=900, extra_files=[trace_file, HOSTSET])
    m = re.search(r'<<"@@REJECT", (\d+), (.*)>>', r.stdout)
    r.reject = (int(m.group(1)), m.group(2)) if m else None
    if r.timeout or (r.error and not r.violated):
        raise kit.Inconclusive("TLC trace validation BalanceE2ETrace %s: %s" % (cfg, r.error[:1000]))
    if r.ok:
        ctx.cov["traces_validated_against_impl"] += n_traces
    return r


def ops_of(path):
    out = []
    for s in path:
        op = s["op"]
        if op == "ReplaceAll":
            out.append([op, s["f"]])
        elif op in ("MarkBegin", "MarkEnd"):
            out.append([op, "obj%d" % s["o"], s["k"]])
        elif op in ("Load", "Finish"):
            out.append([op, s["s"]])
        elif op == "Pick":
            out.append([op, s["s"], s["r1"], s["r2"]])
        elif op in ("Add", "Remove"):
            out.append([op, "addr%d" % s["a"], s["t"], ("obj%d" % s["o"]) if s.get("o") else "fresh"])
        elif op == "Toggle":
            out.append([op, "addr%d" % s["a"]])
        elif op == "Conn":
            out.append([op, s["id"]])
        elif op == "HalfClose":
            out.append([op, s["id"], {"chc": "client", "bhc": "backend"}.get(s["side"], s["side"])])
        elif op == "Refuse":
            out.append(["BackendRefuses" if s["refusing"] else "BackendAcceptsAgain", "addr%d" % s["a"]])
        elif op == "CloseConn":
            out.append([op, s["id"]])
        else:
            out.append([op])
    return out


def policy_replay(ctx, policy, variant, quick, found):
    cfg = "Gen_Balance_%s_%s%s.cfg" % (policy, variant, "_quick" if quick else "")
    paths = emit(ctx, "BalanceGen", cfg, "EDGE")
    if len(paths) < 1000:
        raise kit.Inconclusive("only %d paths from %s" % (len(paths), cfg))
    pfile = os.path.join(ctx.work, "bal-%s-%s.ndjson" % (policy, variant))
    rfile = os.path.join(ctx.work, "bal-%s-%s-results.ndjson" % (policy, variant))
    kit.write_ndjson(pfile, paths)
    ctx.harness(["c06-policy", "-in", pfile, "-out", rfile, "-policy", policy, "-naddr", "2"], timeout=1200)
    results = {r["id"]: r for r in kit.read_ndjson(rfile)}
    conform = errs = picks = 0
    for i, p in enumerate(paths):
        r = results.get(i)
        if r is None or r.get("err"):
            errs += 1
            if r is not None and len(ctx.notes) < 10:
                ctx.notes.append("policy %s path %d: %s" % (policy, i, r["err"]))
            continue
        npick = sum(1 for s in p if s["op"] in ("Pick",))
        ctx.case(key=[policy] + ops_of(p), nontrivial=npick > 0)
        picks += r["picks"]
        if r["conform"]:
            conform += 1
        for v in r.get("viol") or []:
            sig = v["symptom"]
            if v.get("cause") is not None and sig in ("selected-not-usable", "closed-with-usable-host", "backup-with-healthy-main"):
                sig += "/" + pick_tag(v["cause"] or [])
            e = found.setdefault(sig, {"n": 0, "art": None, "len": 10 ** 9, "detail": ""})
            e["n"] += 1
            if len(p) < e["len"]:
                e["len"] = len(p)
                e["detail"] = "%s policy, %s at step %d of %s" % (policy, v["detail"], v["step"], json.dumps(ops_of(p)))
                e["art"] = {"kind": "c06-policy", "policy": policy, "path": p, "ops": ops_of(p), "result": r}
    if errs > len(paths) * 0.01:
        raise kit.Inconclusive("policy replay driver unhealthy: %d of %d paths failed to run" % (errs, len(paths)))
    if policy == "rr" and variant == "pinned" and not quick:
        pass
    return {"paths": len(paths), "conform_exactly": conform, "picks": picks}, paths


def e2e(ctx, variant, found):
    t = ctx.thorough
    nsim = 140 if t else 14
    behs = []
    for k, policy in enumerate(("rr", "random", "lc")):
        bs = emit(ctx, "BalanceE2EGen", "Sim_BalanceE2E_%s_%s.cfg" % (policy, variant), "BEH", mode="sim",
                  sim_num=nsim, sim_depth=60, seed=ctx.seed * 3 + k)
        behs += [{"policy": policy, "steps": b} for b in bs]
    if len(behs) < nsim * 2:
        raise kit.Inconclusive("only %d e2e behaviours" % len(behs))
    # directed behaviours (shortest path into a named window, by trap invariant)
    directed = 0
    # mandatory strata: a relay in each half-close state (open / client half-closed / backend half-closed) whose host
    # is removed by Remove / by a ReplaceAll that drops it, directly or after an Add displaced the object the relay
    # was established through: the shortest path per stratum out of one exhaustive TLC run
    paths = emit(ctx, "BalanceE2EGen", "Strata_BalanceE2E_%s.cfg" % variant, "STRATUM")
    best = {}
    for b in paths:
        last = b[-1]
        keys = [(m["st"], last["op"], m["how"]) for m in (last.get("must") or [])]
        if not keys:
            keys = [(m["st"], last["op"], "displaced-closed") for s0 in b[:-1] if s0["op"] == "Add" for m in (s0.get("closedInfo") or [])]
        for k in keys:
            if k not in best or len(b) < len(best[k]):
                best[k] = b
    need = {(st, op) for st in ("open", "chc", "bhc") for op in ("Remove", "ReplaceAll")}
    have = {(k[0], k[1]) for k in best if k[2] == "stored"}
    if need - have:
        raise kit.Inconclusive("strata not reachable in BalanceE2EGen: %s" % sorted(need - have))
    strata = {}
    for k in sorted(best):
        strata[len(behs)] = "/".join(k)
        behs.append({"policy": "rr", "steps": best[k]})
        directed += 1
    ctx.cov["e2e_strata"] = sorted("/".join(k) for k in best)
    for trap in ("stalemark",):
        for policy in (("rr", "random", "lc") if t else ("rr",)):
            bs = emit(ctx, "BalanceE2EGen", "Trap_BalanceE2E_%s_%s_%s.cfg" % (trap, policy, variant), "TRAP")
            if not bs:
                raise kit.Inconclusive("window %s is not reachable in BalanceE2EGen (%s, %s)" % (trap, policy, variant))
            behs += [{"policy": policy, "steps": b} for b in bs[:2]]
            directed += len(bs[:2])
    # services without health check: backends that refuse connections while their host stays usable (dial failures),
    # client closes, the random source of the processor's balancer scripted (every policy deterministic)
    nn = 60 if t else 10
    for k, policy in enumerate(("lc", "rr", "random") if t else ("lc",)):
        bs = emit(ctx, "BalanceE2EGen", "Sim_BalanceE2E_nohc_%s_%s.cfg" % (policy, variant), "BEH", mode="sim",
                  sim_num=nn, sim_depth=60, seed=ctx.seed * 7 + k)
        behs += [{"policy": policy, "nohc": True, "steps": b} for b in bs]
    # mandatory stratum: >= 2 failed dials to a host, the host accepts again, a least-connection pick whose samples are
    # that host and a host with strictly more real relays
    bs = emit(ctx, "BalanceE2EGen", "Trap_BalanceE2E_leak_%s.cfg" % variant, "TRAP", workers=4)
    if not bs:
        raise kit.Inconclusive("window 'least-connection after failed dials' is not reachable in BalanceE2EGen (%s)" % variant)
    behs += [{"policy": "lc", "nohc": True, "steps": b} for b in bs[:3]]
    directed += len(bs[:3])
    bfile = os.path.join(ctx.work, "e2e.ndjson")
    rfile = os.path.join(ctx.work, "e2e-results.ndjson")
    kit.write_ndjson(bfile, behs)
    t0 = time.time()
    ctx.harness(["c06-e2e", "-in", bfile, "-out", rfile, "-naddr", "2", "-long", "0", "-shortms", "200"], timeout=2400)
    kit.log("[go] e2e: %d behaviours in %.1fs" % (len(behs), time.time() - t0))
    results = {r["id"]: r for r in kit.read_ndjson(rfile)}
    events = []
    drift = []
    py_bad = {}          # event index (1-based) -> set of verdict names
    stats = {"behaviours": len(behs), "ran": 0, "connections": 0, "rr_exact": 0, "rr_conns": 0, "must_close": 0, "closed_ok": 0,
             "rounds": 0, "stale_rounds": 0}
    errs = 0
    for i, b in enumerate(behs):
        r = results.get(i)
        if r is None or r.get("err"):
            errs += 1
            if r is not None and len(ctx.notes) < 10:
                ctx.notes.append("e2e behaviour %d: %s" % (i, r["err"]))
            continue
        stats["ran"] += 1
        steps = b["steps"]
        ctx.case(key=[b["policy"]] + ops_of(steps),
                 nontrivial=any(s["op"] == "Conn" for s in steps) and any(s["op"] in ("Add", "Remove", "ReplaceAll") for s in steps))
        events.append({"op": "Reset", "beh": i})
        why = {}           # address -> last window tag that can leave a wrong entry for it
        closed_so_far = []
        first = {}
        half = {}          # client id -> "open" | "chc" | "bhc"
        refusing = [False, False]   # per backend: refuses connections
        failed = {}        # backend -> dials that failed so far
        real_before = [0, 0]        # relays per backend after the previous step
        conn_back = {}     # client id -> backend that answered it (real)
        displaced = {}     # client id -> its backend's address was re-added while the relay was up
        for j, (s, o) in enumerate(zip(steps, r["obs"])):
            op = s["op"]
            if o.get("skipped"):
                continue
            closed_so_far = closed_so_far + (o.get("closedNow") or [])
            open_before = [[cid, bk] for cid, bk in sorted(conn_back.items())]
            ev = {"op": op, "open": open_before, "beh": i, "step": j, "a": s.get("a", 0), "t": s.get("t", ""), "f": s.get("f", []),
                  "id": s.get("id", 0), "side": s.get("side", ""), "counts": o.get("counts") or [0, 0],
                  "backend": o.get("backend", 0), "established": bool(o.get("established")), "closedsofar": list(closed_so_far)}
            events.append(ev)
            idx = len(events)
            tags = set(s.get("win") or [])
            if op in ("Add", "Remove"):
                for tg in ("readd-other-type", "remove-other-type"):
                    if tg in tags:
                        why[s["a"]] = tg
            elif op == "Round":
                stats["rounds"] += 1
                if s.get("stale"):
                    stats["stale_rounds"] += 1
                for a in s.get("stale") or []:
                    why[a] = "stale-object-mark"
            if op == "Conn":
                stats["connections"] += 1
                got, allowed = o["backend"], s["allowed"]
                if b["policy"] == "rr":
                    stats["rr_conns"] += 1
                    if got == (0 if s.get("refused") else s["chosen"]):
                        stats["rr_exact"] += 1
                sig = None
                if got != 0 and got not in allowed:
                    # the wrong entry is either the selected address' own (stale tier entry) or the result of a
                    # usable member having been dropped by a stale mark (then another tier / host shows up)
                    tg = why.get(got) or ("stale-object-mark" if any(why.get(a) == "stale-object-mark" for a in allowed) else None)
                    sig = "selected-not-usable/" + (tg or "unattributed")
                    what = "connection %d went to backend %d, allowed %s" % (s["id"], got, allowed)
                elif got == 0 and allowed and any(refusing[a - 1] for a in allowed):
                    # a usable host whose backend refuses connections: the dial fails, the client is closed
                    stats["failed_dials"] = stats.get("failed_dials", 0) + 1
                    if s.get("refused"):
                        failed[s["chosen"]] = failed.get(s["chosen"], 0) + 1
                    else:
                        drift.append("e2e behaviour %d step %d: connection closed, model expected backend %d" % (i, j, s["chosen"]))
                elif got == 0 and allowed:
                    tg = [why[a] for a in allowed if a in why]
                    sig = "closed-with-usable-host/" + (tg[0] if tg else "unattributed")
                    what = "connection %d was closed (client saw %s) although backends %s are usable" % (s["id"], o.get("clientSaw"), allowed)
                elif got != 0 and not o.get("established"):
                    sig = "relay-not-established"
                    what = "connection %d reached backend %d but the client saw %s" % (s["id"], got, o.get("clientSaw"))
                if sig:
                    py_bad.setdefault(idx, set()).add("ConnToUsable")
                    if "view" not in first:
                        first["view"] = (sig, what, j)
                # every policy is deterministic with the scripted random source: the backend is the model's
                exp = 0 if s.get("refused") else s["chosen"]
                stats["exact_conns"] = stats.get("exact_conns", 0) + (1 if got == exp else 0)
                if got != exp and not sig and len(drift) < 20:
                    drift.append("e2e behaviour %d step %d (%s): backend %d, model %d" % (i, j, b["policy"], got, exp))
                # least-connection never prefers the strictly busier of its two samples - busier in relays that really
                # exist (the backends' own accept/close bookkeeping before this connection)
                if b["policy"] == "lc" and got != 0 and s["h1a"] != s["h2a"] and got in (s["h1a"], s["h2a"]):
                    stats["lc_two_sample_picks"] = stats.get("lc_two_sample_picks", 0) + 1
                    other = s["h2a"] if got == s["h1a"] else s["h1a"]
                    if real_before[got - 1] > real_before[other - 1] and "lc" not in first:
                        first["lc"] = ("least-conn-not-minimal/" + ("after-failed-dials" if failed.get(other) else "unattributed"),
                                       "connection %d: samples backend %d (%d relays) and backend %d (%d relays), least-connection "
                                       "chose the strictly busier backend %d; %d dials to backend %d had failed before"
                                       % (s["id"], s["h1a"], real_before[s["h1a"] - 1], s["h2a"], real_before[s["h2a"] - 1], got,
                                          failed.get(other, 0), other), j)
            if op == "Refuse":
                refusing[s["a"] - 1] = bool(s["refusing"])
            # connection counts of the delivered host objects = relays that exist (quiescent point)
            if o.get("counts") is not None:
                stats["count_checks"] = stats.get("count_checks", 0) + 1
                if o.get("countsOff"):
                    if op in ("Add", "Remove", "ReplaceAll", "Conn", "CloseConn"):
                        py_bad.setdefault(idx, set()).add("CountsAreRealConnections")
                    if "count" not in first:
                        a = [k for k in range(len(o["counts"])) if o["counts"][k] != o["held"][k]] or [0]
                        first["count"] = ("conn-count-leak/failed-dial" if failed.get(a[0] + 1) else "conn-count-mismatch/unattributed",
                                          "ConnCount() per address %s, relays held by the harness %s, relays at the backends %s (after %d ms); "
                                          "%d dials to backend %d had failed" % (o["counts"], o["held"], o["real"], o.get("settleMs", 0),
                                                                               failed.get(a[0] + 1, 0), a[0] + 1), j)
                real_before = o.get("real") or real_before
            # closures: the harness' own bookkeeping says which client is connected to which backend
            if op == "Conn" and o.get("established"):
                conn_back[s["id"]] = o["backend"]
                displaced[s["id"]] = False
                half[s["id"]] = "open"
            if op == "HalfClose":
                half[s["id"]] = s["side"]
                stats["half_closes"] = stats.get("half_closes", 0) + 1
            if op == "Add" or op == "ReplaceAll":
                for cid, a in conn_back.items():
                    if (op == "Add" and s["a"] == a) or (op == "ReplaceAll" and s["f"][a - 1] != "none"):
                        displaced[cid] = True   # the address got a new object while the relay was up
            must = o.get("must") or []
            if must:
                stats["must_close"] += len(must)
                still = o.get("mustStillOpen") or []
                stats["closed_ok"] += len(must) - len(still)
                for cid in must:
                    k = "must_close_" + half.get(cid, "open")
                    stats[k] = stats.get(k, 0) + 1
                if still:
                    py_bad.setdefault(idx, set()).add("EstablishedClosed")
                    hs = half.get(still[0], "open")
                    if hs != "open":
                        sig = "removed-latch-not-closed/" + {"chc": "client-half-closed", "bhc": "backend-half-closed"}[hs]
                    else:
                        sig = "removed-latch-not-closed/" + ("replaced-object" if displaced.get(still[0]) else "fresh-object")
                    if "latch" not in first:
                        first["latch"] = (sig, "connection %s (%s) to backend %d still open 200 ms after its host was removed" % (
                            still, {"open": "fully open", "chc": "client half-closed", "bhc": "backend half-closed"}[hs],
                            conn_back.get(still[0], 0)), j, o.get("deadlineMs", 0))
                elif o.get("backendStillOpen") and "latch" not in first:
                    cid = o["backendStillOpen"][0]
                    first["latch"] = ("backend-side-not-closed/" + half.get(cid, "open"),
                                      "the client of connection %d saw the close, its backend %d did not see its side closed" % (
                                          cid, conn_back.get(cid, 0)), j, o.get("deadlineMs", 0))
            for cid in (o.get("closedNow") or []):
                conn_back.pop(cid, None)
        for grp, f in first.items():
            sig, what, j = f[0], f[1], f[2]
            e = found.setdefault(sig, {"n": 0, "art": None, "len": 10 ** 9, "detail": "", "long": False})
            e["n"] += 1
            if j < e["len"]:
                e["len"] = j
                e["detail"] = "e2e %s policy: %s at step %d of %s" % (b["policy"], what, j, json.dumps(ops_of(steps[:j + 1])))
                e["art"] = {"kind": "c06-e2e", "policy": b["policy"], "nohc": bool(b.get("nohc")), "steps": steps[:j + 1],
                            "observed": r["obs"][:j + 1]}
    if drift:
        print("MODEL-DRIFT module=BalanceE2E %d connections did not go to the backend the model's variant picks, e.g. %s" % (len(drift), drift[0]),
              flush=True)
        ctx.notes += ["MODEL-DRIFT " + d for d in drift[:5]]
    if errs > len(behs) * 0.1:
        raise kit.Inconclusive("e2e driver unhealthy: %d of %d behaviours failed to run" % (errs, len(behs)))
    stats["foreign_connections_dropped"] = sum(r.get("foreign", 0) for r in results.values())
    ctx.cov["e2e"] = stats
    if behs and results.get(0) and not results[0].get("err"):
        ctx.sample({"e2e_policy": behs[0]["policy"], "ops": ops_of(behs[0]["steps"]),
                    "observed": [{k: v for k, v in o.items() if v not in (None, [], 0, False, "")} for o in results[0]["obs"]]})
    # a closure deadline of 200 ms is used in the main run; every latch finding is re-run once with a
    # generous deadline and only reported if the relay is still open then
    generous = 10000 if t else 3000
    for sig in list(found):
        if not (sig.startswith(("removed-latch-not-closed", "backend-side-not-closed", "conn-count-")) and found[sig]["art"]["kind"] == "c06-e2e"):
            continue
        art = found[sig]["art"]
        b1 = os.path.join(ctx.work, "rerun.ndjson")
        r1 = os.path.join(ctx.work, "rerun-results.ndjson")
        kit.write_ndjson(b1, [{"policy": art["policy"], "nohc": art.get("nohc", False), "steps": art["steps"]}])
        ctx.harness(["c06-e2e", "-in", b1, "-out", r1, "-naddr", "2", "-long", "1", "-longms", str(generous), "-settlems", str(generous)],
                    timeout=300)
        rr = kit.read_ndjson(r1)[0]
        last = (rr.get("obs") or [{}])[-1]
        if rr.get("err") or not (last.get("mustStillOpen") or last.get("backendStillOpen") or last.get("countsOff")):
            ctx.notes.append("%s: not reproduced with the %d ms deadline (flaky-inconclusive, not reported): %s"
                             % (sig, generous, rr.get("err") or last))
            del found[sig]
        else:
            found[sig]["detail"] = found[sig]["detail"].replace(" 200 ms after", " %d ms after" % last.get("deadlineMs", generous))
            found[sig]["detail"] = found[sig]["detail"].replace("(after 300 ms)", "(after %d ms)" % generous)
            art["observed_with_generous_deadline"] = rr["obs"]
    # every other e2e finding is re-executed once as well: the policies are deterministic (scripted random source), so
    # the last step must show the same thing again; otherwise it is dropped as flaky-inconclusive
    for sig in list(found):
        art = found[sig]["art"]
        if art["kind"] != "c06-e2e" or sig.startswith(("removed-latch-not-closed", "backend-side-not-closed", "conn-count-")):
            continue
        b1 = os.path.join(ctx.work, "rerun.ndjson")
        r1 = os.path.join(ctx.work, "rerun-results.ndjson")
        kit.write_ndjson(b1, [{"policy": art["policy"], "nohc": art.get("nohc", False), "steps": art["steps"]}])
        ctx.harness(["c06-e2e", "-in", b1, "-out", r1, "-naddr", "2", "-long", "0", "-shortms", "200"], timeout=300)
        rr = kit.read_ndjson(r1)[0]
        first, again = art["observed"][-1], (rr.get("obs") or [{}])[-1]
        # the property verdict of the last step is evaluated again on the re-execution (not the raw observation: a relay
        # through a stale object whose removal latch is closed is set up and torn down at once, so whether the client
        # still gets the backend's answer, or the backend the token, differs from run to run - the connection is not
        # properly relayed to a usable host either way)
        st = art["steps"][-1]
        refusing = {}
        for x in art["steps"]:
            if x["op"] == "Refuse":
                refusing[x["a"]] = bool(x["refusing"])
        got, allowed = again.get("backend", 0), st.get("allowed") or []
        same = (st["op"] == "Conn" and (
            (got != 0 and got not in allowed)
            or (got == 0 and bool(allowed) and not any(refusing.get(a) for a in allowed))
            or (got != 0 and not again.get("established"))))
        if sig.startswith("least-conn") and st["op"] == "Conn" and len(rr.get("obs") or []) > 1:
            before = rr["obs"][-2].get("real") or [0, 0]
            other = st["h2a"] if got == st["h1a"] else st["h1a"]
            same = got in (st["h1a"], st["h2a"]) and st["h1a"] != st["h2a"] and before[got - 1] > before[other - 1]
        if rr.get("err") or not same:
            ctx.notes.append("%s: the re-execution of the behaviour did not violate the property again (flaky-inconclusive, not reported): first %s, again %s"
                             % (sig, first, rr.get("err") or again))
            del found[sig]
    # ---- code -> spec
    accepted = None
    for v in [variant] + [x for x in ("pinned", "fixed") if x != variant]:
        tr = validate(ctx, "Trace_BalanceE2E_%s.cfg" % v, events, stats["ran"])
        if tr.ok:
            accepted = (v, tr)
            break
    if accepted is None:
        print("MODEL-DRIFT module=BalanceE2E recorded traces rejected by both variants at %s" % (tr.reject,), flush=True)
        ctx.notes.append("MODEL-DRIFT BalanceE2ETrace: rejected at %s" % (tr.reject,))
    else:
        v, tr = accepted
        bad = [p for (tag, p) in tr.prints if tag == "BAD"]
        if not bad:
            raise kit.Inconclusive("BalanceE2ETrace did not print its verdicts")
        tlc_bad = {x["i"]: set(x["inv"]) for x in bad[-1]}
        ctx.cov["e2e_trace_validation"] = {"variant": v, "traces": stats["ran"], "events": len(events),
                                           "events_violating": len(tlc_bad)}
        # compare per behaviour up to the first violating event: after a violation the real system and the model
        # may be in different states (e.g. a relay that was not closed lives on in reality only)
        starts = [k + 1 for k, ev in enumerate(events) if ev["op"] == "Reset"] + [len(events) + 1]
        for lo, hi in zip(starts, starts[1:]):
            ft = min([k for k in tlc_bad if lo <= k < hi] or [0])
            fp = min([k for k in py_bad if lo <= k < hi] or [0])
            # at the first violating event the two must name a common verdict (a relay that was not closed also keeps
            # its connection count, which only the model-based count verdict of TLC sees as a second violation)
            if ft != fp or (ft and not (tlc_bad[ft] & py_bad[fp])):
                k = ft or fp
                return ("TLC and the check disagree on the first violating event of e2e behaviour %d: TLC %s, check %s (e.g. %s)"
                        % (events[lo - 1]["beh"], (ft, sorted(tlc_bad.get(ft, []))), (fp, sorted(py_bad.get(fp, []))),
                           json.dumps(events[k - 1])[:400]))
    return None


def run(ctx):
    ctx.build()
    t = ctx.thorough
    ctx.assumptions += [
        "2 addresses x 2 types in the selector models (3 addresses for RRFair), <= 4 host set operations, 2 concurrent selectors "
        "(3 for the 2-host RRFair run); the host set itself is explored further by C15",
        "the round-robin index (uint64) does not wrap around",
        "least-connection reads both connection counts in one step in the model; the policy replay scripts both samples",
        "e2e: the scripted backends hold the monitor's probes, so a monitor round completes exactly when the behaviour says so; "
        "after a round that leaves nothing to probe the harness waits 30 ms for the marks of the released round",
        "e2e: a connection that the processor closes is matched to a backend by the accept the backends log within 60 ms",
        "loopback TCP semantics are trusted",
    ]
    # ---- 1. exhaustive
    suffix = "" if t else "_quick"
    first = True
    for pol in (("rr", "random", "lc") if t else ("rr", "lc")):
        r = mc(ctx, "Balance", "MC_Balance_%s%s.cfg" % (pol, suffix), workers=4, timeout=900, coverage=(first and not t))
        first = False
    r = mc(ctx, "Balance", "MC_Balance_rrfair%s.cfg" % suffix, workers=4, timeout=900)
    mc(ctx, "Balance", "MC_Balance_pinned.cfg", workers=4, timeout=300, expect_violated=INVS, count=False)
    # anti-vacuity: a random source drawn from in two unsynchronised steps shared by the selectors must violate NoCrash
    mc(ctx, "Balance", "MC_Balance_torn.cfg", workers=2, timeout=300, expect_violated=["NoCrash"], count=False)
    if t:
        mc(ctx, "Balance", "MC_Balance_live.cfg", workers=4, timeout=300)
        r = ctx.tlc("tcp", "Balance", "MC_Balance_live_pinned.cfg", workers=4, timeout=300, extra_files=[HOSTSET])
        if r.timeout or "Temporal property RemovedClosesEstablishedLive was violated" not in r.stdout:
            raise kit.Inconclusive("MC_Balance_live_pinned: expected the liveness counterexample of the pinned Remove, got: %s"
                                   % (r.error or r.violated))
    mc(ctx, "BalanceE2E", "MC_BalanceE2E_fixed%s.cfg" % suffix, workers=4, timeout=900)
    if t:
        mc(ctx, "BalanceE2E", "MC_BalanceE2E_fixed_random.cfg", workers=4, timeout=900)
    mc(ctx, "BalanceE2E", "MC_BalanceE2E_pinned.cfg", workers=4, timeout=300, expect_violated=["ConnToUsable", "EstablishedClosed", "EView"], count=False)
    # anti-vacuity of the half-close strata: a watcher that exits when the client->backend copy ends (or with the
    # first finished direction) must violate EstablishedClosed
    mc(ctx, "BalanceE2E", "MC_BalanceE2E_watcher_chc.cfg", workers=2, timeout=300, expect_violated=["EstablishedClosed"], count=False)
    # connection counts and dial failures: the real-code variant holds CountsAreRealConnections / LCNotBusierReal, the
    # variant "a failed dial leaks a count" must violate each of them
    mc(ctx, "BalanceE2E", "MC_BalanceE2E_counts.cfg", workers=4, timeout=300)
    mc(ctx, "BalanceE2E", "MC_BalanceE2E_counts_leak_count.cfg", workers=2, timeout=300, expect_violated=["CountsAreRealConnections"], count=False)
    if t:
        mc(ctx, "BalanceE2E", "MC_BalanceE2E_counts_leak_lc.cfg", workers=2, timeout=300, expect_violated=["LCNotBusierReal"], count=False)
    if t:
        mc(ctx, "BalanceE2E", "MC_BalanceE2E_watcher_first.cfg", workers=2, timeout=300, expect_violated=["EstablishedClosed"], count=False)

    # ---- 2. policy level replay
    found = {}
    probe = {}
    probe_paths = {}
    for variant in ("pinned", "fixed"):
        probe[variant], probe_paths[variant] = policy_replay(ctx, "rr", variant, True, found)
    variant = None
    for v in ("pinned", "fixed"):
        if probe[v]["conform_exactly"] == probe[v]["paths"]:
            variant = v
    cov = {"rr_probe": probe}
    if variant is None:
        print("MODEL-DRIFT module=Balance the real set/balancer follows neither variant exactly: %s" % json.dumps(probe), flush=True)
        ctx.notes.append("MODEL-DRIFT Balance: %s" % json.dumps(probe))
        variant = max(("pinned", "fixed"), key=lambda v: probe[v]["conform_exactly"] / float(probe[v]["paths"]))
    else:
        ctx.cov["traces_validated_against_impl"] += probe[variant]["conform_exactly"]
    ctx.cov["code_conforms_to_variant"] = variant
    p = probe_paths[variant]
    ctx.sample({"policy": "rr", "ops": ops_of(p[len(p) // 2])})
    for pol in ("rr", "random", "lc"):
        if pol in ("rr", "random") and not t:
            continue
        st, paths = policy_replay(ctx, pol, variant, not t, found)
        cov[pol] = st
        if st["conform_exactly"] == st["paths"]:
            ctx.cov["traces_validated_against_impl"] += st["conform_exactly"]
        else:
            print("MODEL-DRIFT module=Balance policy=%s %d of %d paths followed" % (pol, st["conform_exactly"], st["paths"]), flush=True)
            ctx.notes.append("MODEL-DRIFT Balance %s: %d of %d" % (pol, st["conform_exactly"], st["paths"]))
        ctx.sample({"policy": pol, "ops": ops_of(paths[-1])})
    ctx.cov["policy_replay"] = cov
    ctx.cov["exhaustive"] = True

    # ---- 3. real concurrency
    rfile = os.path.join(ctx.work, "rr.ndjson")
    ctx.harness(["c06-rr", "-out", rfile], timeout=1200)
    rr = kit.read_ndjson(rfile)
    for x in rr:
        ctx.case(key=["conc", x["kind"], x["n"], x["k"]], nontrivial=x["n"] > 1 or x["kind"].endswith("scripted"), n=max(1, x["picks"]))
        if not x["ok"]:
            sig = {"rr-concurrent": "rr-unfair/concurrent", "rr-windows": "rr-unfair/sequential"}.get(x["kind"], x["kind"] + "-violated")
            ctx.violation(sig, "%s n=%d k=%d goroutines=%d: %s" % (x["kind"], x["n"], x["k"], x["goroutines"], x["detail"]),
                          {"kind": "c06-rr", "case": x})
    ctx.cov["concurrency"] = {"cases": len(rr), "picks": sum(x["picks"] for x in rr)}

    # ---- 3b. random / least-connection with their DEFAULT random source under real concurrency (policy level and
    # through a real processor), in a worker process: a panic in PickHost / HandleConn kills the worker
    cfile = os.path.join(ctx.work, "randconc.ndjson")
    rc, so, se = ctx.harness(["c06-randconc", "-out", cfile, "-g", "24", "-ms", "1500" if t else "600"], timeout=600, allow_fail=True)
    done = kit.read_ndjson(cfile) if os.path.exists(cfile) else []
    if rc != 0:
        m = re.search(r"(panic: .*|fatal error: .*)", se)
        frames = [l.strip() for l in se.splitlines() if "samaritan/proc/" in l or "/proc/internal/lb/" in l or "/proc/tcp/" in l]
        if m and frames:
            ctx.violation("balancer-crash/concurrent-random-source",
                          "the process crashed while %d goroutines picked hosts / connected concurrently with the default random source "
                          "(phases completed before the crash: %s): %s; repo frames: %s" % (
                              24, [(x["phase"], x["policy"]) for x in done], m.group(1), "; ".join(frames[:4])),
                          {"kind": "c06-randconc", "stderr": se[-4000:], "completed": done})
        else:
            raise kit.Inconclusive("c06-randconc exited %d: %s" % (rc, se[-1500:]))
    for x in done:
        if x.get("err"):
            raise kit.Inconclusive("c06-randconc: " + x["err"])
        ctx.case(key=["randconc", x["phase"], x["policy"]], nontrivial=True, n=max(1, x["picks"]))
        if x["bad"]:
            ctx.violation("picked-outside-candidates/concurrent-random-source",
                          "%s %s: %d of %d concurrent picks / connections did not go to a usable host (%s)" % (
                              x["phase"], x["policy"], x["bad"], x["picks"], x.get("detail", "")), {"kind": "c06-randconc", "case": x})
    ctx.cov["random_source_concurrency"] = done

    # ---- 4./5. end to end + trace validation
    disagreement = e2e(ctx, variant, found)

    for sig in sorted(found):
        e = found[sig]
        ctx.violation(sig, "%s [%s; %d cases]" % (WHAT.get(sig, sig), e["detail"], e["n"]), e["art"])
    if disagreement:
        raise kit.Inconclusive(disagreement)
    ctx.cov["rule"] = ("policy level: every transition of TLC's reduced state graph of BalanceGen as one path (distinct by policy + operation "
                       "sequence; non-trivial = contains a Pick); concurrency: (n,k) cases of 16 goroutines x n*k picks; e2e: seeded TLC "
                       "simulation of BalanceE2EGen with the step kind chosen uniformly (distinct by policy + operation sequence; "
                       "non-trivial = has a host operation and a connection)")


def replay(ctx, rep):
    """bin/check <id> --replay <file>: re-execute the recorded case (policy path or e2e behaviour)."""
    ctx.build()
    art = rep["artefact"]
    mc(ctx, "Balance", "MC_Balance_rr_quick.cfg", workers=4, timeout=600)
    found = {}
    if art.get("kind") == "c06-policy":
        pfile = os.path.join(ctx.work, "one.ndjson")
        rfile = os.path.join(ctx.work, "one-results.ndjson")
        kit.write_ndjson(pfile, [art["path"]])
        ctx.harness(["c06-policy", "-in", pfile, "-out", rfile, "-policy", art["policy"], "-naddr", "2"], timeout=300)
        r = kit.read_ndjson(rfile)[0]
        ctx.case(key=art["ops"], nontrivial=True)
        ctx.case(key="replay", nontrivial=True)
        ctx.sample({"ops": art["ops"], "result": r})
        for v in r.get("viol") or []:
            sig = v["symptom"]
            if sig in ("selected-not-usable", "closed-with-usable-host", "backup-with-healthy-main"):
                sig += "/" + pick_tag(v.get("cause") or [])
            ctx.violation(sig, "%s [%s]" % (WHAT.get(sig, sig), v["detail"]), art)
    elif art.get("kind") == "c06-e2e":
        bfile = os.path.join(ctx.work, "one.ndjson")
        rfile = os.path.join(ctx.work, "one-results.ndjson")
        kit.write_ndjson(bfile, [{"policy": art["policy"], "nohc": art.get("nohc", False), "steps": art["steps"]}])
        ctx.harness(["c06-e2e", "-in", bfile, "-out", rfile, "-naddr", "2", "-long", "1", "-longms", "5000", "-settlems", "3000"], timeout=300)
        r = kit.read_ndjson(rfile)[0]
        ctx.case(key=ops_of(art["steps"]), nontrivial=True)
        ctx.case(key="replay", nontrivial=True)
        ctx.sample({"ops": ops_of(art["steps"]), "observed": r.get("obs"), "err": r.get("err")})
        if r.get("err"):
            raise kit.Inconclusive("e2e replay: " + r["err"])
        s, o = art["steps"][-1], r["obs"][-1]
        sig = rep.get("signature", "replayed")
        if o.get("countsOff"):
            ctx.violation(sig, "ConnCount() per address %s, relays held %s, relays at the backends %s" % (o["counts"], o["held"], o["real"]), art)
        elif s["op"] == "Conn":
            if (o["backend"] != 0 and o["backend"] not in s["allowed"]) or (o["backend"] == 0 and s["allowed"] and not s.get("refused")):
                ctx.violation(sig, "connection went to backend %d, allowed %s" % (o["backend"], s["allowed"]), art)
            elif art["policy"] == "lc" and len(r["obs"]) > 1 and o["backend"] in (s["h1a"], s["h2a"]) and s["h1a"] != s["h2a"]:
                before = r["obs"][-2]["real"]
                other = s["h2a"] if o["backend"] == s["h1a"] else s["h1a"]
                if before[o["backend"] - 1] > before[other - 1]:
                    ctx.violation(sig, "least-connection chose backend %d (%d relays) over backend %d (%d relays)"
                                  % (o["backend"], before[o["backend"] - 1], other, before[other - 1]), art)
        elif o.get("mustStillOpen"):
            ctx.violation(rep.get("signature", "replayed"), "connections %s still open after their host was removed" % o["mustStillOpen"], art)
    else:
        raise kit.Inconclusive("replay of %s artefacts is not supported" % art.get("kind"))
    ctx.cov["rule"] = "replay of one recorded case"
