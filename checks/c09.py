"""C09 - listeners: stop and drain always complete and release what they hold
(+ the listener part of C20: connection statistics are conserved).

spec/proc/Listener.tla   implementation-shaped model of proc/listener.go (Serve / handlers / Stop / Drain,
                         one action per code section between verifhook points; FixDone / FixPublish / FixStats
                         select the pinned or the repaired code)
spec/proc/RedisStop.tla  composition: Redis processor stop order with a session (pipelined requests, bounded reply
                         queue) and the slot refresher waiting for a responsive / silent / closed backend
                         (FixSessionWait / FixRefreshWait / FixProcQuit)
spec/proc/RedisStopAll.tla  refinement of the upstream's stop-all: clientsMu, two backend clients, a backend reader handling a
                         redirection (quit check, createClient under the lock, Send into the target's bounded queue),
                         stop-all disciplines StopAllLock (hold / snapshot / none) x StopAllSignalsFirst
spec/proc/HcMonitor.tla  the TCP processor's health monitor: ticker loop, probes with a deadline and their helper
                         goroutines, ResetHealthCheck, Stop (HelperLeaksOnTimeout / ReconfigStartsSecondMonitor)
spec/proc/TcpStop.tla    composition: TCP processor stop with one relayed connection and its watcher (FixQuit)

 1. exhaustive TLC runs of the repaired designs (safety, liveness under fairness, action properties);
 2. every pinned variant must still yield its counterexample, every named window must be reachable (anti-vacuity);
 3. spec -> code: TLC simulation of ListenerGen emits behaviours (stratified over the named windows); each is
    forced on a real listener through the verifhook gates in a worker process, latches / registry / socket /
    handlers / peers / counters are compared with the model after every step, and the outcome is judged by the
    property predicate (Stop and Drain return, port refused, peers closed, goroutines gone, drain keeps
    established connections, limit respected, statistics conserved); hung cases are re-run once with a 10 s deadline;
 4. whole processors through the public API (Redis with simulated cluster nodes, TCP): Stop placed right after
    Start, during bind retry, with active connections, with a request / the slot refresh waiting on a silent or
    closed backend, after StopListen; same predicate plus upstream connections closed;
 4b. races that no hook position can place: bursts of simultaneous arrivals against the connection limit, and Drain
    started at random (spin-aligned, sub-microsecond) offsets against Serve's bind -> publish -> re-check;
 5. code -> spec: free-running (randomly perturbed) listeners record their ordered hook log; TLC validates it
    against ListenerTrace.tla (interval linearisation), telling which variant of the model the code conforms to.

Reusable for C20: `listener_stats(ctx, n)` below (sub-command `c09 c09-lstats`).
"""
import concurrent.futures as cf
import json
import os
import random
import re
import threading
import time

import kit

LEVEL = "model_checking"

DEFECT_NOTE = {
    "stop-hangs": "Stop never returned",
    "drain-ineffective": "connections were accepted after Drain had returned",
    "stats": "connection statistics not conserved at quiescence",
}


# --------------------------------------------------------------------------- C20 entry point

def listener_stats(ctx, n=40, workers=6, timeout=600):
    """Listener part of C20. Builds/uses the `c09` harness binary and runs
        c09 c09-lstats -out <file> -n <n> -workers <w>
    Returns the list of result records (one per connection history that ended in quiescence), each with
      stats{cx_total,cx_destroy_total,cx_active(signed),cx_restricted}, quiescent, conserved, openAtStop, limit,
      served[], refused[], maxServing, actions[] (the history), findings[{sig,what}] with the signatures
      stats/stop-with-open-conns | stats/other | stats/gauge-negative, err (infrastructure)."""
    out = os.path.join(ctx.work, "lstats.ndjson")
    ctx.harness(["c09-lstats", "-out", out, "-n", str(n), "-workers", str(workers)], timeout=timeout, name="c09")
    return kit.read_ndjson(out)


# --------------------------------------------------------------------------- TLC

# processor scenarios that must have been executed (placement of Stop x backend behaviour); a run in which one
# of them is missing or ended with an infrastructure error decides nothing about the composition windows
REQUIRED_SCENARIOS = (["tcp/hc-%s/%s" % (k, b) for k in ("tcp", "atcp", "redis") for b in ("responsive", "silent-after-accept", "closed")] +
                      ["tcp/hc-reconfigured/%s" % c for c in ("interval", "thresholds", "checker-kind", "twice", "twice-silent")] +
                      ["redis/redirect-in-flight-at-stop/fresh-target", "redis/redirect-in-flight-at-stop/full-target-queue",
                       "redis/connect-pending-at-stop/slow-accept", "redis/backend-queue-full-at-stop/silent",
                       "redis/refresh-blocked-at-stop/full-target-queue"] +
                      ["redis/%s/%s" % (w, b) for w in ("idle-conns", "request-waiting", "pipeline-waiting", "refresh-waiting")
                       for b in ("responsive", "silent", "closed")]
                      + ["tcp/idle-conns/%s" % b for b in ("responsive", "silent", "closed")]
                      + ["%s/%s/responsive" % (p, w) for p in ("redis", "tcp")
                         for w in ("immediately", "port-busy", "port-busy-immediately", "drain-then-stop")])

LISTENER_WINDOWS = ["W_StopBeforeServe", "W_StopBeforeBind", "W_StopDuringRetry", "W_StopBetweenBindAndPublish",
                    "W_StopWithActiveConns", "W_StopWhileAccepting", "W_DrainBeforeBind", "W_DrainDuringRetry",
                    "W_DrainBetweenBindAndPublish", "W_DrainThenStop", "W_DrainWithActiveConns", "W_LimitReached",
                    "W_AddAfterStop", "W_BacklogAtClose", "W_DrainDuringBind"]


def model_checking(ctx):
    jobs = []
    # (subdir, module, cfg, expect_violated, count, coverage)
    jobs.append(("proc", "Listener", "MC_Listener_fixed.cfg", None, True, True))
    jobs.append(("proc", "Listener", "MC_Listener_fixed_nolimit.cfg", None, True, False))
    if ctx.thorough:
        jobs.append(("proc", "Listener", "MC_Listener_fixed_3conns.cfg", None, True, False))
    stuck = ["NoStuckStop", "TEMPORAL"]
    jobs.append(("proc", "Listener", "MC_Listener_nodone.cfg", stuck, False, False))
    jobs.append(("proc", "Listener", "MC_Listener_nopublish_stop.cfg", stuck, False, False))
    jobs.append(("proc", "Listener", "MC_Listener_nopublish_drain.cfg", ["DrainStopsAccepting", "DrainClosesSocket"], False, False))
    jobs.append(("proc", "Listener", "MC_Listener_nostats.cfg", ["ConnStatsConserved"], False, False))
    # anti-vacuity mutants of the code as it is: check-then-act addConn, Stop that only copies the registry
    jobs.append(("proc", "Listener", "MC_Listener_nonatomic_add.cfg", ["LimitRespected"], False, False))
    jobs.append(("proc", "Listener", "MC_Listener_copyregistry.cfg", stuck, False, False))
    # ... Drain that looks for the socket before it raises the drain latch
    jobs.append(("proc", "Listener", "MC_Listener_drainorder.cfg", ["DrainClosesSocket", "DrainStopsAccepting"], False, False))
    if ctx.thorough:
        jobs.append(("proc", "Listener", "MC_Listener_pinned.cfg", stuck + ["DrainStopsAccepting", "DrainClosesSocket", "ConnStatsConserved"], False, False))
    # the composition with every repair, including the proposed stop order (quit of the upstream first, clients
    # told to quit before the refresher is waited for); the quick tier uses one refresh round and no late backend loss
    jobs.append(("proc", "RedisStop", "MC_RedisStop_fixed.cfg" if ctx.thorough else "MC_RedisStop_fixed_quick.cfg", None, True, True))
    # the code as it is today, and each of the two ordering repairs alone: session readers / the refresher blocked in
    # the Send of a backend with full queues
    jobs.append(("proc", "RedisStop", "MC_RedisStop_current.cfg", stuck, False, False))
    jobs.append(("proc", "RedisStop", "MC_RedisStop_noupquitfirst.cfg", stuck, False, False))
    jobs.append(("proc", "RedisStop", "MC_RedisStop_nosignalbeforewait.cfg", stuck, False, False))
    # the stop-all of the backend clients against a redirection in flight (refinement of UpStopClients)
    jobs.append(("proc", "RedisStopAll", "MC_RedisStopAll_proposed.cfg", None, True, True))
    jobs.append(("proc", "RedisStopAll", "MC_RedisStopAll_current_d1.cfg", stuck, False, False))
    jobs.append(("proc", "RedisStopAll", "MC_RedisStopAll_current_d2.cfg", stuck, False, False))
    jobs.append(("proc", "RedisStopAll", "MC_RedisStopAll_snapshot_only.cfg", stuck, False, False))
    jobs.append(("proc", "RedisStopAll", "MC_RedisStopAll_signal_only.cfg", stuck, False, False))
    jobs.append(("proc", "RedisStopAll", "MC_RedisStopAll_nolock.cfg", ["NoLiveClientAfterStop", "AfterStopAllReleased"], False, False))
    if ctx.thorough:   # 10^5 states; shows that the waits of the pinned code only hang with a silent backend
        jobs.append(("proc", "RedisStop", "MC_RedisStop_pinned_benign.cfg", None, True, False))
    jobs.append(("proc", "RedisStop", "MC_RedisStop_nosession.cfg", stuck, False, False))
    jobs.append(("proc", "RedisStop", "MC_RedisStop_norefresh.cfg", stuck, False, False))
    jobs.append(("proc", "RedisStop", "MC_RedisStop_noprocquit.cfg", stuck, False, False))
    jobs.append(("proc", "TcpStop", "MC_TcpStop_fixed.cfg", None, True, True))
    # the health monitor of the TCP processor (refinement of hm.Stop()): the code as it is, and the two mutants
    # "probe helper blocks for ever after a timeout" / "a reconfiguration starts a second monitor"
    jobs.append(("proc", "HcMonitor", "MC_HcMonitor_code.cfg", None, True, True))
    jobs.append(("proc", "HcMonitor", "MC_HcMonitor_helperleak.cfg", ["AfterStopAllReleased"], False, False))
    jobs.append(("proc", "HcMonitor", "MC_HcMonitor_secondmonitor.cfg", ["AfterStopAllReleased", "NoProbeAfterStop"], False, False))
    if ctx.thorough:
        jobs.append(("proc", "TcpStop", "MC_TcpStop_pinned_benign.cfg", None, True, False))
    jobs.append(("proc", "TcpStop", "MC_TcpStop_pinned.cfg", stuck, False, False))
    traps = [("ListenerWin", "MC_Listener_traps.cfg"), ("RedisStopWin", "MC_RedisStop_traps.cfg"),
             ("RedisStopWin", "MC_RedisStop_traps_fullqueue.cfg"), ("RedisStopAllWin", "MC_RedisStopAll_traps.cfg"),
             ("HcMonitorWin", "MC_HcMonitor_traps.cfg")]
    if not ctx.thorough:
        # Every TLC run is a JVM of its own (several seconds on a busy machine). The clean runs decide the
        # verdict on the design and always run; the anti-vacuity runs (mutants that must fail, windows that
        # must be reachable) only guard the models against becoming vacuous: the quick tier runs a sample
        # of them that rotates with the seed (every one of them within 6 consecutive seeds), the thorough
        # tier runs all.
        clean = [j for j in jobs if j[3] is None]
        mutants = [j for j in jobs if j[3] is not None]
        k = 4
        start = (ctx.seed * k) % len(mutants)
        jobs = clean + [mutants[(start + i) % len(mutants)] for i in range(k)]
        traps = [traps[(ctx.seed + i) % len(traps)] for i in range(2)]
        ctx.cov["anti_vacuity_sample"] = {"mutants": [j[2] for j in jobs if j[3] is not None], "windows": [t[1] for t in traps],
                                          "of": [len(mutants), 5]}

    def one(j):
        sub, mod, cfg, exp, count, cov = j
        return j, ctx.mc(sub, mod, cfg, expect_violated=exp, count=count, workers=2 if exp is None else 1, timeout=600, coverage=cov)

    with cf.ThreadPoolExecutor(max_workers=8) as ex:
        res = list(ex.map(one, jobs))
    for (sub, mod, cfg, exp, count, cov), r in res:
        if cov and r.coverage:
            ctx.check_vacuity(r, mod, ignore=("HAddCheck", "HAddInsert"))   # the two steps of the addConn mutant
    # every named window must be reachable: one pass records the windows in TLC registers (single worker),
    # the post-condition prints the unreached ones
    def trap(t):
        mod, cfg = t
        return t, ctx.tlc("proc", mod, cfg, workers=1, timeout=300)

    with cf.ThreadPoolExecutor(max_workers=5) as ex:
        for (mod, cfg), r in ex.map(trap, traps):
            if "@@UNREACHED" in r.stdout:
                m = re.search(r'@@UNREACHED",\s*(.*?)>>', r.stdout, re.S)
                raise kit.Inconclusive("vacuous model %s: windows never reached: %s" % (mod, " ".join((m.group(1) if m else "").split())))
            if not r.ok:
                raise kit.Inconclusive("window reachability run %s: %s" % (cfg, (r.error or str(r.violated))[:500]))


# --------------------------------------------------------------------------- behaviours

def gen_behaviours(ctx):
    cfgs = [("Gen_Listener_l1.cfg", 400), ("Gen_Listener_l1_late.cfg", 150), ("Gen_Listener_l2_late.cfg", 150)]
    if ctx.thorough:
        cfgs = [("Gen_Listener_l1.cfg", 2500), ("Gen_Listener_l1_late.cfg", 800), ("Gen_Listener_l2_late.cfg", 800),
                ("Gen_Listener_l0.cfg", 500), ("Gen_Listener_l0_late.cfg", 500), ("Gen_Listener_l2.cfg", 800),
                ("Gen_Listener_nodrain.cfg", 500), ("Gen_Listener_nostop.cfg", 500)]
    else:
        cfgs.append(("Gen_Listener_nostop.cfg", 250))

    def one(c):
        cfg, num = c
        r = ctx.tlc("proc", "ListenerGen", cfg, mode="sim", workers=1, sim_num=num, sim_depth=200,
                    seed=ctx.seed, deadlock=False, timeout=1200)
        if r.timeout or (r.error and "@@BEH" not in r.stdout):
            raise kit.Inconclusive("behaviour generation failed (%s): %s" % (cfg, r.error[:500]))
        return [p for (tag, p) in r.prints if tag == "BEH"]

    behs = []
    with cf.ThreadPoolExecutor(max_workers=4) as ex:
        for lst in ex.map(one, cfgs):
            behs.extend(lst)
    # distinct by action sequence
    seen, uniq = set(), []
    for b in behs:
        k = beh_key(b)
        if k not in seen:
            seen.add(k)
            uniq.append(b)
    return len(behs), uniq


def beh_key(b):
    return json.dumps([b["limit"], b["busy"], [(s["a"], s["h"]) for s in b["steps"]]])


NOSTOP_WINDOWS = ["W_AddAfterStop/idle", "W_StopBetweenBindAndPublish/stop2-first", "W_DrainBeforeBind/nostop", "W_DrainDuringRetry/nostop", "W_DrainBetweenBindAndPublish/nostop",
                  "W_DrainWithActiveConns/nostop"]


def beh_windows(b):
    """named windows the behaviour passes through; behaviours in which Stop is never called (the driver probes the
    drained listener before it stops it) are a stratum of their own"""
    w = set()
    stop = False
    for s in b["steps"]:
        w.update(s["win"])
        stop = stop or s["a"] == "CallStop"
    if not stop:
        w.update([x + "/nostop" for x in w])
    # the pinned code reads l.ln in the section released by Stop2 (the repaired code in Stop1): make sure that
    # schedules in which that section precedes the publication are replayed as well
    acts = [s["a"] for s in b["steps"]]
    # a connection that reaches addConn after Stop has looked at the registry, whose peer stays idle for the
    # rest of the behaviour (the handler only ends when its connection is closed): if it were admitted,
    # nothing would ever close it and Stop would wait for ever
    closers = {s["h"] for s in b["steps"] if s["a"] == "PeerClose"}
    for s in b["steps"]:
        if "W_AddAfterStop" in s["win"]:
            if any(pc == "add" and h not in closers for h, pc in s["obs"]["hs"].items()):
                w.add("W_AddAfterStop/idle")
    # (and no Drain looks at l.ln after the publication: it would close the socket and let Stop return)
    if "Stop2" in acts and "SrvPublish" in acts and acts.index("Stop2") < acts.index("SrvPublish") and \
            ("Drain1" not in acts or acts.index("Drain1") < acts.index("SrvPublish")):
        w.add("W_StopBetweenBindAndPublish/stop2-first")
    return w


def select_behaviours(ctx, uniq, per_window, total):
    rnd = random.Random(ctx.seed)
    order = list(range(len(uniq)))
    rnd.shuffle(order)
    wins = [beh_windows(uniq[i]) for i in range(len(uniq))]
    chosen, chosen_set = [], set()
    missing = []
    for w in LISTENER_WINDOWS + NOSTOP_WINDOWS:
        have = [i for i in order if w in wins[i]]
        if not have:
            missing.append(w)
            continue
        got = sum(1 for i in chosen if w in wins[i])
        for i in have:
            if got >= per_window:
                break
            if i not in chosen_set:
                chosen.append(i)
                chosen_set.add(i)
                got += 1
    fatal = [w for w in missing if w in LISTENER_WINDOWS]
    if fatal:
        raise kit.Inconclusive("no generated behaviour passes through windows %s" % fatal)
    if missing:
        ctx.notes.append("no generated behaviour in the strata %s (seed %s)" % (missing, ctx.seed))
    # fill with behaviours that go through none of the start-up windows (the listener's mid-life), then anything
    early = {"W_StopBeforeServe", "W_StopBeforeBind", "W_StopDuringRetry", "W_StopBetweenBindAndPublish",
             "W_DrainBeforeBind", "W_DrainDuringRetry", "W_DrainBetweenBindAndPublish"}
    for pred in (lambda i: not (wins[i] & early), lambda i: True):
        for i in order:
            if len(chosen) >= total:
                break
            if i not in chosen_set and pred(i):
                chosen.append(i)
                chosen_set.add(i)
    return [uniq[i] for i in chosen]


# --------------------------------------------------------------------------- evaluation

def confirmed_signatures(results):
    """signatures of hangs that were confirmed by a re-run with the long deadline"""
    confirmed = set()
    for r in results:
        if r.get("hung") and (r.get("attempt", 1) >= 2 or r.get("deadlineMs", 0) >= 10000):
            for f in r.get("findings") or []:
                confirmed.add(f["sig"])
    return confirmed


def evaluate(ctx, jobs_by_id, results, label, confirmed=frozenset()):
    summary = {"results": len(results), "errors": 0, "hung": 0, "flaky": 0,
               "exact": 0, "diverged": 0, "with_findings": 0}
    # confirmed (re-run) results first, so that the artefact kept for a signature is a confirmed case
    for r in sorted(results, key=lambda x: -x.get("attempt", 1)):
        job = jobs_by_id.get(r["id"])
        if r.get("err"):
            summary["errors"] += 1
            ctx.notes.append("%s %s: %s" % (label, r.get("name") or r["id"], r["err"][:300]))
            continue
        key = [label, r.get("name"), r.get("limit"), r.get("actions")]
        nontrivial = bool(r.get("windows")) or bool(r.get("served")) or r["kind"] != "replay"
        ctx.case(key=key, nontrivial=nontrivial)
        if r["kind"] == "replay":
            if r.get("exact"):
                summary["exact"] += 1
                ctx.cov["traces_validated_against_impl"] += 1
            else:
                summary["diverged"] += 1
        if r.get("flaky"):
            summary["flaky"] += 1
            ctx.notes.append("%s %s: hung with the short deadline, passed the re-run (flaky-inconclusive)" % (label, r.get("name") or r["id"]))
        if r.get("hung"):
            summary["hung"] += 1
        fs = r.get("findings") or []
        if fs:
            summary["with_findings"] += 1
        for f in fs:
            sig = f["sig"]
            if r.get("hung") and r.get("attempt", 1) < 2 and r.get("deadlineMs", 0) < 10000 and sig not in confirmed:
                ctx.notes.append("%s %s: %s seen once with the short deadline, not re-run" % (label, r.get("name") or r["id"], sig))
                continue
            art = {"job": job, "result": {k: v for k, v in r.items() if k != "trace"}}
            ctx.violation(sig, f["what"], art)
    return summary


def run_jobs(ctx, jobs, tag, workers, long_ms, rerun_cap, timeout):
    jf = os.path.join(ctx.work, "jobs-%s.ndjson" % tag)
    rf = os.path.join(ctx.work, "results-%s.ndjson" % tag)
    kit.write_ndjson(jf, jobs)
    rc, so, se = ctx.harness(["c09-run", "-in", jf, "-out", rf, "-workers", str(workers), "-longMs", str(long_ms),
                              "-rerunCap", str(rerun_cap)], timeout=timeout, allow_fail=True)
    if rc != 0 or not os.path.exists(rf):
        raise kit.Inconclusive("c09-run exited %d: %s" % (rc, se[-1500:]))
    return kit.read_ndjson(rf)


# --------------------------------------------------------------------------- trace validation

def to_trace_events(job, res):
    f = job["free"]
    evs = [{"r": "ctl", "p": "reset", "h": "", "limit": f["limit"], "busy": f["busy"]}]
    for e in res.get("trace") or []:
        if e["r"] == "ctl" and e["p"].startswith("stats:"):
            t, a, d, x = [int(v) for v in e["p"].split(":")[1:]]
            evs.append({"r": "ctl", "p": "stats", "h": "", "total": t, "active": a, "destroy": d, "restricted": x})
        elif e["r"] == "h" and e["h"] in ("", "?"):
            continue
        else:
            evs.append(e)
    return evs


def validate_group(ctx, variant, limit, traces):
    """One TLC run of ListenerTrace over the concatenated runs (list of (id, events)) of one connection limit.
    Returns {id: (accepted, furthest event index within the run, that event)}."""
    allv, starts = [], []
    for tid, evs in traces:
        starts.append(len(allv))
        allv += [dict(e) for e in evs]
    starts.append(len(allv))
    k = 0
    for idx, e in enumerate(allv):
        while idx >= starts[k + 1]:
            k += 1
        e["t"] = k + 1
        e["nx"] = starts[k + 1] + 1
    d = os.path.join(ctx.work, "trace-%s-l%d" % (variant, limit))
    os.makedirs(d, exist_ok=True)
    tf = os.path.join(d, "trace.json")
    with open(tf, "w") as f:
        json.dump(allv, f, separators=(",", ":"))
    r = ctx.tlc("proc", "ListenerTrace", "Trace_Listener_%s.cfg" % variant, workers=1, deadlock=False, timeout=300,
                extra_files=[tf])
    acc = [p for (tag, p) in r.prints if tag == "ACCEPTED"]
    reached = [p for (tag, p) in r.prints if tag == "REACHED"]
    if not r.ok or not acc or not reached or len(acc[-1]) != len(traces):
        raise kit.Inconclusive("trace validation (%s, limit %d) gave no verdict: %s" % (variant, limit, (r.error or r.stdout[-400:])[:600]))
    out = {}
    for i, (tid, evs) in enumerate(traces):
        far = reached[-1][i] - starts[i]          # 1-based index of the furthest entry consumed
        out[tid] = (bool(acc[-1][i]), far, evs[far] if far < len(evs) else None)
    return out


def trace_validation(ctx, free_jobs, free_results):
    by_limit = {}
    for r in free_results:
        if r.get("err") or not r.get("trace"):
            continue
        job = free_jobs[r["id"]]
        by_limit.setdefault(job["free"]["limit"], []).append((r["id"], to_trace_events(job, r)))
    out = {"traces": sum(len(v) for v in by_limit.values()), "accepted_by_repaired_model": 0,
           "accepted_only_by_pinned_model": 0, "rejected_by_both": 0, "repaired_model_rejects_at": []}
    groups = sorted(by_limit.items())
    with cf.ThreadPoolExecutor(max_workers=3) as ex:
        fixed = list(ex.map(lambda g: validate_group(ctx, "fixed", g[0], g[1]), groups))
        again = []
        for (lim, traces), verdict in zip(groups, fixed):
            n_ok = sum(1 for v in verdict.values() if v[0])
            out["accepted_by_repaired_model"] += n_ok
            ctx.cov["traces_validated_against_impl"] += n_ok
            rej = [t for t in traces if not verdict[t[0]][0]]
            for tid, _ in rej:
                out["repaired_model_rejects_at"].append({"trace": tid, "index": verdict[tid][1], "event": verdict[tid][2]})
            if rej:
                again.append((lim, rej))
        pinned = list(ex.map(lambda g: validate_group(ctx, "pinned", g[0], g[1]), again))
    for (lim, traces), verdict in zip(again, pinned):
        for tid, (ok, far, ev) in verdict.items():
            if ok:
                out["accepted_only_by_pinned_model"] += 1
            else:
                out["rejected_by_both"] += 1
                print("MODEL-DRIFT module=Listener trace=%s index=%d event=%s" % (tid, far, json.dumps(ev)), flush=True)
                ctx.notes.append("MODEL-DRIFT: free-run trace %s is rejected by both variants of Listener at entry %d %s" % (tid, far, ev))
    out["repaired_model_rejects_at"] = out["repaired_model_rejects_at"][:10]
    if out["accepted_only_by_pinned_model"]:
        ctx.notes.append("%d free-run traces are behaviours of the pinned variant of Listener.tla only (the code still has the "
                         "defects the repaired model excludes)" % out["accepted_only_by_pinned_model"])
    ctx.cov["trace_validation"] = out


# --------------------------------------------------------------------------- main

def run(ctx):
    ctx.build()
    ctx.assumptions += [
        "bounded model: 2 (3) connections, limit 0/1 (2), one Stop, one Drain, port busy or free, at most 2 refresh rounds; "
        "Redis composition: one session with 3 pipelined requests and a reply queue of capacity 1 (code: 32)",
        "reads of l.ln are atomic in the model (a stale read after publication is not modelled); no temporary accept errors",
        "Serve is called once per listener (Start always spawns it) and Stop is called after Start",
        "kernel behaviour on loopback trusted: closing a listening socket resets the connections queued on it (measured here: about 1 % of the "
        "dials that race with the close are left half-open at the peer without a RST; such a connection was never handed to the listener and is "
        "not counted as one of its connections - the driver pokes it and the kernel then resets it), a plain bind fails while another process holds the port",
        "liveness oracle: Stop/Drain must return within 1.5 s, hung cases are re-run once with 10 s before a verdict",
    ]
    if getattr(ctx, "replay_file", None):
        return replay_artefact(ctx)

    t0 = time.time()
    limit_tlc(ctx)
    # behaviours first (they are on the critical path), then the exhaustive runs go on in the background
    # while the behaviours are replayed
    n_emitted, uniq = gen_behaviours(ctx)
    bg = cf.ThreadPoolExecutor(max_workers=1)
    mc_future = bg.submit(model_checking, ctx)
    try:
        run_conformance(ctx, t0, mc_future, n_emitted, uniq)
    finally:
        bg.shutdown(wait=True)


def limit_tlc(ctx, slots=3):
    """At most `slots` TLC processes of this check at a time, each with two GC and two JIT threads: a check
    that starts a dozen JVMs with sixteen GC threads each starves itself (and its neighbours) on a busy machine."""
    os.environ["JAVA_TOOL_OPTIONS"] = (os.environ.get("JAVA_TOOL_OPTIONS", "") + " -XX:ParallelGCThreads=2 -XX:CICompilerCount=2").strip()
    sem = threading.BoundedSemaphore(slots)
    inner = ctx.tlc

    def tlc(*a, **kw):
        with sem:
            return inner(*a, **kw)
    ctx.tlc = tlc


def run_conformance(ctx, t0, mc_future, n_emitted, uniq):
    kit.log("[c09] %d behaviours emitted (%d distinct) after %.1fs" % (n_emitted, len(uniq), time.time() - t0))
    per_window, total = (25, 1000) if ctx.thorough else (3, 60)
    behs = select_behaviours(ctx, uniq, per_window, total)
    jobs = []
    for i, b in enumerate(behs):
        jobs.append({"id": i + 1, "kind": "replay", "name": "beh-%d" % (i + 1), "deadlineMs": 1500, "attempt": 1, "beh": b})
    # processor scenarios and free-running listeners
    sf = os.path.join(ctx.work, "scenarios.ndjson")
    ctx.harness(["c09-scenarios", "-out", sf, "-deadlineMs", "2000"])
    scen = kit.read_ndjson(sf)
    ff = os.path.join(ctx.work, "freejobs.ndjson")
    ctx.harness(["c09-freejobs", "-out", ff, "-n", "400" if ctx.thorough else "24", "-deadlineMs", "1500"])
    free = kit.read_ndjson(ff)
    bf = os.path.join(ctx.work, "burstjobs.ndjson")
    ctx.harness(["c09-burstjobs", "-out", bf])
    burst = kit.read_ndjson(bf)
    rcf = os.path.join(ctx.work, "racejobs.ndjson")
    ctx.harness(["c09-racejobs", "-out", rcf])
    race = kit.read_ndjson(rcf)
    all_jobs = jobs + scen + free + burst + race
    by_id = {j["id"]: j for j in all_jobs}
    results = run_jobs(ctx, all_jobs, "all", workers=8, long_ms=10000, rerun_cap=3 if ctx.thorough else 1,
                       timeout=1500 if ctx.thorough else 240)
    kit.log("[c09] %d jobs executed after %.1fs" % (len(results), time.time() - t0))
    got = {r["id"] for r in results}
    if len(got) < len(all_jobs):
        raise kit.Inconclusive("only %d of %d jobs reported" % (len(got), len(all_jobs)))
    # a mandatory processor scenario that ended with an infrastructure error (err set: could not listen / connect / warm up ...)
    # is run again, alone, up to two more times before the run is given up as inconclusive; a result with err carries no verdict
    for again in (1, 2):
        redo = [by_id[r["id"]] for r in results if r["kind"] == "proc" and r.get("err") and r.get("name") in REQUIRED_SCENARIOS]
        if not redo:
            break
        kit.log("[c09] re-running %d mandatory scenarios that ended with an infrastructure error (%s)" % (
            len(redo), sorted({(r.get("name"), str(r.get("err"))[:80]) for r in results if r.get("err") and r["kind"] == "proc"})[:3]))
        more = run_jobs(ctx, redo, "redo%d" % again, workers=2, long_ms=10000, rerun_cap=1, timeout=300)
        better = {r["id"]: r for r in more if not r.get("err")}
        results = [better.get(r["id"], r) if (r["kind"] == "proc" and r.get("err")) else r for r in results]
    rep = [r for r in results if r["kind"] == "replay"]
    prc = [r for r in results if r["kind"] == "proc"]
    fre = [r for r in results if r["kind"] == "free"]
    bur = [r for r in results if r["kind"] == "burst"]
    rac = [r for r in results if r["kind"] == "race"]
    ctx.cov["behaviours"] = {"emitted": n_emitted, "distinct": len(uniq), "selected": len(behs),
                             "per_window": {w: sum(1 for b in behs if w in beh_windows(b)) for w in LISTENER_WINDOWS + NOSTOP_WINDOWS}}
    conf = confirmed_signatures(results)
    for att in (2, 1):   # confirmed cases first
        for label, key, lst in (("replay", "replay", rep), ("processor", "scenarios", prc), ("free", "free", fre),
                                ("burst", "burst", bur), ("race", "drain_vs_bind", rac)):
            part = evaluate(ctx, by_id, [r for r in lst if (r.get("attempt", 1) >= 2) == (att == 2)], label, conf)
            tot = ctx.cov.setdefault(key, {})
            for k, v in part.items():
                tot[k] = tot.get(k, 0) + v
    # the listener part of C20 through its reusable entry point
    ls = listener_stats(ctx, n=150 if ctx.thorough else 12, workers=6)
    ls_jobs = {r["id"]: {"id": r["id"], "kind": "free", "name": r.get("name")} for r in ls}
    ctx.cov["listener_stats"] = evaluate(ctx, ls_jobs, ls, "lstats")
    ctx.cov["listener_stats"]["conserved"] = sum(1 for r in ls if r.get("conserved"))
    ctx.cov["listener_stats"]["not_conserved"] = sum(1 for r in ls if r.get("conserved") is False)
    # samples
    for r in rep[:2] + prc[:2] + fre[:1] + bur[:1]:
        ctx.sample({"kind": r["kind"], "name": r.get("name"), "actions": r.get("actions"), "windows": r.get("windows"),
                    "exact": r.get("exact"), "stopReturned": r.get("stopReturned"), "stopMs": r.get("stopMs"),
                    "stats": r.get("stats"), "findings": [f["sig"] for f in r.get("findings") or []]})
    mc_future.result()   # raises kit.Inconclusive when a model is wrong or vacuous
    kit.log("[c09] model checking done after %.1fs" % (time.time() - t0))
    # code -> spec
    kit.log("[c09] listener statistics done after %.1fs" % (time.time() - t0))
    trace_validation(ctx, by_id, fre)
    kit.log("[c09] trace validation done after %.1fs" % (time.time() - t0))
    ctx.cov["burst"]["rounds"] = sum(r.get("steps", 0) for r in bur)
    ctx.cov["drain_vs_bind"]["rounds"] = sum(r.get("steps", 0) for r in rac)
    ctx.cov["rule"] = ("cases = (a) distinct TLC-simulated behaviours of ListenerGen (stratified: at least %d per named window) forced on a real "
                       "listener, (b) processor scenarios protocol x placement of Stop x backend behaviour, (c) seeded free-running listener runs, "
                       "(d) burst runs (8-16 simultaneous dials per round against connection limit 1..3, handler holds the connection), "
                       "(e) Drain raced against Serve's bind/publish/re-check on fresh listeners (held, coarse and spin-aligned starts); "
                       "distinct by (limit, port busy, action sequence) / scenario name / script; non-trivial = passes through a named window or "
                       "serves a connection (replays), every scenario, free and burst run (they all end in a judged Stop)" % per_window)
    # driver health (infrastructure, never a verdict). A recorded violation of the property predicate stands:
    # a defect in the code is the usual reason why the code cannot be kept in step with the model.
    if ctx.violations or ctx.known_hits:
        return
    ran = {r.get("name") for r in prc if not r.get("err")}
    missing = [n for n in REQUIRED_SCENARIOS if n not in ran]
    if missing:
        raise kit.Inconclusive("mandatory processor scenarios not executed: %s" % missing)
    errs = sum(1 for r in results if r.get("err"))
    if errs > len(results) * 0.15:
        raise kit.Inconclusive("driver unhealthy: %d of %d jobs ended with an infrastructure error" % (errs, len(results)))
    clean = [r for r in rep if not r.get("err") and not r.get("findings")]
    exact = [r for r in clean if r.get("exact")]
    if clean and len(exact) < len(clean) * 0.5:
        raise kit.Inconclusive("replay driver unhealthy: only %d of %d clean behaviours were followed exactly" % (len(exact), len(clean)))


def replay_artefact(ctx):
    with open(ctx.replay_file) as f:
        rep = json.load(f)
    job = (rep.get("artefact") or {}).get("job")
    if not job or "kind" not in job or job["kind"] == "free" and "free" not in job:
        raise kit.Inconclusive("replay file holds no job")
    ctx.mc("proc", "Listener", "MC_Listener_fixed.cfg", workers=2, timeout=300)
    job = dict(job, attempt=2, deadlineMs=10000)
    res = run_jobs(ctx, [job], "replay", workers=1, long_ms=10000, rerun_cap=0, timeout=300)
    ctx.cov["replayed"] = evaluate(ctx, {job["id"]: job}, res, "replay-file", confirmed_signatures(res))
    for r in res:
        ctx.sample({k: v for k, v in r.items() if k != "trace"})
    ctx.cov["rule"] = "re-execution of one recorded case"
