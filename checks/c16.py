"""C16 - discovery subscriptions track dependencies and survive stream failures.

spec/config/Discovery.tla (svcDiscoveryClient of config/discovery.go: caller, run loop, resubscribe,
sender, receiver, retry timer; server: srv = (srv + subscribe) - unsubscribe per request, empty on a new stream)
 1. exhaustive TLC run of the intended design (FixEnqueue, FixBatch): InSync, NoDeadlock, SetTracksDeps and the
    liveness properties Converges, CallerReturns, KeepsRetrying under fairness, no state constraint;
    the same with only the enqueue fix: everything but the batch ambiguity holds (InSyncUnlessAmbiguous);
 2. the pinned variants must still yield their counterexamples (anti-vacuity);
 3. spec -> code: TLC emits behaviours (DiscoveryGen.tla): the counterexamples of the pinned variants (every
    state violating NoDeadlock / InSync, with the shortest behaviour reaching it) and seeded simulations of the
    intended design.  Their environment-level steps are executed on the real client against a scripted stream
    (one model service = 16/Cap real services, so "queue full" means the same).  Oracle = the property: every
    call returns within the deadline (re-run at 10 s before a verdict), after a friendly end phase the requests
    seen on the current stream fold to the dependency set, after each failure a new stream is requested;
 4. code -> spec: seeded random histories (more operations than the queue holds, creations refused or delayed,
    Sends held, breaks at random points) recorded as traces; TLC (DiscoveryTrace.tla) searches for an
    interleaving of the client's hidden steps that explains every event (conformance) and evaluates the
    property's predicate in the model state at the end of each history (verdict);
 5. silent stream failures (the connection dies without FIN/RST; only the transport's keepalive ever turns that into an
    error): in the model SilentFail / KeepaliveDetect with the constant HasKeepalive (FALSE must violate NoDeadlock,
    KeepsRetrying and Converges); in the scripted and random drivers as "silent"/"detect" steps; on the code, through the
    constructor that holds the dial options (config.New -> newDynamicSource -> initDiscoveryClient): quick = the keepalive
    parameters of the ClientConn it builds are what HasKeepalive = TRUE assumes; thorough = real gRPC server behind a TCP
    forwarder that black-holes the established connection, new streams must carry the dependency set within 90 s;
 6. the dependency side (DepMsg / ApplyNext, constant AsyncApply: a goroutine per message must violate SetTracksDeps, InSync
    and Converges): the real discoveryClient.StreamDependencies receive loop on a scripted api.DiscoveryServiceClient, driven
    by mandatory strata (more additions than the queue holds while the service streams are down, then a message removing a
    late / an early one; add-then-remove and remove-then-add of one service in consecutive messages with the sender held
    in Send), by TLC's counterexamples of the AsyncApply variant and by simulated message behaviours of the intended
    design; oracle: at quiescence what every live stream carries, and each client's subscribed set, equal the last
    dependency set;
 7. a request may not be able to carry everything (MaxPerRequest: a finite bound must violate Converges): on the code, the
    production dial path again (config.New), 1500 services with long names learnt in small dependency messages, the server
    ends the service streams once, the next streams must carry exactly the set (the resubscription is one request);
 8. the read section of resubscribe (ResubLock .. ResubSnap; RecursiveRLock must violate NoDeadlock / CallerReturns): rounds
    with the caller parked on the full queue when the stream is granted, the client's logger at DEBUG into a slow sink (no
    hook point exists inside the section; log lines written there are what a slow sink stretches);
 9. signalled failures have a kind (Kinds: the gRPC status codes a client can see and the OK end of stream; variant
    CanceledStops must violate KeepsRetrying / Converges): the scripted streams of replay, random and the dependency driver
    fail with status errors of every kind (mandatory strata: every kind on both service streams, on stream creation and on
    the dependency stream), the real gRPC server ends service and dependency streams with the codes (quick: Canceled,
    Unavailable; thorough: all);
10. the server may be unreachable when the proxy starts (StartUnreachable / ServerUp; variant DialOnce must violate
    Converges): config.New while nothing listens, the real server starts listening on that address 7 s later (thorough:
    1, 7, 20 s), the dependency set must be carried by streams within the deadline - runs beside the other stages;
11. thorough: end to end through the production path (dependency stream hook -> Subscribe) against a real gRPC
    discovery server implemented in the harness.
"""
import concurrent.futures as cf
import json
import os
import random
import threading

import kit

LEVEL = "model_checking"

SIG_DEADLOCK = "deadlock/queue-full-holding-lock"
SIG_BATCH = "out-of-sync/sub-unsub-same-batch"
SIG_SILENT = "no-retry/silent-connection-loss"
SIG_LARGE = "out-of-sync/large-set-not-resubscribed"
SIG_RLOCK = "deadlock/resubscribe-stuck-in-read-section"
SIG_NORETRY = "no-retry/after-stream-failure"
SIG_START = "no-retry/server-unreachable-at-start"
SIG_DEPORDER = "out-of-sync/dependency-messages-applied-out-of-order"
SILENT_CONFIRM_S = 150     # "never" is only reported after this long (the verdict must not depend on machine load)
SILENT_DEADLINE_S = 90     # generously above keepalive time + timeout (30 s + 10 s; grpc 1.23 needs up to 2*30 + 10)


# ----------------------------------------------------------------------------- behaviours out of TLC

def project(hist):
    """environment-level steps of a model behaviour"""
    return [h["e"] for h in hist if h["e"]["a"] != "int"]


def step_key(steps):
    return json.dumps([[s["a"], s.get("kind", ""), s.get("s", ""), s.get("S", ""), s.get("U", ""), s.get("res", "")]
                       for s in steps])


def nontrivial_script(steps, hist):
    if any(s["a"] in ("fail", "nsFail") for s in steps):
        return True
    if any(s["a"] == "send" and len(s["S"]) + len(s["U"]) >= 2 for s in steps):
        return True
    return any(h["obs"]["subq"] >= 2 or h["obs"]["unsubq"] >= 2 for h in hist)


def emit_behaviours(ctx):
    rng = random.Random(ctx.seed)
    scripts, hists = [], []
    seen = set()

    def add(kind, hist):
        steps = project(hist)
        k = step_key(steps)
        if k in seen:
            return
        seen.add(k)
        scripts.append({"id": len(scripts), "kind": kind, "cap": 2, "steps": steps})
        hists.append(hist)

    n_cex = 400 if ctx.thorough else 10
    q = "" if ctx.thorough else "_quick"   # quick: the same search without stream failures
    for cfg, kind in (("Gen_Discovery_cex_deadlock%s.cfg" % q, "cex-deadlock"), ("Gen_Discovery_cex_outofsync%s.cfg" % q, "cex-outofsync")):
        r = ctx.tlc("config", "DiscoveryGen", cfg, workers=1, timeout=900)
        if r.timeout or r.error:
            raise kit.Inconclusive("counterexample emission %s failed: %s" % (cfg, r.error[:500]))
        cex = [p for (tag, p) in r.prints if tag == "CEX"]
        if not cex:
            raise kit.Inconclusive("pinned model %s has no counterexample state (vacuous)" % cfg)
        cex.sort(key=lambda c: len(c["hist"]))
        pick = cex[: n_cex // 2]
        rest = cex[n_cex // 2:]
        rng.shuffle(rest)
        pick += rest[: n_cex - len(pick)]
        ctx.cov.setdefault("model_counterexample_states", {})[kind] = len(cex)
        for c in pick:
            add(kind, c["hist"])
    num = 500 if ctx.thorough else 70
    r = ctx.tlc("config", "DiscoveryGen", "Gen_Discovery.cfg", mode="sim", workers=1, sim_num=num, sim_depth=200,
                seed=ctx.seed, deadlock=False, timeout=900)
    behs = [p for (tag, p) in r.prints if tag == "BEH"]
    if len(behs) < num // 2:
        raise kit.Inconclusive("only %d simulated behaviours emitted: %s" % (len(behs), r.error[:300]))
    for b in behs:
        add("sim", b)
    return scripts, hists


# ----------------------------------------------------------------------------- verdicts on real executions

def classify_stuck(o):
    d = o.get("diag") or {}
    full = d.get("cap") and (d.get("subq") == d["cap"] or d.get("unsubq") == d["cap"])
    if d.get("callerBlocked") and not d.get("lockFree") and full and not d.get("pendNS") and not d.get("pendSend"):
        return SIG_DEADLOCK
    if (d.get("callerBlocked") and not d.get("lockFree") and not full and d.get("streamUp") and d.get("msgsOnStream") == 0
            and not d.get("pendNS") and not d.get("pendSend")):
        # stream granted, queue flushed, lock never released, nothing ever sent: resubscribe is inside its read section
        return SIG_RLOCK
    if d.get("retryOutstanding") and not d.get("pendNS") and d.get("lockFree") and not d.get("streamUp"):
        # a stream (or its creation) failed, the client is not blocked on anything and never asks for a new stream
        return SIG_NORETRY
    if d.get("callerBlocked"):
        return "deadlock/call-never-returns"
    return "deadlock/never-settles"


def judge(ctx, what, rec, o, artefact, stats):
    """property predicate on one real execution"""
    if o["stuck"]:
        sig = classify_stuck(o)
        d = o.get("diag") or {}
        if sig == SIG_NORETRY:
            stats[sig] = stats.get(sig, 0) + 1
            ctx.violation(sig, "%s: the stream (or its creation) failed with %s and %.0f s later the client has not asked for a new stream "
                          "(stream requests so far: %s, queues %s/%s, lock free): the Run loop has ended"
                          % (what, d.get("lastFailKind") or "an error", rec.get("deadline_s", 0), d.get("nsRequests"), d.get("subq"), d.get("unsubq")),
                          artefact)
            return
        txt = ("%s: a Subscribe/Unsubscribe call did not return within %.0f s although the environment granted every "
               "stream and completed every Send (queues %d/%d of %d, client lock %s, stream %s, requests seen on it: %d%s)"
               % (what, rec.get("deadline_s", 0), d.get("subq", -1), d.get("unsubq", -1), d.get("cap", -1),
                  "free" if d.get("lockFree") else "held", "established" if d.get("streamUp") else "down",
                  d.get("msgsOnStream", -1),
                  "; the stream was then broken and no new stream was requested" if o.get("noRetry") else ""))
        stats[sig] = stats.get(sig, 0) + 1
        ctx.violation(sig, txt, artefact)
        return
    if o.get("noRetry"):
        stats["no-retry"] = stats.get("no-retry", 0) + 1
        ctx.violation("no-retry/after-stream-failure", "%s: no new stream requested after a failure" % what, artefact)
    if not o["inSync"]:
        bad = set(o["missing"]) | set(o["extra"])
        sig = SIG_BATCH if bad <= set(o["ambiguous"]) else "out-of-sync/other"
        stats[sig] = stats.get(sig, 0) + 1
        ctx.violation(sig, "%s: client at rest on an established stream, nothing left to send, but the stream's subscriptions "
                      "differ from the dependency set: missing %s, extra %s (last request naming them had them in both lists: %s)"
                      % (what, o["missing"][:4], o["extra"][:4], sorted(bad & set(o["ambiguous"]))[:4]), artefact)
    elif not o.get("inSyncAlt", True):
        stats["alt-order-out-of-sync"] = stats.get("alt-order-out-of-sync", 0) + 1


_trace_lock = threading.Lock()
_trace_n = [0]


def validate(ctx, label, histories, order=("pinned", "enqfix", "fixed")):
    """histories: list of (id, events).  Returns {id: verdict record} from TLC; raises Inconclusive when no model
    variant explains the traces."""
    events = []
    for hid, evs in histories:
        events.append({"ev": "reset"})
        for e in evs:
            e = dict(e)
            e.pop("t", None)
            e.pop("stream", None)
            if e["ev"] in ("settled", "stuck"):
                e["h"] = hid
            events.append(e)
    with _trace_lock:
        _trace_n[0] += 1
        d = os.path.join(ctx.work, "trace-%s-%d" % (label, _trace_n[0]))
    os.makedirs(d, exist_ok=True)
    tf = os.path.join(d, "trace.json")
    with open(tf, "w") as f:
        json.dump(events, f, separators=(",", ":"))
    last = None
    for variant in order:
        # a private copy of the configuration: scratch directories of concurrent TLC runs are named after it
        cfg = "Trace_Discovery_%s_%s.cfg" % (variant, os.path.basename(d))
        with open(os.path.join(kit.SPEC, "config", "Trace_Discovery_%s.cfg" % variant)) as f:
            text = f.read()
        with open(os.path.join(d, cfg), "w") as f:
            f.write(text)
        r = ctx.tlc("config", "DiscoveryTrace", cfg, workers=1, timeout=900, deadlock=False,
                    extra_files=[tf, os.path.join(d, cfg)])
        if r.timeout or (r.error and "@@" not in r.stdout):
            raise kit.Inconclusive("TLC trace validation (%s, %s): %s" % (label, variant, r.error[:800]))
        acc = [p for (tag, p) in r.prints if tag == "ACCEPT"]
        if acc:
            return variant, {v["h"]: v for v in acc[0]}, len(events)
        rej = [p for (tag, p) in r.prints if tag == "REJECT"]
        last = (variant, rej[0] if rej else None)
    # MODEL-DRIFT: no variant of the module explains what the code did. That alone is not a verdict: the executions are
    # still judged by the property's own predicate (evaluated by the harness); if none of them violates it the run ends
    # inconclusive (see the end of run()).
    with _trace_lock:
        ctx.cov.setdefault("model_drift", []).append({"label": label, "last": json.dumps(last)[:600]})
    ctx.notes.append("MODEL-DRIFT module=Discovery traces=%s last=%s" % (label, json.dumps(last)[:300]))
    return "none", {}, len(events)


def variant_order(results):
    """start with the tightest variant that can explain what the harness saw"""
    outs = [r["out"] for r in results]
    if any(o["stuck"] and classify_stuck(o) == SIG_DEADLOCK for o in outs):
        return ("pinned", "enqfix", "fixed")
    overlap = any(set(e["sub"]) & set(e["unsub"]) for o in outs for e in o["trace"] if e["ev"] == "msg")
    return ("enqfix", "fixed", "pinned") if overlap else ("fixed", "enqfix", "pinned")


def validate_chunks(ctx, label, histories, nchunks, order=("pinned", "enqfix", "fixed")):
    chunks = [histories[i::nchunks] for i in range(nchunks)]
    chunks = [c for c in chunks if c]
    verdicts, variants, nev = {}, set(), 0
    with cf.ThreadPoolExecutor(max_workers=len(chunks) or 1) as ex:
        for variant, v, n in ex.map(lambda c: validate(ctx, label, c, order), chunks):
            verdicts.update(v)
            variants.add(variant)
            nev += n
    return variants, verdicts, nev


def compare_with_tlc(ctx, label, results, verdicts):
    """the harness' evaluation and TLC's evaluation of the predicate must agree"""
    for r in results:
        v = verdicts.get(r["id"])
        if v is None:
            continue
        o = r["out"]
        mine = (not o["stuck"]) and o["inSync"]
        if bool(v["ok"]) != mine:
            raise kit.Inconclusive("%s %d: TLC evaluates the predicate to %s, the harness to %s" % (label, r["id"], v["ok"], mine))


# ----------------------------------------------------------------------------- the parts

def part_model(ctx):
    """the intended design.  quick: 4 operations, 1 failure, safety + liveness.  thorough: safety at the full bounds (6 operations,
    2 failures of any kind) here, liveness at 5 operations in part_model_live (the liveness pass dominates: at the full
    bounds it takes 10 min - MC_Discovery_fixed_fulllive.cfg, 2,872,023 states, run on demand with VERIF_C16_FULL_LIVENESS=1)."""
    cfg = "MC_Discovery_fixed.cfg" if ctx.thorough else "MC_Discovery_fixed_quick.cfg"
    if ctx.thorough and os.environ.get("VERIF_C16_FULL_LIVENESS") == "1":
        cfg = "MC_Discovery_fixed_fulllive.cfg"
    r = ctx.mc("config", "Discovery", cfg, workers=6, timeout=2400, coverage=not ctx.thorough)
    if r.coverage:
        ctx.check_vacuity(r, "Discovery", ignore=("Init", "CallUnlock", "DepMsg", "ApplyNext", "NewStreamUnreachable", "ServerUp"))
        # CallUnlock exists in the pinned variant only; DepMsg / ApplyNext are exercised by MC_Discovery_depmsgs*.cfg,
        # NewStreamUnreachable / ServerUp by MC_Discovery_kinds*.cfg
    return r


def part_model_deps(ctx):
    """dependency messages with several changes, applied in order by the receive loop (quick: safety; thorough: + liveness)"""
    cfg = "MC_Discovery_depmsgs.cfg" if ctx.thorough else "MC_Discovery_depmsgs_quick.cfg"
    r = ctx.mc("config", "Discovery", cfg, workers=4, timeout=1200, count=False, coverage=not ctx.thorough)
    if r.coverage:
        # (the quick configuration has no stream failures; the failure actions are covered by MC_Discovery_fixed_quick.cfg)
        for a in ("DepMsg", "ApplyNext", "CallLock", "CallEnqueue", "ResubLock", "SenderSend"):
            if not r.coverage.get(a):
                raise kit.Inconclusive("vacuous model Discovery (dependency messages): action %s never taken" % a)
    return r


def part_async_converges(ctx):
    r = ctx.tlc("config", "Discovery", "MC_Discovery_asyncapply_converges.cfg", workers=4, timeout=1200)
    if "Temporal property Converges was violated" not in r.stdout:
        raise kit.Inconclusive("AsyncApply must violate Converges: %s %s" % (r.violated, r.error[:300]))
    return ["Converges"]


def part_model_live(ctx):
    return ctx.mc("config", "Discovery", "MC_Discovery_fixed_live.cfg", workers=6, timeout=1800, count=False)


def part_model_enqfix(ctx):
    """only the enqueue fix: everything but the batch ambiguity holds"""
    if not ctx.thorough:
        return ctx.mc("config", "Discovery", "MC_Discovery_enqfix_quick.cfg", workers=3, timeout=600, count=False)
    # safety at the full bounds, liveness at 4 operations (the liveness pass dominates the run time)
    ctx.mc("config", "Discovery", "MC_Discovery_enqfix_live.cfg", workers=3, timeout=900, count=False)
    return ctx.mc("config", "Discovery", "MC_Discovery_enqfix.cfg", workers=4, timeout=900, count=True)


def part_pinned(ctx, half=None):
    exp = {
        "MC_Discovery_pinned_deadlock.cfg": ["NoDeadlock"],
        "MC_Discovery_pinned_callers.cfg": ["TEMPORAL"],
        "MC_Discovery_pinned_retry.cfg": ["TEMPORAL"],
        "MC_Discovery_pinned_batch.cfg": ["InSync"],
        "MC_Discovery_enqfix_batch.cfg": ["InSync"],
        "MC_Discovery_batchfix_only.cfg": ["NoDeadlock"],
        "MC_Discovery_nokeepalive.cfg": ["NoDeadlock"],
        "MC_Discovery_nokeepalive_retry.cfg": ["TEMPORAL"],
        "MC_Discovery_nokeepalive_converges.cfg": ["TEMPORAL"],
        "MC_Discovery_canceled_stops.cfg": ["TEMPORAL"],
        "MC_Discovery_canceled_stops_converges.cfg": ["TEMPORAL"],
        "MC_Discovery_dial_once.cfg": ["TEMPORAL"],
        "MC_Discovery_recursive_rlock.cfg": ["NoDeadlock"],
        "MC_Discovery_recursive_rlock_callers.cfg": ["TEMPORAL"],
        "MC_Discovery_maxperrequest.cfg": ["TEMPORAL"],
        "MC_Discovery_asyncapply.cfg": ["SetTracksDeps"],
        "MC_Discovery_asyncapply_insync.cfg": ["InSync"],
        "MC_Discovery_windows.cfg": ["NotW1", "NotW2", "NotW3", "NotW4", "NotW5", "NotW6", "NotW7", "NotW8", "NotW9"],
    }
    out = {}
    windows = exp.pop("MC_Discovery_windows.cfg")
    items = list(exp.items())
    if half is not None:          # the chain is run as two halves side by side
        items = items[half::2]
        windows = windows[half::2]
    items.append(("MC_Discovery_windows.cfg", windows))
    for cfg, e in items:
        if cfg == "MC_Discovery_windows.cfg":
            # every named window must be reachable: one run per trap
            for w in e:
                r = ctx.mc("config", "Discovery", "MC_Discovery_%s.cfg" % w, workers=2, timeout=300, expect_violated=[w], count=False)
                out[w] = r.violated
            continue
        if e == ["TEMPORAL"]:
            # this TLC prints "Temporal property X was violated", which kit.parse_tlc does not classify
            r = ctx.tlc("config", "Discovery", cfg, workers=2, timeout=300)
            prop = {"MC_Discovery_pinned_callers.cfg": "CallerReturns", "MC_Discovery_pinned_retry.cfg": "KeepsRetrying",
                    "MC_Discovery_nokeepalive_retry.cfg": "KeepsRetrying",
                    "MC_Discovery_recursive_rlock_callers.cfg": "CallerReturns",
                    "MC_Discovery_canceled_stops.cfg": "KeepsRetrying",
                    "MC_Discovery_canceled_stops_converges.cfg": "Converges",
                    "MC_Discovery_dial_once.cfg": "Converges",
                    "MC_Discovery_maxperrequest.cfg": "Converges",
                    "MC_Discovery_nokeepalive_converges.cfg": "Converges"}[cfg]
            if "Temporal property %s was violated" % prop not in r.stdout:
                raise kit.Inconclusive("TLC %s: expected a counterexample for %s, got %s %s" % (cfg, prop, r.violated, r.error[:300]))
            out[cfg] = [prop]
            continue
        r = ctx.mc("config", "Discovery", cfg, workers=2, timeout=300, expect_violated=e, count=False)
        out[cfg] = r.violated
    return out


def part_replay(ctx):
    scripts, hists = emit_behaviours(ctx)
    bfile = os.path.join(ctx.work, "behaviours.ndjson")
    kit.write_ndjson(bfile, scripts)
    rfile = os.path.join(ctx.work, "replay.ndjson")
    ctx.harness(["c16-replay", "-in", bfile, "-out", rfile, "-par", str(max(48, len(scripts)))], timeout=1200)
    results = kit.read_ndjson(rfile)
    if len(results) != len(scripts):
        raise kit.Inconclusive("replay returned %d results for %d behaviours" % (len(results), len(scripts)))
    # TLC validates the traces of a subset of the replays (each real Subscribe is one caller operation there)
    nval = 120 if ctx.thorough else 12
    rng = random.Random(ctx.seed + 7)
    idx = list(range(len(results)))
    rng.shuffle(idx)
    sub = sorted(idx[:nval])
    variants, verdicts, nev = validate_chunks(ctx, "replay", [(results[i]["id"], results[i]["out"]["trace"]) for i in sub],
                                              6 if ctx.thorough else 2, variant_order(results))
    compare_with_tlc(ctx, "replay", [results[i] for i in sub], verdicts)
    return scripts, hists, results, variants, len(sub), nev


def part_random(ctx):
    n = 160 if ctx.thorough else 16
    rfile = os.path.join(ctx.work, "random.ndjson")
    ctx.harness(["c16-random", "-n", str(n), "-out", rfile, "-par", str(n)], timeout=1200)
    results = kit.read_ndjson(rfile)
    if len(results) != n:
        raise kit.Inconclusive("random driver returned %d of %d histories" % (len(results), n))
    variants, verdicts, nev = validate_chunks(ctx, "random", [(r["id"], r["out"]["trace"]) for r in results],
                                              8 if ctx.thorough else 4, variant_order(results))
    if len(verdicts) != n and "none" not in variants:   # (with model drift some chunks have no verdicts: judged by the harness alone)
        raise kit.Inconclusive("TLC returned %d verdicts for %d histories" % (len(verdicts), n))
    compare_with_tlc(ctx, "random", results, verdicts)
    return results, variants, nev


def part_e2e(ctx):
    rfile = os.path.join(ctx.work, "e2e.ndjson")
    ctx.harness(["c16-e2e", "-out", rfile], timeout=600)
    return kit.read_ndjson(rfile)


KINDS = ["Canceled", "DeadlineExceeded", "Unavailable", "Internal", "ResourceExhausted", "EOF"]


def names(prefix, a, b):
    return ["%s%02d" % (prefix, i) for i in range(a, b)]


def mandatory_dep_strata():
    """hand-written strata at the real capacity (16): [kind, steps]"""
    dep = lambda added=(), removed=(): {"a": "dep", "added": list(added), "removed": list(removed)}
    up = {"a": "nsOK"}
    out = []
    # more additions than the queue holds while the service streams are down, then a removal
    out.append(("stratum/20-added-while-down-then-late-one-removed", [dep(names("s", 1, 21)), dep(removed=["s20"]), up]))
    out.append(("stratum/20-added-while-down-then-late-and-early-removed", [dep(names("s", 1, 21)), dep(removed=["s18", "s03"]), up]))
    out.append(("stratum/40-added-while-down-then-five-removed-then-three-added",
                [dep(names("s", 1, 41)), dep(removed=["s40", "s33", "s17", "s16", "s01"]), dep(["t01", "t02", "s40"]), up]))
    out.append(("stratum/17-added-while-down-refused-once-then-last-removed",
                [dep(names("s", 1, 18)), {"a": "nsFail"}, dep(removed=["s17"]), up]))
    # the same during an outage of established streams
    out.append(("stratum/outage-20-added-then-late-one-removed",
                [up, dep(["p01"]), {"a": "hold"}, {"a": "send", "S": ["p01"], "U": []}, {"a": "fail"},
                 dep(names("s", 1, 21)), dep(removed=["s19"]), up]))
    # consecutive messages about one service while the sender is held in Send
    out.append(("stratum/sender-held-add-then-remove",
                [up, dep(["p01"]), {"a": "hold"}, dep(["x"]), dep(removed=["x"]), {"a": "send", "S": ["p01"], "U": []}]))
    out.append(("stratum/sender-held-remove-then-add",
                [up, dep(["x"]), {"a": "hold"}, {"a": "send", "S": ["x"], "U": []}, dep(["p01"]), {"a": "hold"},
                 dep(removed=["x"]), dep(["x"]), {"a": "send", "S": ["p01"], "U": []}]))
    out.append(("stratum/sender-held-add-remove-add-remove",
                [up, dep(["p01"]), {"a": "hold"}, dep(["x"]), dep(removed=["x"]), dep(["x", "y"]), dep(removed=["x"]),
                 {"a": "send", "S": ["p01"], "U": []}]))
    # every kind of signalled failure on both service streams, on their creation and on the dependency stream
    for k in KINDS:
        out.append(("stratum/every-stream-fails-with-%s" % k,
                    [up, dep(["q01", "q02", "q03"]), {"a": "hold"}, {"a": "send", "S": ["q01", "q02", "q03"], "U": []},
                     {"a": "fail", "code": k}, dep(["q04"]), {"a": "nsFail", "code": k}, dep(removed=["q02"]), up,
                     {"a": "depfail", "code": k}, dep(["q05"], ["q01"])]))
    return out


def part_deps(ctx):
    rng = random.Random(ctx.seed + 11)
    scripts = []
    for kind, steps in mandatory_dep_strata():
        scripts.append({"id": len(scripts), "kind": kind, "cap": 16, "steps": steps})
    r = ctx.tlc("config", "DiscoveryGen", "Gen_Discovery_cex_async%s.cfg" % ("" if ctx.thorough else "_quick"), workers=1, timeout=900)
    cex = [p for (tag, p) in r.prints if tag == "CEX"]
    if r.timeout or r.error or not cex:
        raise kit.Inconclusive("AsyncApply counterexample emission failed or empty: %s" % r.error[:300])
    cex.sort(key=lambda c: len(c["hist"]))
    ncex = 120 if ctx.thorough else 10
    pick = cex[: ncex // 2]
    rest = cex[ncex // 2:]
    rng.shuffle(rest)
    pick += rest[: ncex - len(pick)]
    ctx.cov.setdefault("model_counterexample_states", {})["cex-asyncapply"] = len(cex)
    seen = set()
    for c in pick:
        steps = project(c["hist"])
        k = json.dumps(steps, sort_keys=True)
        if k not in seen:
            seen.add(k)
            scripts.append({"id": len(scripts), "kind": "cex-asyncapply", "cap": 1, "steps": steps})
    num = 150 if ctx.thorough else 24
    r = ctx.tlc("config", "DiscoveryGen", "Gen_Discovery_deps.cfg", mode="sim", workers=1, sim_num=num, sim_depth=200,
                seed=ctx.seed, deadlock=False, timeout=900)
    behs = [p for (tag, p) in r.prints if tag == "BEH"]
    if len(behs) < num // 2:
        raise kit.Inconclusive("only %d simulated dependency behaviours emitted: %s" % (len(behs), r.error[:300]))
    for b in behs:
        steps = project(b)
        k = json.dumps(steps, sort_keys=True)
        if k not in seen:
            seen.add(k)
            scripts.append({"id": len(scripts), "kind": "sim-deps", "cap": 1, "steps": steps})
    bfile = os.path.join(ctx.work, "depscripts.ndjson")
    kit.write_ndjson(bfile, scripts)
    rfile = os.path.join(ctx.work, "deps.ndjson")
    ctx.harness(["c16-deps", "-in", bfile, "-out", rfile, "-par", str(max(48, len(scripts)))], timeout=1200)
    results = kit.read_ndjson(rfile)
    if len(results) != len(scripts):
        raise kit.Inconclusive("dependency driver returned %d results for %d scripts" % (len(results), len(scripts)))
    return scripts, results


def part_largeset(ctx):
    rfile = os.path.join(ctx.work, "largeset.ndjson")
    ctx.harness(["c16-largeset", "-out", rfile, "-n", "2000" if ctx.thorough else "1500", "-deadline", "20s", "-confirm", "40s"], timeout=400)
    return kit.read_ndjson(rfile)[0]


def part_parked(ctx):
    rfile = os.path.join(ctx.work, "parked.ndjson")
    ctx.harness(["c16-parked", "-out", rfile, "-rounds", "300" if ctx.thorough else "40"], timeout=600)
    return kit.read_ndjson(rfile)[0]


def part_kinds(ctx):
    rfile = os.path.join(ctx.work, "kinds.ndjson")
    ctx.harness(["c16-kinds", "-out", rfile, "-kinds", ",".join(KINDS) if ctx.thorough else "Canceled,Unavailable"], timeout=300)
    return kit.read_ndjson(rfile)


def part_latestart(ctx):
    rfile = os.path.join(ctx.work, "latestart.ndjson")
    ctx.harness(["c16-latestart", "-out", rfile, "-delays", "1,7,20" if ctx.thorough else "7"], timeout=400)
    return kit.read_ndjson(rfile)


def part_model_kinds(ctx):
    cfg = "MC_Discovery_kinds.cfg" if ctx.thorough else "MC_Discovery_kinds_quick.cfg"
    return ctx.mc("config", "Discovery", cfg, workers=3, timeout=1200, count=False)


def part_keepalive(ctx):
    """the ClientConn built by the production constructor, observed (quick and thorough)"""
    rfile = os.path.join(ctx.work, "keepalive.ndjson")
    ctx.harness(["c16-keepalive", "-out", rfile], timeout=120)
    return kit.read_ndjson(rfile)[0]


def part_blackhole(ctx):
    rfile = os.path.join(ctx.work, "blackhole.ndjson")
    ctx.harness(["c16-blackhole", "-out", rfile, "-deadline", "%ds" % SILENT_DEADLINE_S, "-confirm", "%ds" % SILENT_CONFIRM_S],
                timeout=SILENT_CONFIRM_S + 120)
    return kit.read_ndjson(rfile)[0]


def judge_keepalive(ctx, ka):
    """HasKeepalive = TRUE in the model means: the transport reports a silently dead connection within the deadline"""
    if ka.get("err"):
        raise kit.Inconclusive("keepalive probe: " + ka["err"])
    if not ka["streamsUp"]:
        raise kit.Inconclusive("keepalive probe: the production client never brought its streams up against the harness server")
    ctx.case(key="keepalive/%s/%s" % (ka["time_s"], ka["timeout_s"]), nontrivial=True)
    ctx.cov["keepalive"] = ka
    within = ka["detect_within_s"]
    if within < 0 or within > SILENT_DEADLINE_S - 10:
        ctx.violation(SIG_SILENT,
                      "the ClientConn built by config/dynamic.go initDiscoveryClient has %s (Time=%ss Timeout=%ss as passed to grpc.Dial): "
                      "a connection that dies without FIN/RST never fails Recv/Send, the Run loops never retry and no stream carries "
                      "the dependency set again (Discovery.tla with HasKeepalive = FALSE: NoDeadlock, KeepsRetrying, Converges violated)"
                      % ("no client keepalive" if within < 0 else "a keepalive that needs %.0f s" % within, ka["time_s"], ka["timeout_s"]),
                      {"keepalive": ka, "model": "MC_Discovery_nokeepalive*.cfg"})


def run(ctx):
    ctx.build()
    ctx.assumptions += [
        "queue capacity scaled from 16 to 2 in the exhaustive model (the real 16 in trace validation and in every execution)",
        "one caller goroutine (the dependency hook runs on the dependency stream's receive loop)",
        "a broken stream makes Recv fail and Send fail (or, in the model only, swallow the message)",
        "the server applies one request as srv = (srv + subscribe) - unsubscribe; the opposite order is evaluated as well",
        "the client's retry delay (0.8-1.2 s) is below the 3 s / 10 s deadlines",
        "a silent failure is detected by nothing but the transport keepalive (TCP retransmission timeouts, ~15 min, are beyond every deadline)",
        "grpc-go 1.23 declares a silent connection dead within 2*Time + Timeout; the keepalive parameters are read from the ClientConn by reflection",
    ]
    parts = {"model": part_model, "enqfix": part_model_enqfix, "pinned": lambda c: part_pinned(c, 0), "pinned_b": lambda c: part_pinned(c, 1), "replay": part_replay, "random": part_random,
             "keepalive": part_keepalive, "deps": part_deps, "largeset": part_largeset, "parked": part_parked,
             "kinds": part_kinds, "latestart": part_latestart, "model_kinds": part_model_kinds}
    parts["model_deps"] = part_model_deps
    if ctx.thorough:
        parts["model_async_live"] = part_async_converges
        parts["model_live"] = part_model_live
        parts["e2e"] = part_e2e
        parts["blackhole"] = part_blackhole
    res = {}
    with cf.ThreadPoolExecutor(max_workers=len(parts)) as ex:
        futs = {name: ex.submit(fn, ctx) for name, fn in parts.items()}
        errs = []
        for name, fu in futs.items():
            try:
                res[name] = fu.result()
            except kit.Inconclusive as e:
                errs.append("%s: %s" % (name, e))
        if errs:
            raise kit.Inconclusive(" | ".join(errs))
    ctx.cov["exhaustive"] = True
    ctx.cov["anti_vacuity"] = dict(res["pinned"], **res["pinned_b"])

    # ---- spec -> code
    scripts, hists, results, variants, nval, nev = res["replay"]
    stats = {}
    followed = 0
    per_kind = {}
    for sc, hist, r in zip(scripts, hists, results):
        o = r["out"]
        ctx.case(key=step_key(sc["steps"]), nontrivial=nontrivial_script(sc["steps"], hist))
        pk = per_kind.setdefault(sc["kind"], {"n": 0, "followed": 0, "stuck": 0, "out_of_sync": 0, "in_sync": 0})
        pk["n"] += 1
        if r["followed"]:
            followed += 1
            pk["followed"] += 1
            ctx.cov["traces_validated_against_impl"] += 1
        pk["stuck" if o["stuck"] else ("in_sync" if o["inSync"] else "out_of_sync")] += 1
        o_small = dict(o)
        o_small["trace"] = o["trace"][-60:]
        judge(ctx, "behaviour %d (%s)" % (sc["id"], sc["kind"]), r, o,
              {"behaviour": sc, "result": dict(r, out=o_small)}, stats)
    ctx.cov["replay"] = {"behaviours": len(scripts), "followed_the_model_step_by_step": followed, "per_kind": per_kind,
                         "verdicts": dict(stats), "traces_validated_by_tlc": nval, "trace_events": nev,
                         "model_variant_explaining_traces": sorted(variants)}
    if scripts:
        ctx.sample({"behaviour": [[s["a"], s.get("kind", ""), s.get("s", ""), s.get("S", ""), s.get("U", "")] for s in scripts[0]["steps"]],
                    "followed": results[0]["followed"], "stuck": results[0]["out"]["stuck"], "diag": results[0]["out"].get("diag"),
                    "inSync": results[0]["out"]["inSync"]})
    if followed < len(scripts) * 0.4:
        raise kit.Inconclusive("replay driver unhealthy: %d of %d behaviours followed step by step" % (followed, len(scripts)))

    # ---- code -> spec
    rres, rvariants, rnev = res["random"]
    rstats = {}
    nstuck = 0
    for r in rres:
        o = r["out"]
        ctx.case(key="random/%d/%d" % (r["seed"], len(o["trace"])), nontrivial=o["calls"] > 16 or o["fails"] > 0)
        o_small = dict(o)
        o_small["trace"] = o["trace"][-80:]
        judge(ctx, "random history seed=%d (%s)" % (r["seed"], r["profile"]), r, o,
              {"history": dict(r, out=o_small)}, rstats)
        nstuck += 1 if o["stuck"] else 0
        ctx.cov["traces_validated_against_impl"] += 1
    ctx.cov["random"] = {"histories": len(rres), "caller_operations": sum(r["out"]["calls"] for r in rres),
                         "failures_injected": sum(r["out"]["fails"] for r in rres),
                         "streams": sum(r["out"]["streams"] for r in rres),
                         "largest_request": max(r["out"]["maxBatch"] for r in rres),
                         "verdicts": dict(rstats), "trace_events": rnev,
                         "model_variant_explaining_traces": sorted(rvariants)}
    if rres:
        r0 = rres[0]
        ctx.sample({"random_history": r0["profile"], "calls": r0["out"]["calls"], "streams": r0["out"]["streams"],
                    "stuck": r0["out"]["stuck"], "inSync": r0["out"]["inSync"],
                    "first_events": [[e["ev"], e.get("kind", ""), e.get("s", "")] for e in r0["out"]["trace"][:12]]})

    # ---- end to end
    if "e2e" in res:
        estats = {}
        for r in res["e2e"]:
            ctx.case(key="e2e/" + r["name"], nontrivial=True)
            if r.get("err"):
                raise kit.Inconclusive("e2e scenario %s: %s" % (r["name"], r["err"]))
            sigs = {scope: (classify_stuck(o) if o["stuck"] else None) for scope, o in r["clients"].items()}
            for scope, o in r["clients"].items():
                if o["stuck"] and sigs[scope] != SIG_DEADLOCK and SIG_DEADLOCK in sigs.values():
                    continue   # the hook is blocked inside the other client: a consequence, not a second finding
                judge(ctx, "end-to-end scenario %s (%s stream, real gRPC)" % (r["name"], scope), {"deadline_s": r["deadline_s"]}, o,
                      {"scenario": r["name"], "scope": scope, "result": o}, estats)
        ctx.cov["e2e"] = {"scenarios": [r["name"] for r in res["e2e"]], "verdicts": estats}

    # ---- the dependency side
    dscripts, dres = res["deps"]
    dstats, dkinds, dfollowed = {}, {}, 0
    for sc, r in zip(dscripts, dres):
        ctx.case(key="deps/" + json.dumps(sc["steps"], sort_keys=True), nontrivial=sum(1 for st in sc["steps"] if st["a"] == "dep") >= 2)
        pk = dkinds.setdefault(sc["kind"].split("/")[0], {"n": 0, "followed": 0, "in_sync": 0, "violating": 0})
        pk["n"] += 1
        if r["followed"]:
            pk["followed"] += 1
            dfollowed += 1
        bad = False
        sigs = {scope: (classify_stuck(o) if o["stuck"] else None) for scope, o in r["clients"].items()}
        for scope, o in sorted(r["clients"].items()):
            what = "dependency script %d (%s), %s stream" % (sc["id"], sc["kind"], scope)
            art = {"script": sc, "result": r}
            if o["stuck"]:
                bad = True
                roots = {SIG_DEADLOCK, SIG_NORETRY, SIG_RLOCK} & set(sigs.values())
                if roots and sigs[scope] not in roots:
                    continue   # the hook is blocked behind the other client's fault: a consequence, not a second finding
                judge(ctx, what, r, o, art, dstats)
            elif r["setDiffers"].get(scope):
                bad = True
                sub, deps = set(o["subscribed"] or []), set(r["deps"])
                dstats[SIG_DEPORDER] = dstats.get(SIG_DEPORDER, 0) + 1
                ctx.violation(SIG_DEPORDER,
                              "%s: every dependency message has been delivered and the clients are at rest, but the client's subscribed set "
                              "differs from the last dependency set (extra %s, missing %s; the stream carries extra %s, missing %s): "
                              "the Subscribe/Unsubscribe calls of consecutive dependency messages were not applied in order"
                              % (what, sorted(sub - deps)[:4], sorted(deps - sub)[:4], o["extra"][:4], o["missing"][:4]), art)
            else:
                judge(ctx, what, r, o, art, dstats)
                bad = bad or not o["inSync"]
        pk["violating" if bad else "in_sync"] += 1
        if not bad and r["followed"]:
            ctx.cov["traces_validated_against_impl"] += 1
    ctx.cov["deps"] = {"scripts": len(dscripts), "followed": dfollowed, "per_kind": dkinds, "verdicts": dstats,
                       "mandatory_strata": [sc["kind"] for sc in dscripts if sc["kind"].startswith("stratum/")]}
    if dscripts:
        ctx.sample({"dependency_script": dscripts[0]["kind"], "messages": dres[0]["messages"], "deps": len(dres[0]["deps"]),
                    "config_stream_in_sync": dres[0]["clients"]["config"]["inSync"], "set_differs": dres[0]["setDiffers"]})

    # ---- a large set through the production dial path
    lg = res["largeset"]
    if lg.get("err"):
        raise kit.Inconclusive("large-set scenario: " + lg["err"])
    ctx.case(key="e2e/" + lg["name"], nontrivial=True)
    ctx.cov["largeset"] = {k: lg[k] for k in ("name", "services", "nameBytes", "recovered", "elapsed_s", "streamsAfter")}
    if not lg["recovered"]:
        ctx.violation(SIG_LARGE,
                      "%s: %d services (%d bytes of names) were subscribed incrementally on the first streams; %.0f s after the server "
                      "ended those streams no new stream carries the set (service streams seen by the server: %s; config stream misses %s)"
                      % (lg["name"], lg["services"], lg["nameBytes"], lg["elapsed_s"], lg["streamsAfter"],
                         lg["clients"]["config"]["missing"][:2]), {"scenario": lg})
    elif lg["elapsed_s"] > lg["deadline_s"]:
        raise kit.Inconclusive("large-set scenario recovered only after %.0f s: machine too loaded to decide" % lg["elapsed_s"])
    else:
        ctx.cov["traces_validated_against_impl"] += 1

    # ---- the real server ends streams with the status codes; the server is down when the proxy starts
    kstats = {}
    for r in res["kinds"]:
        if r.get("err"):
            raise kit.Inconclusive("status-code scenario %s: %s" % (r["name"], r["err"]))
        ctx.case(key="e2e/" + r["name"], nontrivial=True)
        if not r["recovered"]:
            kstats[r["name"]] = "never"
            ctx.violation(SIG_NORETRY, "%s (real gRPC): %.0f s after the server ended the %s stream(s) with %s no stream carries the dependency set "
                          "(service streams seen by the server: %s, missing on the config stream: %s)"
                          % (r["name"], r["elapsed_s"], r["target"], r["kind"], r["streams"], (r.get("missing") or [])[:4]), {"scenario": r})
        elif r["elapsed_s"] > r["deadline_s"]:
            raise kit.Inconclusive("status-code scenario %s recovered only after %.0f s: machine too loaded to decide" % (r["name"], r["elapsed_s"]))
        else:
            ctx.cov["traces_validated_against_impl"] += 1
    ctx.cov["status_codes"] = {"scenarios": [r["name"] for r in res["kinds"]], "not_recovered": kstats}
    lstats = {}
    for r in res["latestart"]:
        if r.get("err"):
            raise kit.Inconclusive("late-start scenario %s: %s" % (r["name"], r["err"]))
        ctx.case(key="e2e/" + r["name"], nontrivial=True)
        lstats[r["name"]] = {"recovered": r["recovered"], "elapsed_s": r["elapsed_s"], "config_new_s": r["configNew_s"]}
        if not r["recovered"]:
            ctx.violation(SIG_START, "%s: config.New ran (%.1f s) while nothing listened on the endpoint; %.0f s after the discovery server started "
                          "listening there no stream carries the dependency set (service streams seen by the server: %s)"
                          % (r["name"], r["configNew_s"], r["elapsed_s"], r["streams"]), {"scenario": r})
        elif r["elapsed_s"] > r["deadline_s"]:
            raise kit.Inconclusive("late-start scenario %s recovered only after %.0f s" % (r["name"], r["elapsed_s"]))
        else:
            ctx.cov["traces_validated_against_impl"] += 1
    ctx.cov["late_start"] = lstats

    # ---- the read section of resubscribe
    pk = res["parked"]
    ctx.case(key="parked/%d" % pk["rounds"], nontrivial=True, n=pk["rounds"])
    ctx.cov["parked"] = {k: pk[k] for k in ("rounds", "stuck", "firstStuckRound", "outOfSync", "subscribesPerRound")}
    if pk["stuck"] or pk["outOfSync"]:
        judge(ctx, "parked-caller round %d (%d subscribes before the stream is granted, client logging at DEBUG into a slow sink)"
              % (pk["firstStuckRound"], pk["subscribesPerRound"]), pk, pk["out"], {"round": pk}, ctx.cov["parked"].setdefault("verdicts", {}))
    else:
        ctx.cov["traces_validated_against_impl"] += pk["rounds"]

    # ---- silent failures on the production constructor's connection
    judge_keepalive(ctx, res["keepalive"])
    if "blackhole" in res:
        bh = res["blackhole"]
        if bh.get("err"):
            raise kit.Inconclusive("black-hole scenario: " + bh["err"])
        ctx.case(key="e2e/" + bh["name"], nontrivial=True)
        ctx.cov["blackhole"] = {k: bh[k] for k in ("name", "deadline_s", "recovered", "elapsed_s", "connections", "streamsAfter", "keepalive")}
        if not bh["recovered"]:
            ctx.violation(SIG_SILENT,
                          "%s: %.0f s (deadline 90 s) after the established connection went silent (no FIN/RST; new connections possible at once) "
                          "no new stream carries the dependency set: service streams seen by the server %s, connections made %d; "
                          "config stream: missing %s; ClientConn keepalive Time=%ss Timeout=%ss"
                          % (bh["name"], bh["elapsed_s"], bh["streamsAfter"], bh["connections"],
                             bh["clients"]["config"]["missing"][:8], bh["keepalive"].get("time_s"), bh["keepalive"].get("timeout_s")),
                          {"scenario": bh})
        elif bh["elapsed_s"] > SILENT_DEADLINE_S:
            raise kit.Inconclusive("black-hole scenario: new streams carried the dependency set only after %.0f s (deadline %d s, "
                                   "keepalive needs at most %.0f s): machine too loaded to decide" %
                                   (bh["elapsed_s"], SILENT_DEADLINE_S, bh["keepalive"].get("detect_within_s", -1)))
        else:
            ctx.cov["traces_validated_against_impl"] += 1

    if ctx.cov.get("model_drift") and not ctx.violations and not ctx.known_hits:
        raise kit.Inconclusive("recorded traces are not behaviours of any variant of Discovery.tla and no execution violated the "
                               "property predicate (model drift): %s" % ctx.cov["model_drift"][0])
    ctx.cov["rule"] = ("exhaustive: every reachable state of Discovery.tla for 3 services, capacity 2, <=6 (quick: 4) caller operations, "
                       "<=2 (quick: 1) failures (creation refused, stream broken, stream silent); liveness at <=5 operations. cases = behaviours emitted by TLC (all counterexample states of the pinned variants + seeded "
                       "simulations of the intended design, distinct by their environment-level step sequence; non-trivial = contains a "
                       "failure, a request naming >=2 model services or a full queue) replayed on the real client, plus seeded random "
                       "histories on the real client (distinct by seed; non-trivial = more calls than the queue holds or a failure), "
                       "each judged by the property's predicate and validated by TLC against DiscoveryTrace")
