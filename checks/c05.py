"""C05 - TCP: bytes are relayed unmodified, in order, both ways, with half-close.

spec/tcp/Relay.tla (one relayed connection: two sides, two copy loops with a bounded buffer, closeWrite/closeRead at the
end of a direction, idle timeout, host-removed watcher)
 1. exhaustive TLC runs: all size classes {0,1,buf-1,buf,buf+1,3*buf+7} with <= 3 chunks in one direction against a
    one-chunk opposite direction (both ways), both directions with all classes and <= 2 chunks (thorough), all
    half-close / close / abrupt-close orders with short reads (plus idle timeout and host removal in the thorough tier);
    invariants PrefixBothWays, InFlightOrdered, EOFAfterAllBytes, ResetOnlyIfDisturbed, action property NoBytesAfterEOF,
    liveness OtherDirectionKeepsFlowing, EOFPropagates, EventuallyReleased;
 2. three broken variants of the model (closeBoth, sharedBuf, dropTail) must each yield their counterexample;
 3. spec -> code: RelayGen emits behaviours (sends, half-closes, closes and the observations between them); every
    behaviour is replayed through the real TCP processor with a scripted client and backend, sizes concretised with the
    real 16 KiB buffer (0, 1, 16383, 16384, 16385, 3*16384+7);
 4. code -> spec: the replays, seeded random pacing/fragmentation runs (multi-buffer transfers, concurrent relays on the
    shared buffer pool, random half-close orders) and idle-timeout / host-removal scenarios are recorded as traces and
    validated by TLC against RelayObs (RelayObsTrace); hand-made bad traces must be rejected.
"""
import json
import os
import re

import kit

LEVEL = "model_checking"

BUF = 16384
# Gen configurations use Buf = 3: model chunk size -> real size
REAL = {0: 0, 1: 1, 2: BUF - 1, 3: BUF, 4: BUF + 1, 16: 3 * BUF + 7}

INVS = ["PrefixBothWays", "InFlightOrdered", "EOFAfterAllBytes", "ResetOnlyIfDisturbed", "ShutdownOnlyAtEnd", "TEMPORAL",
        "NoBytesAfterEOF", "OtherDirectionKeepsFlowing", "EverythingDelivered", "EOFPropagates"]


def violated_names(r):
    names = set(r.violated)
    for m in re.finditer(r"Error: Temporal property (\S+) was violated", r.stdout):
        names.add(m.group(1))
    for m in re.finditer(r"Error: Action property (\S+) is violated", r.stdout):
        names.add(m.group(1))
    return names


def reject_index(r):
    """1-based index of the first event the trace specification could not follow (TLC wraps long tuples)."""
    m = re.search(r'<<\s*"@@REJECT",\s*(\d+),', r.stdout)
    return int(m.group(1)) if m else None


def mc_expect(ctx, cfg, expected, timeout=300):
    """A broken variant of the model must violate one of `expected`."""
    r = ctx.tlc("tcp", "Relay", cfg, workers=4, timeout=timeout)
    names = violated_names(r)
    if r.timeout or not (names & set(expected)):
        raise kit.Inconclusive("TLC tcp/Relay %s: expected a counterexample for %s, got %s %s"
                               % (cfg, expected, sorted(names), r.error[:300]))
    return names & set(expected)


def concretise(beh):
    """Model sizes -> real sizes; recv/eof offsets -> real stream offsets (catch-up points are chunk boundaries)."""
    cum_m = {"client": 0, "backend": 0}
    cum_r = {"client": 0, "backend": 0}
    bound = {"client": {0: 0}, "backend": {0: 0}}
    peer = {"client": "backend", "backend": "client"}
    out = []
    for s in beh:
        e, x, n = s["e"], s["x"], s["n"]
        if e == "send":
            cum_m[x] += n
            cum_r[x] += REAL[n]
            bound[x][cum_m[x]] = cum_r[x]
            out.append({"e": e, "x": x, "n": REAL[n]})
        elif e in ("recv", "eof", "rst"):
            b = bound[peer[x]]
            if n not in b:      # inside a chunk (does not happen at catch-up points): the boundary before
                n = max(k for k in b if k <= n)
            out.append({"e": e, "x": x, "n": b[n]})
        elif e in ("fin", "close"):
            out.append({"e": e, "x": x, "n": n})
        # idle / remove are not replayed here (c05-special)
    return out


def gen(ctx, cfg, mode, num=None, seed=None, timeout=300):
    if mode == "sim":
        r = ctx.tlc("tcp", "RelayGen", cfg, mode="sim", workers=1, sim_num=num, sim_depth=200, seed=seed, deadlock=False,
                    timeout=timeout)
    else:
        r = ctx.tlc("tcp", "RelayGen", cfg, mode="mc", workers=4, deadlock=False, timeout=timeout)
    behs = [p for (tag, p) in r.prints if tag == "BEH"]
    if r.timeout or (r.error and not behs):
        raise kit.Inconclusive("behaviour generation %s failed: %s" % (cfg, r.error[:500]))
    return behs


def direction_of_receiver(x):
    return "c2s" if x == "backend" else "s2c"


def judge(ctx, res, what):
    """Turn what the harness observed into violations (the property predicate)."""
    flagged = False
    ident = {"kind": res.get("kind"), "id": res.get("id"), "seed": res.get("seed"), "script": res.get("script")}
    if res.get("bad"):
        b = res["bad"]
        flagged = True
        ctx.violation("corrupt/%s" % direction_of_receiver(b["x"]),
                      "%s received a wrong byte at stream offset %d (got %d want %d; data looks like: %s) [%s]"
                      % (b["x"], b["off"], b["got"], b["want"], b.get("looksLike") or "?", what),
                      {"result": res, "case": ident})
    for x in res.get("earlyEOF") or []:
        flagged = True
        ctx.violation("early-eof/%s" % direction_of_receiver(x),
                      "%s saw EOF before the peer finished / before all bytes arrived (got %d of %d) [%s]"
                      % (x, res[x]["got"], res["backend" if x == "client" else "client"]["sent"], what),
                      {"result": res, "case": ident})
    for x in res.get("rstNoCause") or []:
        flagged = True
        ctx.violation("reset-without-cause/%s" % x, "%s saw a connection reset although nobody closed abruptly [%s]" % (x, what),
                      {"result": res, "case": ident})
    for st in res.get("stalls") or []:
        flagged = True
        d = direction_of_receiver(st["x"])
        if st["want"] == "eof":
            sig = "eof-not-propagated/%s" % d
            txt = "%s never saw EOF after the peer finished" % st["x"]
        else:
            sig = "stall/%s%s" % (d, "/after-other-direction-finished" if st.get("afterOtherDone") else "")
            txt = "%s received only %d of %d bytes (%s)" % (st["x"], st["got"], st["sent"], st["want"])
        ctx.violation(sig, txt + " [%s]" % what, {"result": res, "case": ident})
    for n in res.get("notes") or []:
        if "after EOF" in n:
            flagged = True
            ctx.violation("bytes-after-eof", n + " [%s]" % what, {"result": res, "case": ident})
    for x in ("client", "backend"):
        for k in ("rdErr", "wrErr"):
            if res[x].get(k) and not flagged:
                if "timeout" in res[x][k]:
                    flagged = True
                    ctx.violation("io-stall/%s" % x, "%s: %s [%s]" % (x, res[x][k], what), {"result": res, "case": ident})
                else:
                    ctx.notes.append("%s %s: %s %s" % (what, res.get("id"), x, res[x][k]))
    return flagged


def read_results(ctx, path, label, expected_n):
    results = kit.read_ndjson(path) if os.path.exists(path) else []
    errs = [r for r in results if r.get("err")]
    if len(results) < expected_n or len(errs) > max(2, expected_n // 50):
        raise kit.Inconclusive("%s: %d of %d results, %d harness errors (%s)" % (
            label, len(results), expected_n, len(errs), errs[0]["err"] if errs else ""))
    for r in errs:
        ctx.notes.append("%s %s: %s" % (label, r.get("id"), r["err"]))
    return [r for r in results if not r.get("err")]


NEGATIVE_TRACES = {
    # name -> events that RelayObs must reject (last event is the offending one)
    "early-eof": [("send", "client", 10, 0, 0), ("recv", "backend", 0, 0, 4), ("fin", "client", 0, 0, 0),
                  ("eof", "backend", 0, 0, 0)],
    "gap": [("send", "client", 10, 0, 0), ("recv", "backend", 0, 1, 5)],
    "duplicate": [("send", "client", 10, 0, 0), ("recv", "backend", 0, 0, 5), ("recv", "backend", 0, 3, 8)],
    "invented": [("send", "client", 4, 0, 0), ("recv", "backend", 0, 0, 5)],
    "after-eof": [("send", "client", 4, 0, 0), ("fin", "client", 0, 0, 0), ("recv", "backend", 0, 0, 4),
                  ("eof", "backend", 0, 0, 0), ("send", "backend", 3, 0, 0), ("recv", "backend", 0, 4, 5)],
    "reset-without-cause": [("send", "client", 4, 0, 0), ("rst", "client", 0, 0, 0)],
    "other-direction-cut": [("fin", "client", 0, 0, 0), ("eof", "backend", 0, 0, 0), ("send", "backend", 9, 0, 0),
                            ("fin", "backend", 0, 0, 0), ("recv", "client", 0, 0, 3), ("end", "", 0, 0, 0)],
    "eof-before-fin": [("send", "client", 4, 0, 0), ("recv", "backend", 0, 0, 4), ("eof", "backend", 0, 0, 0)],
}


def mk_events(tuples, c=1):
    return [{"ev": ev, "c": c, "x": x, "n": n, "from": f, "to": t} for (ev, x, n, f, t) in tuples]


def run(ctx):
    ctx.build()
    ctx.assumptions += [
        "copy buffer scaled from 16384 to Buf=3 (size classes 0,1,2,3,4,16) resp. Buf=2 in the exhaustive model; the replay uses "
        "the real sizes 0,1,16383,16384,16385,49159",
        "kernel TCP behaviour on loopback is trusted (FIN after data, RST for data sent to a closed socket); kernel socket "
        "buffers are unbounded in the model (write-all blocking is exercised only by the random runs with slow readers)",
        "3 chunks x all size classes are enumerated exhaustively for one direction at a time (the other direction sends one "
        "buf+1 chunk); both directions with all classes are enumerated with <= 2 chunks each (thorough tier); the full "
        "3 x 3 product (> 2*10^7 states) is only sampled by TLC simulation (Gen_Relay_sizes)",
        "idle timeout and host removal are modelled as environment events; on the code they are exercised by dedicated "
        "scenarios with a 400 ms idle timeout (c05-special), not in the behaviour replay",
    ]
    th = ctx.thorough

    # 1. exhaustive model checking
    if th:
        mcs = ["MC_Relay_sizes_c2s_live.cfg", "MC_Relay_sizes_s2c_live.cfg", "MC_Relay_both2.cfg", "MC_Relay_orders_quick.cfg",
               "MC_Relay_orders.cfg"]
    elif ctx.seed % 2:
        mcs = ["MC_Relay_sizes_c2s.cfg", "MC_Relay_sizes_s2c_quick.cfg", "MC_Relay_orders_quick.cfg"]
    else:
        mcs = ["MC_Relay_sizes_s2c.cfg", "MC_Relay_sizes_c2s_quick.cfg", "MC_Relay_orders_quick.cfg"]
    for cfg in mcs:
        cov = th and cfg == "MC_Relay_orders_quick.cfg"
        r = ctx.mc("tcp", "Relay", cfg, workers=8, timeout=900, coverage=cov)
        names = violated_names(r)
        if names:
            raise kit.Inconclusive("TLC tcp/Relay %s: model violates %s" % (cfg, sorted(names)))
        if cov and r.coverage:
            # actions that need WithIdle / WithRemove are disabled in this configuration
            ctx.check_vacuity(r, "Relay", ignore=("IdleTimeout", "HostRemoved"))
    if th:
        ctx.mc("tcp", "RelayObs", "MC_RelayObs.cfg", workers=4, timeout=300, count=False)
    # 2. broken variants must be caught by the model's properties
    caught = {}
    muts = [("closeBoth", ["OtherDirectionKeepsFlowing"]), ("sharedBuf", ["PrefixBothWays"]),
            ("dropTail", ["EOFAfterAllBytes", "EverythingDelivered"])]
    if not th:
        muts = [muts[ctx.seed % 3]]          # one per quick run (rotating with the seed), all three in the thorough tier
    for m, expected in muts:
        caught[m] = sorted(mc_expect(ctx, "MC_Relay_mut_%s.cfg" % m, expected))
    ctx.cov["model_mutants_caught"] = caught
    ctx.cov["exhaustive"] = True

    # 3. behaviours -> replay on the real TCP processor
    raw = []
    raw += [("orders", b) for b in gen(ctx, "Gen_Relay_orders_abrupt.cfg" if th else "Gen_Relay_orders.cfg", "mc")]
    raw += [("sizes", b) for b in gen(ctx, "Gen_Relay_sizes.cfg", "sim", num=1500 if th else 150, seed=ctx.seed)]
    if th:
        raw += [("sizes-abrupt", b) for b in gen(ctx, "Gen_Relay_sizes_abrupt.cfg", "sim", num=600, seed=ctx.seed + 7)]
    seen = set()
    behs = []
    for src, b in raw:
        key = json.dumps([(s["e"], s["x"], s["n"]) for s in b])
        if key in seen or not b:
            continue
        seen.add(key)
        behs.append({"id": len(behs) + 1, "src": src, "model": b, "steps": concretise(b)})
    if len(behs) < (1000 if th else 300):
        raise kit.Inconclusive("only %d distinct behaviours emitted" % len(behs))
    # every order of the two sides' first half-close / close must be present
    orders = set()
    for b in behs:
        orders.add(tuple((s["e"], s["x"]) for s in b["model"] if s["e"] in ("fin", "close")))
    ctx.cov["distinct_close_orders"] = len(orders)
    for pre in ((("fin", "client"), ("fin", "backend")), (("fin", "backend"), ("fin", "client"))):
        if not any(o[:2] == pre for o in orders):
            raise kit.Inconclusive("no behaviour with the half-close order %s" % (pre,))
    for x in ("client", "backend"):   # half-close first, full close later, peer still sending in between
        if not any(("fin", x) in o and ("close", x) in o for o in orders):
            raise kit.Inconclusive("no behaviour in which %s half-closes and later closes" % x)
    bfile = os.path.join(ctx.work, "behaviours.ndjson")
    kit.write_ndjson(bfile, [{"id": b["id"], "steps": b["steps"]} for b in behs])
    rfile = os.path.join(ctx.work, "replay.ndjson")
    tfile = os.path.join(ctx.work, "replay-trace.ndjson")
    ctx.harness(["c05-replay", "-in", bfile, "-out", rfile, "-trace", tfile, "-par", "16"], timeout=900)
    results = read_results(ctx, rfile, "replay", len(behs))
    by_id = {b["id"]: b for b in behs}
    clean = 0
    for res in results:
        b = by_id[res["id"]]
        m = b["model"]
        nontrivial = (any(s["e"] == "send" and s["n"] > 0 for s in m) and any(s["e"] in ("fin", "close") for s in m))
        ctx.case(key=[(s["e"], s["x"], s["n"]) for s in m], nontrivial=nontrivial)
        if not judge(ctx, res, "replay of behaviour %d (%s)" % (b["id"], b["src"])):
            clean += 1
    ctx.cov["replay"] = {"behaviours": len(behs), "replayed": len(results), "property_held": clean,
                         "from_exhaustive_orders": sum(1 for b in behs if b["src"] == "orders"),
                         "from_size_simulation": sum(1 for b in behs if b["src"] != "orders")}
    ctx.sample({"behaviour_model": behs[len(behs) // 2]["model"], "behaviour_real": behs[len(behs) // 2]["steps"],
                "result": next((r for r in results if r["id"] == behs[len(behs) // 2]["id"]), None)})
    events = kit.read_ndjson(tfile) if os.path.exists(tfile) else []
    all_results = {r["id"]: (r, "replay") for r in results}

    # 4a. seeded random pacing / fragmentation runs
    rnd_sets = ([("rnd64", 9, 64, 2 << 20, 10), ("rnd8big", 3, 8, 4 << 20, 0)] if th else [("rnd16", 3, 16, 1 << 20, 10)])
    base = 100000
    for label, rounds, conc, maxbytes, abrupt in rnd_sets:
        out = os.path.join(ctx.work, "%s.ndjson" % label)
        tr = os.path.join(ctx.work, "%s-trace.ndjson" % label)
        ctx.harness(["c05-random", "-rounds", str(rounds), "-conc", str(conc), "-maxbytes", str(maxbytes), "-abrupt", str(abrupt),
                     "-base", str(base), "-out", out, "-trace", tr], timeout=900)
        base += rounds * conc + 10
        rs = read_results(ctx, out, label, rounds * conc)
        nbytes = 0
        for res in rs:
            nbytes += res["client"]["got"] + res["backend"]["got"]
            big = res["client"]["sent"] > BUF or res["backend"]["sent"] > BUF
            ctx.case(key=["random", label, res["seed"]], nontrivial=big)
            judge(ctx, res, "random run %s seed %s: %s" % (label, res.get("seed"), res.get("script")))
            all_results[res["id"]] = (res, label)
        ctx.cov.setdefault("random", {})[label] = {"relays": len(rs), "concurrent": conc, "bytes_verified": nbytes,
                                                   "with_abrupt_close": sum(1 for r in rs if r["client"]["abrupt"] or r["backend"]["abrupt"]),
                                                   "max_stream": max([max(r["client"]["sent"], r["backend"]["sent"]) for r in rs] or [0])}
        if rs:
            ctx.sample({"random_run": {k: rs[0][k] for k in ("id", "seed", "script", "client", "backend")}})
        events += kit.read_ndjson(tr) if os.path.exists(tr) else []
    # 4b. idle timeout per direction, host removal
    n_sp = 5 if th else 1
    out = os.path.join(ctx.work, "special.ndjson")
    tr = os.path.join(ctx.work, "special-trace.ndjson")
    ctx.harness(["c05-special", "-n", str(n_sp), "-idle-ms", "400", "-out", out, "-trace", tr], timeout=600)
    rs = read_results(ctx, out, "special", 4 * n_sp)
    skipped_ids = set()
    kinds = {}
    for res in rs:
        if res.get("skipped"):
            ctx.notes.append("special %s %s: %s" % (res["kind"], res["id"], res["skipped"]))
            skipped_ids.add(res["id"])
            continue
        kinds[res["kind"]] = kinds.get(res["kind"], 0) + 1
        ctx.case(key=["special", res["kind"], res["id"]], nontrivial=True)
        judge(ctx, res, "scenario %s" % res["kind"])
        all_results[res["id"]] = (res, "special")
    ctx.cov["special"] = kinds
    if len(skipped_ids) > 2 * n_sp:
        raise kit.Inconclusive("idle-timeout scenarios could not be paced (%d skipped)" % len(skipped_ids))
    events += [e for e in (kit.read_ndjson(tr) if os.path.exists(tr) else []) if e["c"] not in skipped_ids]

    # 4c. code -> spec: every recorded connection trace must be a behaviour of RelayObs
    n_conn = len(set(e["c"] for e in events))
    remaining = events
    rejected = 0
    while remaining and rejected < 5:
        tr_res = ctx.validate_traces("tcp", "RelayObsTrace", "Trace_RelayObs.cfg", remaining,
                                     n_traces=len(set(e["c"] for e in remaining)), timeout=900)
        if tr_res.ok:
            break
        rejected += 1
        idx = reject_index(tr_res)
        if idx is None or idx < 1 or idx > len(remaining):
            raise kit.Inconclusive("trace validation failed without a reject position: %s" % (tr_res.error or tr_res.violated))
        ev = remaining[idx - 1]
        c = ev["c"]
        conn_events = [e for e in remaining if e["c"] == c]
        res, label = all_results.get(c, (None, "?"))
        ctx.violation("trace-rejected/RelayObs/%s" % ev["ev"],
                      "connection %s (%s): event %s is not allowed by RelayObs" % (c, label, json.dumps(ev)),
                      {"event": ev, "connection_trace": conn_events, "result": res})
        # go on with the connections after the rejected one
        last = max(i for i, e in enumerate(remaining) if e["c"] == c)
        remaining = remaining[last + 1:]
    ctx.cov["trace"] = {"connections": n_conn, "events": len(events), "rejected": rejected}
    ctx.sample({"trace_head": events[:8]})

    # 4d. RelayObs must reject hand-made bad traces (the trace specification is not vacuous)
    names = sorted(NEGATIVE_TRACES) if th else [sorted(NEGATIVE_TRACES)[ctx.seed % len(NEGATIVE_TRACES)]]
    for name in names:
        ev = mk_events(NEGATIVE_TRACES[name])
        before = ctx.cov["traces_validated_against_impl"]
        r = ctx.validate_traces("tcp", "RelayObsTrace", "Trace_RelayObs.cfg", ev, n_traces=0, timeout=120)
        ctx.cov["traces_validated_against_impl"] = before
        if r.ok or reject_index(r) != len(ev):
            raise kit.Inconclusive("RelayObs accepted (or rejected too early) the bad trace %r: %s" % (name, reject_index(r)))
    ctx.cov["negative_traces_rejected"] = names
    ctx.cov["rule"] = ("behaviours = every complete behaviour of RelayGen for one buf+1 chunk per direction (all send / half-close / "
                       "close orders, exhaustive) + seeded TLC simulation over <=3 chunks of all size classes per direction; distinct "
                       "by event sequence; non-trivial = carries data and a half-close or close; random runs distinct by seed, "
                       "non-trivial = more than one copy buffer in some direction; each is run through the real TCP processor and "
                       "judged by the property predicate (prefix at every offset, EOF only after all bytes, nothing after EOF, "
                       "delivery after the other direction finished) and by TLC trace validation against RelayObs")
