"""C14 - only supported commands reach backends, and writes only reach masters.

spec/redis/Commands.tla: the Redis 5 command table with Redis' own write/read-only classification, the proxy's
supported set and the locally answered commands; TLC enumerates the whole name space (supported, every other Redis
command, arbitrary names) and emits, per name, the expected class (local / unsupported / forward) and the node
roles a forwarded command may be delivered to under each read strategy; invariants WritesOnlyToMaster,
UnsupportedNeverForwarded, LocalNeverForwarded hold over the table.
Every vector is replayed (lower / UPPER / MiXed case, three argument counts, three read strategies) through real
Redis processors against a simulated cluster with two replicas per master; oracle: the per-node command logs.

spec/redis/Route.tla (+ RouteGen, RouteWin): dispatch and routing decisions of CONCURRENT downstream sessions, one
action per code section of handleRequest / chooseHost (Issue, Dispatch, Lookup, Store one candidate, Pick); invariants
OnlySupportedReachBackends, WritesToOwningMaster, RoutedWithinOwnerFamily; constant SharedScratch (TRUE = candidates
built in one array shared by all sessions) must violate RoutedWithinOwnerFamily; windows W_OverlapForeign,
W_OverlapSame, W_WriteDuringRead, W_RejectDuringRouting must be reachable.  RouteGen behaviours (simulation, plus the
mandatory stratum "every session reads, all shards differ" per layout) are run on real processors: each model session
becomes several real connections that pipeline the session's requests (names drawn from the Commands vectors, all
letter cases) - together where the behaviour overlaps decisions, one after the other where it does not; oracle: every
command that ARRIVES at a node of the simulated cluster is judged by the behaviour's Allowed table (sub-command
`c14-concurrent`), unsupported names must be answered with an error.
The read strategy is configuration of a RUNNING processor: Route.tla has ConfigUpdate (strategy in force changes
between requests and while decisions are in flight; a decision is judged by the strategy in force when it reads it);
constant StickyStrategy (TRUE = decisions keep the configuration object of start-up) must violate
RoutedWithinOwnerFamily.  Behaviours with ConfigUpdate (Gen_RouteUpd / Strata_RouteUpd) are run on ONE running processor
per start-up strategy through the public OnSvcConfigUpdate: arrivals after an update are judged by the new strategy,
arrivals while the update is applied may follow either (mandatory stratum: all six transitions with reads afterwards).
Layouts whose masters have NO replica (2x0) are a mandatory stratum for reads under every strategy.

spec/redis/RouteRefresh.tla (+ RouteRefreshGen): routing across a slot refresh (RefreshBegin = CLUSTER NODES received
by the seed, RefreshEnd = table replaced, Route in between; Reassign changes the replica set of a master whose address
stays); invariant RoutedByTableInForce; constant CandCache ("before" = cached candidates emptied when the refresh
begins: a read during the refresh re-creates the stale entry) must violate it, "after" and "none" are clean; window
W_RouteDuringRefresh must be reachable.  Every behaviour is replayed by `c14-refresh` on a real processor (refresh
triggered through OnSvcHostAdd, the seeds' replies held, reads judged by their arrival).

A death of the process hosting the processors while an item runs, with frames of the code under test on the
panicking goroutine's stack, confirmed by re-running that item alone, is a violation attributed to the item
(`crash/<frame>`: nothing in the property permits a crash); the driver is restarted behind the item.
Owned: spec/redis/Commands.tla, Route.tla, RouteGen.tla, RouteWin.tla, RouteRefresh.tla, RouteRefreshGen.tla,
MC_Commands.cfg, *_Route_*.cfg, *_RouteUpd_*.cfg, *RouteRefresh*.cfg; harness/cases/c14, harness/cmd/c14.
"""
import concurrent.futures as cf
import json
import os
import re
import time

import kit

LEVEL = "model_checking"

FOREIGN = "W_OverlapForeign"
STRATEGIES = ("MASTER", "BOTH", "REPLICA")
REPO_PKG = "github.com/samaritan-proxy/samaritan/"


# --------------------------------------------------------------------------- driver (worker process, crashes)

def crash_of(se):
    """(panic line, first frame of the code under test on the panicking goroutine's stack or None)."""
    lines = se.splitlines()
    for i, l in enumerate(lines):
        if l.startswith("panic:") or l.startswith("fatal error:"):
            frame, seen = None, False
            for m in lines[i + 1:]:
                if m.startswith("goroutine "):
                    if seen:
                        break
                    seen = True
                    continue
                if seen and m and not m[0].isspace():
                    if m.startswith(REPO_PKG):
                        frame = m[len(REPO_PKG):].strip()
                        if frame.endswith(")") and "(" in frame:
                            frame = frame[:frame.rfind("(")]          # the arguments
                        frame = frame.split("/")[-1]
                        break
            return l.strip(), frame
    return None, None


def drive(ctx, sub, args, outfile, n_items=None, timeout=1800, max_crashes=4):
    """Runs a sub-command of the harness (the process hosts the processors) over its items.  Returns (records,
    crashes): a crash = {id, what, panic, frame, confirmed}.  The driver writes {"begin": id} before each item; after
    a death in an item it is re-run alone (confirmation) and the driver is restarted behind it."""
    records, crashes, start = [], [], 1
    for attempt in range(max_crashes + 1):
        part = "%s.%d" % (outfile, attempt)
        if os.path.exists(part):
            os.remove(part)
        rc, so, se = ctx.harness([sub] + args + ["-out", part, "-from", str(start)], timeout=timeout, allow_fail=True)
        recs = kit.read_ndjson(part) if os.path.exists(part) else []
        begun = None
        for r in recs:
            if "total" in r and len(r) == 1:
                n_items = r["total"]
            elif "begin" in r:
                begun = r
            else:
                records.append(r)     # (an item may write several records: the item in progress is the last one begun)
        if rc == 0:
            return records, crashes
        panic, frame = crash_of(se)
        if not panic or not frame or begun is None:
            if crashes:
                ctx.notes.append("%s: driver died outside the code under test after %d crashes: %s" % (sub, len(crashes), se[-600:]))
                return records, crashes
            raise kit.Inconclusive("harness %s exited %d: %s" % (sub, rc, (se or so)[-2500:]))
        # confirmation: the item alone
        cpart = "%s.confirm%d" % (outfile, attempt)
        rc2, so2, se2 = ctx.harness([sub] + args + ["-out", cpart, "-from", str(begun["begin"]), "-to", str(begun["begin"])],
                                    timeout=timeout, allow_fail=True)
        panic2, frame2 = crash_of(se2)
        crashes.append({"id": begun["begin"], "what": begun.get("what", ""), "panic": panic, "frame": frame,
                        "confirmed": rc2 != 0 and frame2 == frame, "stack": se[se.find(panic):][:3000]})
        kit.log("[crash] %s item %s (%s): %s in %s, confirmed=%s" % (sub, begun["begin"], begun.get("what", ""), panic, frame, crashes[-1]["confirmed"]))
        start = begun["begin"] + 1
        if n_items is not None and start > n_items:
            return records, crashes
    ctx.notes.append("%s: the process hosting the processors died %d times; items from %d on were not run" % (sub, len(crashes), start))
    return records, crashes


def judge_crashes(ctx, sub, crashes):
    """A confirmed death with frames of the code under test is a violation attributed to the item; an unconfirmed one
    is reported as not reproducible (infrastructure)."""
    seen = set()
    unconfirmed = []
    for c in crashes:
        if not c["confirmed"]:
            unconfirmed.append(c)
            continue
        sig = "crash/%s" % c["frame"]
        if (sig, sub) in seen:
            continue
        seen.add((sig, sub))
        n = len([x for x in crashes if x["confirmed"] and x["frame"] == c["frame"]])
        ctx.violation(sig, "%s: the process hosting the proxy died (%s, in %s) while it ran: %s; reproduced when the item was re-run alone; "
                      "%d item(s) of this sub-command died this way" % (sub, c["panic"], c["frame"], c["what"], n), c)
    return unconfirmed


# --------------------------------------------------------------------------- TLC

def route_model(ctx):
    """Exhaustive runs of Route.tla / RouteRefresh.tla: the designs are clean, every broken variant yields its
    counterexample, every window is reachable."""
    own = ["RoutedWithinOwnerFamily"]
    jobs = [("Route", "MC_Route_fixed.cfg", None, True, True),
            ("Route", "MC_Route_norep.cfg", None, True, False),
            ("Route", "MC_Route_update.cfg", None, True, False),
            ("Route", "MC_Route_shared.cfg", own, False, False),
            ("Route", "MC_Route_sticky.cfg", own, False, False),
            ("RouteRefresh", "MC_RouteRefresh_fixed.cfg", None, True, True),
            ("RouteRefresh", "MC_RouteRefresh_cachebefore.cfg", ["RoutedByTableInForce"], False, False)]
    # (quick: the reachability of W_RouteDuringRefresh is shown by the behaviours of the stratum, which all pass through it)
    if ctx.thorough:
        jobs += [("RouteRefresh", "MC_RouteRefresh_window.cfg", ["WindowNeverReached"], False, False),
                 ("Route", "MC_Route_fixed_3s.cfg", None, True, False),
                 ("Route", "MC_Route_fixed_3s_all.cfg", None, True, False),
                 ("Route", "MC_Route_update_r2.cfg", None, True, False),
                 ("Route", "MC_Route_shared_3s.cfg", own, False, False),
                 ("RouteRefresh", "MC_RouteRefresh_cacheafter.cfg", None, True, False)]

    def one(j):
        mod, cfg, exp, count, cov = j
        return j, ctx.mc("redis", mod, cfg, expect_violated=exp, count=count, workers=1 if mod == "RouteRefresh" else 2,
                         timeout=600, coverage=cov)

    with cf.ThreadPoolExecutor(max_workers=3) as ex:
        res = list(ex.map(one, jobs))
    for (mod, cfg, exp, count, cov), r in res:
        if cov and r.coverage:
            ctx.check_vacuity(r, mod, ignore=("ConfigUpdate",) if cfg == "MC_Route_fixed.cfg" else ())
        if exp and "WritesToOwningMaster" in r.violated:
            raise kit.Inconclusive("%s: the broken variant must not touch the write path" % cfg)
    r = ctx.tlc("redis", "RouteWin", "MC_Route_traps.cfg", workers=1, timeout=300)
    if "@@UNREACHED" in r.stdout:
        m = re.search(r'@@UNREACHED",\s*(.*?)>>', r.stdout, re.S)
        raise kit.Inconclusive("vacuous model Route: windows never reached: %s" % " ".join((m.group(1) if m else "").split()))
    if not r.ok:
        raise kit.Inconclusive("window reachability run MC_Route_traps.cfg: %s" % (r.error or str(r.violated))[:500])


def simulate(ctx, module, tag, cfgs, depth, seed=None):
    def one(c):
        cfg, num = c
        r = ctx.tlc("redis", module, cfg, mode="sim", workers=1, sim_num=num, sim_depth=depth,
                    seed=ctx.seed if seed is None else seed, deadlock=False, timeout=300)
        behs = [p for (t, p) in r.prints if t == tag]
        if r.timeout or r.violated or len(behs) < num // 2:
            raise kit.Inconclusive("behaviour generation failed (%s): %d behaviours, %s" % (cfg, len(behs), (r.error or str(r.violated))[:500]))
        return cfg, behs

    with cf.ThreadPoolExecutor(max_workers=4) as ex:
        return list(ex.map(one, cfgs))


def layout_of(b):
    return "%dx%d" % (len(b["shards"]), b["nrep"])


def segments_of(b):
    """[(strategy, has a read)] per configured strategy of a RouteGen behaviour (split at its config events)."""
    segs = [[b["strategy"], False]]
    for ev in b["hist"]:
        if ev["a"] == "config":
            segs.append([ev["to"], False])
        elif ev["a"] == "issue" and ev["kind"] == "read":
            segs[-1][1] = True
    return segs


def is_foreign_stratum(b):
    """Mandatory stratum 1: no strategy change, every request a read, decisions of different shards overlap."""
    issues = [ev for ev in b["hist"] if ev["a"] == "issue"]
    return (FOREIGN in b["windows"] and not any(ev["a"] == "config" for ev in b["hist"])
            and issues and all(ev["kind"] == "read" for ev in issues))


def transitions_of(b):
    """Mandatory stratum 2: (from, to) of every run-time strategy change that is followed by a read."""
    segs = segments_of(b)
    return set((x[0], y[0]) for x, y in zip(segs, segs[1:]) if y[1])


def missing_strata(behs, layouts, upd_layouts):
    have1 = set((layout_of(b), b["strategy"]) for b in behs if is_foreign_stratum(b))
    have2 = set((layout_of(b),) + t for b in behs for t in transitions_of(b))
    m1 = [(l, s) for l in layouts for s in STRATEGIES if (l, s) not in have1]
    m2 = [(l, x, y) for l in upd_layouts for x in STRATEGIES for y in STRATEGIES if x != y and (l, x, y) not in have2]
    return m1, m2


def route_behaviours(ctx):
    """RouteGen behaviours: free simulation + the mandatory strata per layout (foreign reads; strategy changes).  The
    strata are emitted by construction (ACTION_CONSTRAINTs of the Strata_* configurations); what a seed still misses
    (a strategy never drawn, a transition without a read behind it) is generated again with other seeds."""
    if ctx.thorough:
        cfgs = [("Gen_Route_2x2.cfg", 600), ("Strata_Route_2x2.cfg", 60), ("Gen_Route_3x1.cfg", 600), ("Strata_Route_3x1.cfg", 60),
                ("Gen_Route_2x1.cfg", 600), ("Strata_Route_2x1.cfg", 60), ("Gen_Route_2x0.cfg", 300), ("Strata_Route_2x0.cfg", 60),
                ("Gen_RouteUpd_2x2.cfg", 300), ("Strata_RouteUpd_2x2.cfg", 200), ("Gen_RouteUpd_3x1.cfg", 200), ("Strata_RouteUpd_3x1.cfg", 150),
                ("Gen_RouteUpd_2x1.cfg", 200), ("Strata_RouteUpd_2x1.cfg", 150)]
    else:
        cfgs = [("Gen_Route_2x2.cfg", 200), ("Strata_Route_2x2.cfg", 60), ("Strata_Route_3x1.cfg", 60),
                ("Strata_Route_2x0.cfg", 60), ("Gen_RouteUpd_2x2.cfg", 40), ("Strata_RouteUpd_2x2.cfg", 120)]
    out = []
    for cfg, behs in simulate(ctx, "RouteGen", "BEH", cfgs, 80):
        out.extend(behs)
    layouts = sorted(set(re.search(r"_Route_(\dx\d)\.cfg", c).group(1) for c, _ in cfgs if "_Route_" in c))
    upd_layouts = sorted(set(re.search(r"_RouteUpd_(\dx\d)\.cfg", c).group(1) for c, _ in cfgs if "_RouteUpd_" in c))
    for attempt in (1, 2, 3):
        m1, m2 = missing_strata(out, layouts, upd_layouts)
        if not m1 and not m2:
            break
        again = [("Strata_Route_%s.cfg" % l, 60) for l in sorted(set(x[0] for x in m1))] + \
                [("Strata_RouteUpd_%s.cfg" % l, 150) for l in sorted(set(x[0] for x in m2))]
        kit.log("[gen] strata missing after seed %s: %s %s; generating again (%d)" % (ctx.seed, m1, m2, attempt))
        for cfg, behs in simulate(ctx, "RouteGen", "BEH", again, 80, seed=ctx.seed + 7919 * attempt):
            out.extend(behs)
    m1, m2 = missing_strata(out, layouts, upd_layouts)
    if m1 or m2:
        raise kit.Inconclusive("behaviour generation: mandatory strata not emitted after 3 more seeds: %s %s" % (m1, m2))
    return out, layouts, upd_layouts


def refresh_behaviours(ctx):
    cfgs = [("Strata_RouteRefresh.cfg", 120 if ctx.thorough else 40), ("Gen_RouteRefresh.cfg", 150 if ctx.thorough else 30)]
    seen, out = set(), []

    def add(pairs):
        for cfg, behs in pairs:
            for b in behs:
                k = json.dumps(b, sort_keys=True)
                if k not in seen:
                    seen.add(k)
                    out.append(b)

    def missing():
        return [s for s in ("BOTH", "REPLICA")
                if len([b for b in out if b["strategy"] == s and "W_RouteDuringRefresh" in b["windows"]]) < 2]

    add(simulate(ctx, "RouteRefreshGen", "RBEH", cfgs, 40))
    for attempt in (1, 2, 3):
        if not missing():
            break
        kit.log("[gen] refresh stratum missing for %s; generating again (%d)" % (missing(), attempt))
        add(simulate(ctx, "RouteRefreshGen", "RBEH", cfgs[:1], 40, seed=ctx.seed + 7919 * attempt))
    if missing():
        raise kit.Inconclusive("behaviour generation: reads during a refresh not emitted for %s" % missing())
    return out


# --------------------------------------------------------------------------- replays

def over_budget(ctx):
    """Re-runs of incomplete items are bounded by attempts and by wall clock."""
    return time.time() - ctx.t0 > (1800 if ctx.thorough else 150)


def concurrent_sessions(ctx, vfile, generated):
    behs, layouts, upd_layouts = generated
    base_args = ["-cmds", vfile] + (["-burst", "400", "-fan", "4", "-heavy", "40"] if ctx.thorough
                                    else ["-burst", "100", "-fan", "4", "-heavy", "36"])
    stratum = {}      # (layout, strategy) -> commands that arrived in complete runs of the mandatory stratum
    transitions = {}  # (layout, from, to) -> read arrivals judged strictly after the update
    state = {"errs": [], "unconfirmed": [], "results": 0}

    def missing():
        # every command that is sent arrives at least once, so a complete run reaches these counts by construction
        m1 = [(l, s) for l in layouts for s in STRATEGIES if stratum.get((l, s), 0) < 4000]
        m2 = [(l, a, b) for l in upd_layouts for a in STRATEGIES for b in STRATEGIES if a != b and transitions.get((l, a, b), 0) < 50]
        return m1, m2

    def one_pass(attempt, subset):
        """Runs the behaviours `subset` (indices into behs); returns the indices whose run was incomplete."""
        bfile = os.path.join(ctx.work, "route-behaviours.%d.ndjson" % attempt)
        kit.write_ndjson(bfile, [behs[i] for i in subset])
        cfile = os.path.join(ctx.work, "concurrent.%d.ndjson" % attempt)
        results, crashes = drive(ctx, "c14-concurrent", ["-in", bfile] + base_args, cfile, timeout=1500)
        state["unconfirmed"] += judge_crashes(ctx, "c14-concurrent", crashes)
        state["results"] += len(results)
        incomplete = []
        for res in results:
            segs = res.get("segments") or []
            mode = "concurrent-sessions" if res["concurrent"] else "sequential-sessions"
            if segs:
                progs = ["%s[%s]" % (sg["strategy"], " || ".join(sorted(",".join("%s:%s" % (q["sh"], q["kind"]) for q in p) for p in sg["sessions"].values())))
                         for sg in segs]
                ctx.case(key=["route-upd", res["layout"], mode, progs, [bool(sg.get("updateInFlight")) for sg in segs]], nontrivial=True, n=res["sent"])
                what = "layout %s, run-time strategy changes %s (%d connections, %d commands, windows %s)" % (
                    res["layout"], " -> ".join(progs), res["conns"], res["sent"], res.get("windows") or [])
            else:
                progs = sorted(",".join("%s:%s" % (q["sh"], q["kind"]) for q in p) for p in res["sessions"].values())
                ctx.case(key=["route", res["layout"], res["strategy"], mode, progs], nontrivial=True, n=res["sent"])
                what = "layout %s, strategy %s, sessions %s (%d connections, %d commands, windows %s)" % (
                    res["layout"], res["strategy"], " || ".join(progs), res["conns"], res["sent"], res.get("windows") or [])
            classes = {}
            for b in res.get("bad") or []:
                where = mode if b.get("phase", "steady") == "steady" else b["phase"]
                classes.setdefault((b["class"], where), b["detail"])
            for (cls, where), detail in sorted(classes.items()):
                ctx.violation("%s/%s" % (cls, where), "%s: %d arrivals outside the allowed nodes, e.g. %s; moved counter +%d" % (
                    what, res["badCount"], detail, res.get("moved", 0)), res)
            for b in res.get("badReplies") or []:
                cls, _, detail = b.partition(": ")
                ctx.violation("%s/%s" % (cls, mode), "%s: %s" % (what, detail), res)
            complete = not res.get("err") and res["replies"] == res["sent"]
            if not complete:
                incomplete.append((subset[res["beh"] - 1], "%s: %s" % (what, res.get("err") or "replies %d of %d" % (res["replies"], res["sent"]))))
            elif not res["badCount"] and not res.get("badReplies"):
                ctx.cov["traces_validated_against_impl"] += res.get("behaviours", 1)
            if not segs and res["concurrent"] and FOREIGN in (res.get("windows") or []) and complete \
                    and all(q["kind"] == "read" for p in res["sessions"].values() for q in p):
                k = (res["layout"], res["strategy"])
                stratum[k] = stratum.get(k, 0) + res["arrivals"]
            if segs and complete:
                for x, y in zip(segs, segs[1:]):
                    if any(q["kind"] == "read" for p in y["sessions"].values() for q in p):
                        k = (res["layout"], x["strategy"], y["strategy"])
                        transitions[k] = transitions.get(k, 0) + y.get("arrivals", 0)
            if len(ctx.cov["samples"]) < 6 and (FOREIGN in (res.get("windows") or []) or segs):
                ctx.sample({k: res.get(k) for k in ("layout", "strategy", "sessions", "segments", "windows", "conns", "sent", "arrivals", "perNode")})
        return incomplete

    incomplete = one_pass(1, list(range(len(behs))))
    for attempt in (2, 3):
        m1, m2 = missing()
        if not (incomplete or m1 or m2) or state["unconfirmed"] or over_budget(ctx):
            break
        # run again: what was incomplete, and behaviours of the strata that did not reach their counts
        subset = sorted(set(i for i, _ in incomplete)
                        | set(i for i, b in enumerate(behs) if is_foreign_stratum(b) and (layout_of(b), b["strategy"]) in m1)
                        | set(i for i, b in enumerate(behs) if any((layout_of(b),) + t in m2 for t in transitions_of(b))))
        kit.log("[retry %d] c14-concurrent: %d incomplete runs, strata below their counts: %s %s -> %d behaviours again" % (
            attempt, len(incomplete), m1, m2, len(subset)))
        incomplete = one_pass(attempt, subset)
    if state["unconfirmed"]:
        u = state["unconfirmed"][0]
        raise kit.Inconclusive("c14-concurrent: the driver died in %s (%s) but not when the item was re-run alone" % (u["what"], u["panic"]))
    if len(incomplete) > max(2, state["results"] // 10):
        raise kit.Inconclusive("c14-concurrent: %d runs still incomplete after the re-runs, e.g. %s" % (len(incomplete), incomplete[0][1]))
    for _, e in incomplete:
        ctx.notes.append("incomplete run (not judged as a whole, arrivals judged): " + e)
    # the mandatory strata must have been exercised, with real traffic: concurrent reads of keys of different shards for
    # every strategy on every layout (including the layout whose masters have no replica), and reads after every
    # run-time change of the strategy
    m1, m2 = missing()
    if m1 or m2:
        raise kit.Inconclusive("mandatory strata not exercised after %s: foreign concurrent reads %s, reads after a strategy change %s" % (
            "3 attempts" if not over_budget(ctx) else "the wall-clock budget", ["%s/%s" % x for x in m1], ["%s:%s->%s" % x for x in m2]))


def refresh_replay(ctx, behs):
    state = {"unconfirmed": [], "results": 0}
    window = {}

    def one_pass(attempt, subset):
        bfile = os.path.join(ctx.work, "refresh-behaviours.%d.ndjson" % attempt)
        kit.write_ndjson(bfile, [behs[i] for i in subset])
        rfile = os.path.join(ctx.work, "refresh.%d.ndjson" % attempt)
        results, crashes = drive(ctx, "c14-refresh", ["-in", bfile], rfile, n_items=len(subset), timeout=900)
        state["unconfirmed"] += judge_crashes(ctx, "c14-refresh", crashes)
        state["results"] += len(results)
        incomplete = []
        for res in results:
            ctx.case(key=["refresh", res["strategy"], res["actions"]], nontrivial=True, n=res["reads"])
            bad = [(st, b) for st in res["steps"] for b in st.get("bad") or []]
            if bad:
                st, b = bad[0]
                where = "read-during-refresh" if "W_RouteDuringRefresh" in res["windows"] else "across-refresh"
                ctx.violation("read-to-foreign-replica/%s" % where, "strategy %s, steps %s: step %d (%s): %s" % (
                    res["strategy"], " ".join(res["actions"]), st["step"],
                    "routed after the refresh had completed" if st.get("afterRefresh") else "routed before any refresh had completed", b), res)
            if res.get("err"):
                incomplete.append((subset[res["id"] - 1], "%s %s: %s" % (res["strategy"], " ".join(res["actions"]), res["err"])))
            elif not bad:
                ctx.cov["traces_validated_against_impl"] += 1
                if "W_RouteDuringRefresh" in res["windows"]:
                    window[res["strategy"]] = window.get(res["strategy"], 0) + 1
            if len(ctx.cov["samples"]) < 8 and "W_RouteDuringRefresh" in res["windows"]:
                ctx.sample({k: res[k] for k in ("strategy", "actions", "steps")})
        return incomplete

    incomplete = one_pass(1, list(range(len(behs))))
    for attempt in (2, 3):
        if not incomplete or state["unconfirmed"] or over_budget(ctx):
            break
        kit.log("[retry %d] c14-refresh: %d incomplete replays again" % (attempt, len(incomplete)))
        incomplete = one_pass(attempt, sorted(set(i for i, _ in incomplete)))
    if state["unconfirmed"]:
        u = state["unconfirmed"][0]
        raise kit.Inconclusive("c14-refresh: the driver died in %s (%s) but not when the item was re-run alone" % (u["what"], u["panic"]))
    if len(incomplete) > max(1, state["results"] // 10):
        raise kit.Inconclusive("c14-refresh: %d replays still incomplete after the re-runs, e.g. %s" % (len(incomplete), incomplete[0][1]))
    for _, e in incomplete:
        ctx.notes.append("incomplete refresh replay: " + e)
    if not ctx.violations:
        missing = [s for s in ("BOTH", "REPLICA") if window.get(s, 0) < 2]
        if missing:
            raise kit.Inconclusive("mandatory stratum (read routed during a refresh that changes the replica set) not exercised: %s" % missing)


def run(ctx):
    ctx.build()
    ctx.assumptions += [
        "RedisWrite/RedisReadOnly are transcribed from the Redis 5 command table (module constants), not from the code under test",
        "replica choice is clock based: read-only commands are repeated several times per strategy",
        "the goroutine interleaving inside one routing decision is not forced (no pause point in chooseHost): overlapping decisions "
        "of Route.tla behaviours are sampled by repetition (thousands of pipelined commands per connection, several connections per session)",
        "a command that is in flight while OnSvcConfigUpdate is applied may follow the old or the new read strategy",
    ]
    r = ctx.mc("redis", "Commands", "MC_Commands.cfg", workers=1, timeout=300)
    vecs = [p for (tag, p) in r.prints if tag == "VEC"]
    if len(vecs) < 150:
        raise kit.Inconclusive("only %d vectors emitted" % len(vecs))
    vfile = os.path.join(ctx.work, "vectors.ndjson")
    kit.write_ndjson(vfile, vecs)
    # behaviour generation, then the model runs, go on in the background while the vectors are replayed (a moderate
    # number of TLC processes at any time)
    bg = cf.ThreadPoolExecutor(max_workers=2)
    f_rbehs = bg.submit(refresh_behaviours, ctx)
    f_behs = bg.submit(route_behaviours, ctx)

    def model_after():
        cf.wait([f_rbehs, f_behs])
        route_model(ctx)
    bg2 = cf.ThreadPoolExecutor(max_workers=1)
    f_model = bg2.submit(model_after)
    bg.shutdown(wait=False)
    bg2.shutdown(wait=False)

    def vectors():
        rfile = os.path.join(ctx.work, "results.ndjson")
        args = ["-in", vfile, "-trials", "20" if ctx.thorough else "6"]
        if ctx.thorough:
            args.append("-allcases")
        return drive(ctx, "c14-run", args, rfile, n_items=len(vecs), timeout=1800)

    def reassign():
        # a replica is re-pointed to another master while the first master keeps its slots
        return drive(ctx, "c14-reassign", [], os.path.join(ctx.work, "reassign.ndjson"), n_items=2, timeout=300)

    with cf.ThreadPoolExecutor(max_workers=2) as ex:
        f_vec, f_rea = ex.submit(vectors), ex.submit(reassign)
        results, crashes = f_vec.result()
        rresults, rcrashes = f_rea.result()
    unconfirmed = judge_crashes(ctx, "c14-run", crashes)
    n = 0
    for res in results:
        n += 1
        ctx.case(key=[res["sent"], res["arity"], res["strategy"]], nontrivial=True, n=res["trials"])
        if res.get("bad"):
            kind = "write-to-replica" if "replica" in res["bad"] and "delivered" in res["bad"] else \
                   ("unsupported-forwarded" if "reached a backend" in res["bad"] else "classification")
            ctx.violation("%s/%s" % (kind, res["name"]), "%s (%d args, strategy %s): %s; reply %s; arrivals %s" % (
                res["sent"], res["arity"], res["strategy"], res["bad"], res["reply"], res["arrivals"]), res)
        else:
            ctx.cov["traces_validated_against_impl"] += 1
        if n % 400 == 1:
            ctx.sample(res)
    unconfirmed += judge_crashes(ctx, "c14-reassign", rcrashes)
    for r in rresults:
        ctx.case(key=["reassign", r["strategy"], r["phase"]], nontrivial=True, n=r["reads"])
        for b in r.get("bad") or []:
            ctx.violation("read-to-foreign-replica/%s/%s" % (r["phase"], r["strategy"]), b, r)
    if unconfirmed:
        raise kit.Inconclusive("the driver died in %s (%s) but not when the item was re-run alone" % (
            unconfirmed[0]["what"], unconfirmed[0]["panic"]))
    refresh_replay(ctx, f_rbehs.result())
    concurrent_sessions(ctx, vfile, f_behs.result())
    f_model.result()
    ctx.cov["exhaustive"] = True
    ctx.cov["rule"] = ("one case per (name as sent, argument count, read strategy) for every name of the module's finite name space; "
                       "all cases are non-trivial (each drives the real dispatch and routing code); exhaustive over the name space; "
                       "plus one case per (layout, strategy sequence, concurrent / sequential, multiset of session programs) of the Route behaviours "
                       "and one per RouteRefresh behaviour")
