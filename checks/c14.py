"""C14 - only supported commands reach backends, and writes only reach masters.

spec/redis/Commands.tla: the Redis 5 command table with Redis' own write/read-only classification, the proxy's
supported set and the locally answered commands; TLC enumerates the whole name space (supported, every other Redis
command, arbitrary names) and emits, per name, the expected class (local / unsupported / forward) and the node
roles a forwarded command may be delivered to under each read strategy; invariants WritesOnlyToMaster,
UnsupportedNeverForwarded, LocalNeverForwarded hold over the table.
Every vector is replayed (lower / UPPER / MiXed case, three argument counts, three read strategies) through real
Redis processors against a simulated cluster with two replicas per master; oracle: the per-node command logs.
"""
import os

import kit

LEVEL = "model_checking"


def run(ctx):
    ctx.build()
    ctx.assumptions += [
        "RedisWrite/RedisReadOnly are transcribed from the Redis 5 command table (module constants), not from the code under test",
        "replica choice is clock based: read-only commands are repeated several times per strategy",
    ]
    r = ctx.mc("redis", "Commands", "MC_Commands.cfg", workers=1, timeout=300)
    vecs = [p for (tag, p) in r.prints if tag == "VEC"]
    if len(vecs) < 150:
        raise kit.Inconclusive("only %d vectors emitted" % len(vecs))
    vfile = os.path.join(ctx.work, "vectors.ndjson")
    kit.write_ndjson(vfile, vecs)
    rfile = os.path.join(ctx.work, "results.ndjson")
    args = ["c14-run", "-in", vfile, "-out", rfile, "-trials", "20" if ctx.thorough else "6"]
    if ctx.thorough:
        args.append("-allcases")
    ctx.harness(args, timeout=1800)
    n = 0
    for res in kit.read_ndjson(rfile):
        n += 1
        ctx.case(key=[res["sent"], res["arity"], res["strategy"]], nontrivial=True, n=res["trials"])
        if res.get("bad"):
            kind = "write-to-replica" if "replica" in res["bad"] and "delivered" in res["bad"] else \
                   ("unsupported-forwarded" if "reached a backend" in res["bad"] else "classification")
            ctx.violation("%s/%s" % (kind, res["name"]), "%s (%d args, strategy %s): %s; reply %s; arrivals %s" % (
                res["sent"], res["arity"], res["strategy"], res["bad"], res["reply"], res["arrivals"]), res)
        else:
            ctx.cov["traces_validated_against_impl"] += 1
        if n % 400 == 1:
            ctx.sample(res)
    # a replica is re-pointed to another master while the first master keeps its slots
    afile = os.path.join(ctx.work, "reassign.ndjson")
    ctx.harness(["c14-reassign", "-out", afile], timeout=300)
    for r in kit.read_ndjson(afile):
        ctx.case(key=["reassign", r["strategy"], r["phase"]], nontrivial=True, n=r["reads"])
        for b in r.get("bad") or []:
            ctx.violation("read-to-foreign-replica/%s/%s" % (r["phase"], r["strategy"]), b, r)
    ctx.cov["exhaustive"] = True
    ctx.cov["rule"] = ("one case per (name as sent, argument count, read strategy) for every name of the module's finite name space; "
                       "all cases are non-trivial (each drives the real dispatch and routing code); exhaustive over the name space")
