"""C14 - only supported commands reach backends, and writes only reach masters.

spec/redis/Commands.tla: the Redis 5 command table with Redis' own write/read-only classification, the proxy's
supported set and the locally answered commands; TLC enumerates the whole name space (supported, every other Redis
command, arbitrary names) and emits, per name, the expected class (local / unsupported / forward) and the node
roles a forwarded command may be delivered to under each read strategy; invariants WritesOnlyToMaster,
UnsupportedNeverForwarded, LocalNeverForwarded hold over the table.
Every vector is replayed (lower / UPPER / MiXed case, three argument counts, three read strategies) through real
Redis processors against a simulated cluster with two replicas per master; oracle: the per-node command logs.

spec/redis/Route.tla (+ RouteGen, RouteWin): dispatch and routing decisions of CONCURRENT downstream sessions, one
action per code section of handleRequest / chooseHost (Issue, Dispatch, Lookup, Store one candidate, Pick); invariants
OnlySupportedReachBackends, WritesToOwningMaster, RoutedWithinOwnerFamily; constant SharedScratch (TRUE = candidates
built in one array shared by all sessions) must violate RoutedWithinOwnerFamily; windows W_OverlapForeign,
W_OverlapSame, W_WriteDuringRead, W_RejectDuringRouting must be reachable.  RouteGen behaviours (simulation, plus the
mandatory stratum "every session reads, all shards differ" per layout) are run on real processors: each model session
becomes several real connections that pipeline the session's requests (names drawn from the Commands vectors, all
letter cases) - together where the behaviour overlaps decisions, one after the other where it does not; oracle: every
command that ARRIVES at a node of the simulated cluster is judged by the behaviour's Allowed table (sub-command
`c14-concurrent`), unsupported names must be answered with an error.
Owned: spec/redis/Commands.tla, Route.tla, RouteGen.tla, RouteWin.tla, MC_Commands.cfg, *_Route_*.cfg;
harness/cases/c14, harness/cmd/c14.
"""
import concurrent.futures as cf
import os
import re

import kit

LEVEL = "model_checking"

FOREIGN = "W_OverlapForeign"


def route_model(ctx):
    """Exhaustive runs of Route.tla: the design is clean, the shared-scratch variant yields its counterexample,
    every window is reachable."""
    jobs = [("Route", "MC_Route_fixed.cfg", None, True, True),
            ("Route", "MC_Route_norep.cfg", None, True, False),
            ("Route", "MC_Route_fixed_3s.cfg", None, True, False),
            ("Route", "MC_Route_shared.cfg", ["RoutedWithinOwnerFamily"], False, False),
            ("Route", "MC_Route_shared_3s.cfg", ["RoutedWithinOwnerFamily"], False, False)]
    if ctx.thorough:
        jobs.append(("Route", "MC_Route_fixed_3s_all.cfg", None, True, False))

    def one(j):
        mod, cfg, exp, count, cov = j
        return j, ctx.mc("redis", mod, cfg, expect_violated=exp, count=count, workers=2, timeout=600, coverage=cov)

    with cf.ThreadPoolExecutor(max_workers=3) as ex:
        res = list(ex.map(one, jobs))
    for (mod, cfg, exp, count, cov), r in res:
        if cov and r.coverage:
            ctx.check_vacuity(r, mod)
        if exp and "WritesToOwningMaster" in r.violated:
            raise kit.Inconclusive("%s: the shared-scratch variant must not touch the write path" % cfg)
    r = ctx.tlc("redis", "RouteWin", "MC_Route_traps.cfg", workers=1, timeout=300)
    if "@@UNREACHED" in r.stdout:
        m = re.search(r'@@UNREACHED",\s*(.*?)>>', r.stdout, re.S)
        raise kit.Inconclusive("vacuous model Route: windows never reached: %s" % " ".join((m.group(1) if m else "").split()))
    if not r.ok:
        raise kit.Inconclusive("window reachability run MC_Route_traps.cfg: %s" % (r.error or str(r.violated))[:500])


def route_behaviours(ctx):
    """RouteGen behaviours: free simulation + the mandatory stratum per layout."""
    if ctx.thorough:
        cfgs = [("Gen_Route_2x2.cfg", 600), ("Strata_Route_2x2.cfg", 60), ("Gen_Route_3x1.cfg", 600), ("Strata_Route_3x1.cfg", 60),
                ("Gen_Route_2x1.cfg", 600), ("Strata_Route_2x1.cfg", 60), ("Gen_Route_2x0.cfg", 300), ("Strata_Route_2x0.cfg", 60)]
    else:
        cfgs = [("Gen_Route_2x2.cfg", 250), ("Strata_Route_2x2.cfg", 60), ("Gen_Route_3x1.cfg", 150), ("Strata_Route_3x1.cfg", 60)]

    def one(c):
        cfg, num = c
        r = ctx.tlc("redis", "RouteGen", cfg, mode="sim", workers=1, sim_num=num, sim_depth=80, seed=ctx.seed,
                    deadlock=False, timeout=300)
        behs = [p for (tag, p) in r.prints if tag == "BEH"]
        if r.timeout or r.violated or len(behs) < num // 2:
            raise kit.Inconclusive("behaviour generation failed (%s): %d behaviours, %s" % (cfg, len(behs), (r.error or str(r.violated))[:500]))
        return cfg, behs

    out = []
    with cf.ThreadPoolExecutor(max_workers=4) as ex:
        for cfg, behs in ex.map(one, cfgs):
            out.extend(behs)
    layouts = sorted(set(re.search(r"_(\dx\d)\.cfg", c).group(1) for c, _ in cfgs))
    return out, layouts


def concurrent_sessions(ctx, vfile, generated):
    behs, layouts = generated
    bfile = os.path.join(ctx.work, "route-behaviours.ndjson")
    kit.write_ndjson(bfile, behs)
    cfile = os.path.join(ctx.work, "concurrent.ndjson")
    args = ["c14-concurrent", "-in", bfile, "-cmds", vfile, "-out", cfile]
    args += ["-burst", "400", "-fan", "4", "-heavy", "40"] if ctx.thorough else ["-burst", "150", "-fan", "4", "-heavy", "24"]
    rc, so, se = ctx.harness(args, timeout=1500, allow_fail=True)
    results = kit.read_ndjson(cfile) if os.path.exists(cfile) else []
    stratum = {}   # (layout, strategy) -> commands that arrived in complete runs of the mandatory stratum
    errs = []
    for res in results:
        mode = "concurrent-sessions" if res["concurrent"] else "sequential-sessions"
        progs = sorted(",".join("%s:%s" % (q["sh"], q["kind"]) for q in p) for p in res["sessions"].values())
        ctx.case(key=["route", res["layout"], res["strategy"], mode, progs], nontrivial=True, n=res["sent"])
        what = "layout %s, strategy %s, sessions %s (%d connections, %d commands, windows %s)" % (
            res["layout"], res["strategy"], " || ".join(progs), res["conns"], res["sent"], res.get("windows") or [])
        classes = {}
        for b in res.get("bad") or []:
            classes.setdefault(b["class"], b["detail"])
        for cls, detail in sorted(classes.items()):
            ctx.violation("%s/%s" % (cls, mode), "%s: %d arrivals outside the allowed nodes, e.g. %s; moved counter +%d" % (
                what, res["badCount"], detail, res.get("moved", 0)), res)
        for b in res.get("badReplies") or []:
            cls, _, detail = b.partition(": ")
            ctx.violation("%s/%s" % (cls, mode), "%s: %s" % (what, detail), res)
        if res.get("err"):
            errs.append("%s: %s" % (what, res["err"]))
        elif not res["badCount"] and not res.get("badReplies"):
            ctx.cov["traces_validated_against_impl"] += res.get("behaviours", 1)
        if res["concurrent"] and FOREIGN in (res.get("windows") or []) and not res.get("err") and res["replies"] == res["sent"] \
                and all(q["kind"] == "read" for p in res["sessions"].values() for q in p):
            k = (res["layout"], res["strategy"])
            stratum[k] = stratum.get(k, 0) + res["arrivals"]
        if len(ctx.cov["samples"]) < 6 and FOREIGN in (res.get("windows") or []):
            ctx.sample({k: res[k] for k in ("layout", "strategy", "sessions", "windows", "conns", "sent", "arrivals", "perNode")})
    if rc != 0:
        raise kit.Inconclusive("harness c14-concurrent exited %d: %s" % (rc, (se or so)[-2000:]))
    if len(errs) > max(2, len(results) // 10):
        raise kit.Inconclusive("c14-concurrent: %d of %d runs incomplete, e.g. %s" % (len(errs), len(results), errs[0]))
    for e in errs:
        ctx.notes.append("incomplete run (not judged as a whole, arrivals judged): " + e)
    # the mandatory stratum must have been exercised for every strategy on every layout, with real traffic
    need = 4000
    missing = ["%s/%s" % (l, s) for l in layouts for s in ("MASTER", "BOTH", "REPLICA") if stratum.get((l, s), 0) < need]
    if missing:
        raise kit.Inconclusive("mandatory stratum (concurrent reads of keys of different shards) not exercised: %s" % missing)


def run(ctx):
    ctx.build()
    ctx.assumptions += [
        "RedisWrite/RedisReadOnly are transcribed from the Redis 5 command table (module constants), not from the code under test",
        "replica choice is clock based: read-only commands are repeated several times per strategy",
        "the goroutine interleaving inside one routing decision is not forced (no pause point in chooseHost): overlapping decisions "
        "of Route.tla behaviours are sampled by repetition (thousands of pipelined commands per connection, several connections per session)",
    ]
    # the Route model runs and the behaviour generation go on while the vectors are replayed
    bg = cf.ThreadPoolExecutor(max_workers=2)
    f_model = bg.submit(route_model, ctx)
    f_behs = bg.submit(route_behaviours, ctx)
    bg.shutdown(wait=False)
    r = ctx.mc("redis", "Commands", "MC_Commands.cfg", workers=1, timeout=300)
    vecs = [p for (tag, p) in r.prints if tag == "VEC"]
    if len(vecs) < 150:
        raise kit.Inconclusive("only %d vectors emitted" % len(vecs))
    vfile = os.path.join(ctx.work, "vectors.ndjson")
    kit.write_ndjson(vfile, vecs)
    rfile = os.path.join(ctx.work, "results.ndjson")
    args = ["c14-run", "-in", vfile, "-out", rfile, "-trials", "20" if ctx.thorough else "6"]
    if ctx.thorough:
        args.append("-allcases")
    ctx.harness(args, timeout=1800)
    n = 0
    for res in kit.read_ndjson(rfile):
        n += 1
        ctx.case(key=[res["sent"], res["arity"], res["strategy"]], nontrivial=True, n=res["trials"])
        if res.get("bad"):
            kind = "write-to-replica" if "replica" in res["bad"] and "delivered" in res["bad"] else \
                   ("unsupported-forwarded" if "reached a backend" in res["bad"] else "classification")
            ctx.violation("%s/%s" % (kind, res["name"]), "%s (%d args, strategy %s): %s; reply %s; arrivals %s" % (
                res["sent"], res["arity"], res["strategy"], res["bad"], res["reply"], res["arrivals"]), res)
        else:
            ctx.cov["traces_validated_against_impl"] += 1
        if n % 400 == 1:
            ctx.sample(res)
    # a replica is re-pointed to another master while the first master keeps its slots
    afile = os.path.join(ctx.work, "reassign.ndjson")
    ctx.harness(["c14-reassign", "-out", afile], timeout=300)
    for r in kit.read_ndjson(afile):
        ctx.case(key=["reassign", r["strategy"], r["phase"]], nontrivial=True, n=r["reads"])
        for b in r.get("bad") or []:
            ctx.violation("read-to-foreign-replica/%s/%s" % (r["phase"], r["strategy"]), b, r)
    concurrent_sessions(ctx, vfile, f_behs.result())
    f_model.result()
    ctx.cov["exhaustive"] = True
    ctx.cov["rule"] = ("one case per (name as sent, argument count, read strategy) for every name of the module's finite name space; "
                       "all cases are non-trivial (each drives the real dispatch and routing code); exhaustive over the name space; "
                       "plus one case per (layout, strategy, concurrent / sequential, multiset of session programs) of the Route behaviours")
