"""C08 - running services converge to the configured services and endpoints.

spec/config/ConfigFlow.tla: the configuration store (service table, the three update handlers, the bounded
event channel whose add-events alias the store's endpoint slice) and the controller loop with its processors.
 0. probe: four fixed histories (the design-time experiments) are executed on the real store + controller to
    find out which of the four known defects the tree under test still has (Fix* constants of the module);
 1. exhaustive TLC runs of the repaired design (all Fix* = TRUE): Converged, UnknownIgnored;
 2. each single-defect variant (one Fix* = FALSE) must still yield its counterexample (anti-vacuity), and the
    module with the tree's own flags and the unrepaired input classes excluded (AvoidWindows) must be clean:
    nothing else breaks convergence within the bounds;
 3. spec -> code: transition cover of ConfigFlowGen (one behaviour per transition of the state graph, tree's
    flags) and seeded simulation (longer histories, 3 addresses, lists in any order) replayed on the real
    config.Config + controller.Controller + recording processors; store table, queue length, blocked handler,
    event read by the controller and processor table compared with the model after every step; Converged and
    UnknownIgnored judged on the real objects at every quiescent point;
 4. code -> spec: seeded random histories on the real code recorded as traces and validated by TLC against
    ConfigFlowTrace (every observation, including the verdict of Converged, must equal the model's).
Verdicts come only from the predicate evaluated on the real objects (harness/cases/c08/world.go: converged).
"""
import collections
import json
import os
import re

import kit

LEVEL = "model_checking"

FLAGS = ["FixRemovalsOnly", "FixSameAddr", "FixInvalidCorrected", "FixValidToInvalid"]
WINDOW_OF = {"FixRemovalsOnly": "first-update-removals-only", "FixSameAddr": "addr-in-removed-and-added",
             "FixInvalidCorrected": "invalid-config-corrected", "FixValidToInvalid": "valid-to-invalid-config"}
VARIANT_OF = {"FixRemovalsOnly": "removalsonly", "FixSameAddr": "sameaddr",
              "FixInvalidCorrected": "invalidcorrected", "FixValidToInvalid": "validtoinvalid"}


def upd(a, s="s1", cfg="", add=(), rem=()):
    return {"a": a, "s": s, "cfg": cfg, "add": list(add), "rem": list(rem)}


D = upd("Drain", "")
NAME_PAIRS = [("a.b", "a_b"), ("A.b", "a-b"), ("a/b", "a.b")]   # names with characters a lower layer treats specially
ALL_NAMES = ["s1", "s2", "a.b", "a_b", "A.b", "a-b", "a/b"]
REWRITE_PROBE = [upd("DepAdd", "a.b"), upd("Config", "a.b", cfg="v1"), upd("Endpoint", "a.b", add=["a1"]), D,
                 upd("Endpoint", "a.b", add=["a2"]), D, upd("DepRemove", "a.b"), D]
PROBES = {
    "FixRemovalsOnly": [upd("DepAdd"), upd("Config", cfg="v1"), upd("Endpoint", rem=["a1"]), D,
                        upd("Endpoint", add=["a1"]), D],
    "FixSameAddr": [upd("DepAdd"), upd("Config", cfg="v1"), upd("Endpoint", add=["a1"]), D,
                    upd("Endpoint", add=["a1"], rem=["a1"]), D],
    "FixInvalidCorrected": [upd("DepAdd"), upd("Config", cfg="invalid"), upd("Endpoint", add=["a1"]), D,
                            upd("Config", cfg="v1"), D],
    "FixValidToInvalid": [upd("DepAdd"), upd("Config", cfg="v1"), upd("Endpoint", add=["a1"]), D,
                          upd("Config", cfg="invalid"), D],
}


def cfg_text(spec, consts, extra=()):
    lines = ["SPECIFICATION " + spec, "CONSTANTS"]
    for k, v in consts.items():
        if isinstance(v, bool):
            v = "TRUE" if v else "FALSE"
        lines.append("  %s = %s" % (k, v))
    lines += list(extra)
    lines.append("CHECK_DEADLOCK FALSE")
    return "\n".join(lines) + "\n"


def tla_set(names):
    return "{" + ", ".join('"%s"' % n for n in names) + "}"


def rename(beh, mapping):
    """The same behaviour with other service names (the module is symmetric in the names as long as no layer
    rewrites them)."""
    m = lambda n: mapping.get(n, n)
    steps = []
    for st in beh["steps"]:
        st = dict(st)
        st["s"] = m(st["s"])
        if st.get("ev"):
            st["ev"] = dict(st["ev"], s=m(st["ev"]["s"]))
        for k in ("tab", "procs"):
            if st.get(k) is not None:
                st[k] = {m(n): v for n, v in st[k].items()}
        steps.append(st)
    return dict(beh, svcs=[m(n) for n in beh["svcs"]], static=[m(n) for n in beh["static"]], steps=steps)


def consts(flags, svcs='{"s1", "s2"}', naddr=2, static="{}", h=5, cap=2, perms=False, avoid=False):
    c = collections.OrderedDict()
    c["Svcs"], c["NAddr"], c["Static"], c["H"], c["Cap"], c["Perms"] = svcs, naddr, static, h, cap, perms
    for f in FLAGS:
        c[f] = flags[f]
    c["AvoidWindows"] = avoid
    c["ProcRewritesName"] = bool(flags.get("ProcRewritesName", False))
    return c


def write_cfg(ctx, name, text):
    p = os.path.join(ctx.work, name)
    with open(p, "w") as f:
        f.write(text)
    return p


def strip_model(steps):
    return [{k: s.get(k) for k in ("a", "s", "cfg", "add", "rem")} for s in steps]


def signature(v):
    """Stable name of a non-converged observation: the first input class (window) the service went through since
    it was last converged that can produce this symptom; an unexplained symptom is named by the symptom."""
    why, store, wins = v["why"], v["store"], v.get("wins") or []
    if "service-name-rewritten" in wins:   # the processor built for the service reports another name: whatever follows is lost
        return "not-converged/service-name-rewritten"
    w1 = "first-update-removals-only"   # a processor created too early misses everything sent before its real add-event
    if why == "no-processor-for-configured-service":
        compat = ["invalid-config-corrected"]
    elif why == "processor-for-service-without-valid-config-and-endpoint-list":
        compat = [w1] + (["valid-to-invalid-config"] if store.get("cfg") == "invalid" else [])
    elif why == "processor-hosts-differ-from-endpoints":
        compat = [w1, "addr-in-removed-and-added"]
    elif why == "processor-config-is-not-the-latest":
        compat = [w1]
    else:
        compat = []
    for w in wins:
        if w in compat:
            return "not-converged/" + w
    return "not-converged/" + why


class Tally:
    def __init__(self, ctx):
        self.ctx = ctx
        self.sigs = collections.Counter()
        self.first = {}
        self.drift = []
        self.errors = []
        self.qchecks = 0
        self.uchecks = 0
        self.ctlsteps = 0
        self.blocked = 0
        self.exact = 0
        self.aliased = 0
        self.crashes = 0
        self.confirmed = set()

    def judge(self, mode, beh, res):
        """beh: the behaviour handed to the harness (or the random history), res: what the real code did."""
        ctx = self.ctx
        if res.get("crash"):
            return self.crashed(mode, beh, res)
        if res.get("err"):
            self.errors.append("%s %s: %s" % (mode, res.get("id"), res["err"]))
            return
        self.qchecks += res.get("qchecks", 0)
        self.uchecks += res.get("uchecks", 0)
        self.ctlsteps += res.get("ctlsteps", 0)
        self.blocked += res.get("blocked", 0)
        if res.get("drift"):
            self.drift.append({"mode": mode, "id": res.get("id"), "drift": res["drift"][:3]})
        seen = set()
        for v in res.get("viol") or []:
            sig = signature(v)
            self.sigs[sig] += 1
            if sig in seen:
                continue
            seen.add(sig)
            if (mode, sig) not in self.first:
                self.first[(mode, sig)] = True
                what = ("service %s after step %d of a %s history: %s (store cfg=%s endpoints=%s, processor on=%s cfg=%s hosts=%s; "
                        "input classes passed: %s)" % (v["s"], v["i"], mode, v["why"], v["store"]["cfg"],
                                                       "none" if v["store"]["nil"] else v["store"]["eps"], v["proc"]["on"],
                                                       v["proc"]["cfg"], v["proc"]["hosts"], v.get("wins")))
                ctx.violation(sig, what, {"mode": mode, "behaviour": beh, "result": res})
        for u in res.get("unknown") or []:
            sig = "unknown-not-ignored/" + u["a"]
            self.sigs[sig] += 1
            if (mode, sig) not in self.first:
                self.first[(mode, sig)] = True
                ctx.violation(sig, "%s for service %s, which is not in the table: %s" % (u["a"], u["s"], u["what"]),
                              {"mode": mode, "behaviour": beh, "result": res})


def crash_signature(c):
    return "crash/%s/%s" % (c.get("where") or "other", c.get("frame") or "unknown")


def _crashed(self, mode, beh, res):
    """The worker process died while this behaviour was being executed (harness/cases/c08/supervise.go).  A panic
    whose first non-runtime frame is code of /repo is a violation: a controller (or store) that dies on a reachable
    history never converges.  Anything else (harness frame, no panic message, hang) is an infrastructure problem."""
    c = res["crash"]
    self.crashes += 1
    if c.get("origin") != "repo" or not c.get("panic"):
        self.errors.append("%s %s: worker died outside the code under test (%s; %s; frame %s)"
                           % (mode, res.get("id"), c.get("exit"), c.get("panic") or "no panic message", c.get("frame")))
        return
    sig = crash_signature(c)
    if c.get("confirmed"):
        self.confirmed.add(sig)
    elif not c.get("assumed"):
        self.errors.append("%s %s: crash in %s did not reproduce when the behaviour was re-run alone" % (mode, res.get("id"), c.get("frame")))
        return
    self.sigs[sig] += 1
    if (mode, sig) not in self.first and sig in self.confirmed:
        self.first[(mode, sig)] = True
        steps = beh.get("steps") or res.get("steps") or []
        what = ("the process died while a %s history was replayed on the real store + controller: %s in %s (%s; stack: %s); "
                "history: %s" % (mode, c["panic"], c["frame"], c["where"], " <- ".join(f.split("/")[-1] for f in c.get("frames", [])[:6]),
                                 [(st["a"], st["s"], st.get("cfg"), st.get("add"), st.get("rem")) for st in steps]))
        b = dict(beh)
        if "steps" not in b:
            b = {"static": res.get("static") or [], "steps": res.get("steps") or []}
        self.ctx.violation(sig, what, {"mode": mode, "behaviour": b, "result": res})


Tally.crashed = _crashed


def replay_behaviours(ctx, tally, mode, behs, final=False):
    if not behs:
        return []
    fn = re.sub(r"[^A-Za-z0-9_.,-]", "%", mode)
    bfile = os.path.join(ctx.work, "beh-%s.ndjson" % fn)
    rfile = os.path.join(ctx.work, "res-%s.ndjson" % fn)
    kit.write_ndjson(bfile, behs)
    args = ["c08-replay", "-in", bfile, "-out", rfile]
    if final:
        args.append("-final")
    ctx.harness(args, timeout=1200)
    results = kit.read_ndjson(rfile)
    if len(results) != len(behs):
        raise kit.Inconclusive("c08-replay %s: %d behaviours, %d results" % (mode, len(behs), len(results)))
    for b, r in zip(behs, results):
        tally.judge(mode, b, r)
        if not r.get("drift") and not r.get("err"):   # (a crash while reading such an event counts: the window was reached)
            for st in b["steps"][:r["n"]] if "n" in r else b["steps"]:   # the controller read an add-event whose slice the store had shifted in place meanwhile
                ev = st.get("ev") if st["a"] == "Ctl" else None
                if ev and ev.get("t") == "add" and len(set(ev["eps"])) != len(ev["eps"]):
                    tally.aliased += 1
    return results


def probe(ctx, tally):
    behs = [{"id": i, "svcs": ["s1", "s2"], "static": [], "cap": 2, "steps": PROBES[f]} for i, f in enumerate(FLAGS)]
    behs.append({"id": len(behs), "svcs": ["a.b", "a_b"], "static": [], "cap": 2, "steps": REWRITE_PROBE})
    results = replay_behaviours(ctx, tally, "probe", behs, final=True)
    flags = {}
    rw = results[-1]
    if rw.get("err"):
        raise kit.Inconclusive("probe names: %s" % rw["err"])
    ctx.case(key=["probe", "names"], nontrivial=True)
    rewrites = any(signature(v) == "not-converged/service-name-rewritten" for v in rw.get("viol") or [])
    for f, r in zip(FLAGS, results):
        if r.get("err"):
            raise kit.Inconclusive("probe %s: %s" % (f, r["err"]))
        flags[f] = not r.get("viol")   # (a probe that crashed has been reported by judge; the flag is then a guess)
        ctx.case(key=["probe", f], nontrivial=True)
    flags["ProcRewritesName"] = rewrites
    return flags


def gen_behaviours(ctx, cfgname, tag, svcs, static, cap, mode="mc", **kw):
    r = ctx.tlc("config", "ConfigFlowGen", cfgname, mode=mode, deadlock=False, **kw)
    if r.timeout or r.violated or (r.error and not r.prints):
        raise kit.Inconclusive("behaviour generation %s failed: %s %s" % (cfgname, r.violated, r.error[:500]))
    behs = []
    for t, p in r.prints:
        if t == tag and isinstance(p, list):
            behs.append({"id": len(behs), "svcs": svcs, "static": static, "cap": cap, "steps": p})
    return behs, r


def count_cases(ctx, mode, behs, results):
    exact = 0
    for b, r in zip(behs, results):
        if r.get("err"):
            continue
        key = [mode] + [(s["a"], s["s"], s["cfg"], s["add"], s["rem"]) for s in b["steps"]]
        if r.get("crash"):
            ctx.case(key=key, nontrivial=True)
            continue
        ctx.case(key=key, nontrivial=r.get("ctlsteps", 0) > 0 and r.get("qchecks", 0) > 0)
        if not r.get("drift") and r.get("n") == len(b["steps"]):
            exact += 1
    ctx.cov["traces_validated_against_impl"] += exact
    return exact


def replay(ctx, rep):
    """bin/check C08 --replay <file>: re-execute the recorded behaviour on the real store + controller."""
    ctx.build()
    art = rep.get("artefact", {})
    beh = art.get("behaviour")
    if not beh:
        raise kit.Inconclusive("replay file holds no behaviour")
    if "updates" in beh and "steps" not in beh:   # a random history: the recorded trace holds the interleaving
        steps = []
        for e in art.get("result", {}).get("events", []):
            if e.get("ev") == "upd":
                steps.append({k: e.get(k) for k in ("a", "s", "cfg", "add", "rem")})
            elif e.get("ev") == "ctl":
                steps.append(upd("Ctl", ""))
        beh = {"static": beh.get("static"), "steps": steps}
    names = sorted({st["s"] for st in beh["steps"] if st.get("s")} | set(beh.get("static") or []))
    b = {"id": 0, "svcs": beh.get("svcs") or names or ["s1", "s2"], "static": beh.get("static") or [], "cap": beh.get("cap", 2),
         "steps": strip_model(beh["steps"])}
    tally = Tally(ctx)
    res = replay_behaviours(ctx, tally, "replay", [b], final=True)
    ctx.case(key="replay", nontrivial=True)
    ctx.sample({"behaviour": [(s["a"], s["s"], s["cfg"], s["add"], s["rem"]) for s in b["steps"]], "result": res[0]})
    ctx.cov["rule"] = "one recorded behaviour re-executed on the real store + controller"
    if tally.errors:
        raise kit.Inconclusive("; ".join(tally.errors))


def run(ctx):
    ctx.build()
    ctx.assumptions += [
        "the event channel's capacity is scaled from 32 to 2 (1 in one configuration); the harness re-creates the channel with that capacity",
        "one dependency per handleDependencyUpdate call; a configuration delivered by discovery is never nil",
        "a processor refuses an invalid configuration update and keeps running (as proc/redis does); building and starting a processor never fails",
        "only addresses are modelled (endpoint type/state are not); exhaustive runs deliver the added/removed lists in canonical order "
        "except MC_ConfigFlow_fixed_perms (all orders), simulation and random histories use all orders, random histories also repeat addresses",
        "Go's slice growth for []*Endpoint is 0->1->2->4->8 (go1.23 runtime.growslice); the controller handles one event atomically "
        "with respect to the store (the racy read of an aliased slice during a handler is not modelled)",
    ]
    tally = Tally(ctx)

    # 0. which defects does the tree have?
    flags = probe(ctx, tally)
    ctx.cov["tree_flags"] = flags
    kit.log("[c08] tree: " + ", ".join("%s=%s" % (k, v) for k, v in flags.items()))
    for k in ctx.known:
        for f in FLAGS:
            if k.get("signature") == "not-converged/" + WINDOW_OF[f] and flags[f]:
                raise kit.Inconclusive("known finding %s no longer reproduces (stale entry)" % k.get("signature"))
    all_fixed = all(flags[f] for f in FLAGS)

    # 1. exhaustive: the repaired design
    if ctx.thorough:
        r = ctx.mc("config", "ConfigFlow", "MC_ConfigFlow_fixed_quick.cfg", workers=4, timeout=300, coverage=True, count=False)
        ctx.check_vacuity(r, "ConfigFlow")
        ctx.mc("config", "ConfigFlow", "MC_ConfigFlow_fixed.cfg", workers=4, timeout=1500)
        ctx.mc("config", "ConfigFlow", "MC_ConfigFlow_fixed_a3.cfg", workers=4, timeout=1500)
        ctx.mc("config", "ConfigFlow", "MC_ConfigFlow_fixed_perms.cfg", workers=4, timeout=1500)
        ctx.mc("config", "ConfigFlow", "MC_ConfigFlow_fixed_static.cfg", workers=4, timeout=1500)
        ctx.mc("config", "ConfigFlow", "MC_ConfigFlow_fixed_cap1.cfg", workers=4, timeout=1500)
    # the same design with names that lower layers treat specially (isomorphic to MC_ConfigFlow_fixed_quick as long as no
    # layer rewrites a name); the variant in which the processor layer normalises the name must lose convergence
    ctx.mc("config", "ConfigFlow", "MC_ConfigFlow_fixed_names.cfg", workers=4, timeout=300)
    ctx.mc("config", "ConfigFlow", "MC_ConfigFlow_rewrite.cfg", workers=4, timeout=300, expect_violated=["Converged"], count=False)
    ctx.cov["exhaustive"] = True

    # 2. anti-vacuity: every defect is still reachable in its variant; nothing else breaks the tree's variant
    inv = ["INVARIANTS TypeOK NoDupStore ViewsReadable Converged", "PROPERTIES UnknownIgnored"]
    for f in FLAGS:   # spec/config/MC_ConfigFlow_<variant>.cfg are the same configurations with H = 5
        if flags[f] and not ctx.thorough:
            continue      # quick tier: only the defects the tree still has (the repaired ones are re-derived in the thorough tier)
        name = "MC_ConfigFlow_only_%s.cfg" % VARIANT_OF[f]
        p = write_cfg(ctx, name, cfg_text("Spec", consts({g: g != f for g in FLAGS}, h=5 if ctx.thorough else 4), inv))   # ProcRewritesName FALSE
        ctx.mc("config", "ConfigFlow", name, workers=4, timeout=300, expect_violated=["Converged"], count=False, extra_files=[p])
    if ctx.thorough:
        ctx.mc("config", "ConfigFlow", "MC_ConfigFlow_pinned.cfg", workers=4, timeout=300, expect_violated=["Converged"], count=False)
    if not all_fixed:
        name = "MC_ConfigFlow_tree_avoid.cfg"
        p = write_cfg(ctx, name, cfg_text("Spec", consts(flags, h=6 if ctx.thorough else 4, avoid=True), inv))
        ctx.mc("config", "ConfigFlow", name, workers=4, timeout=1500, extra_files=[p])

    # 3. spec -> code
    cover = ["VIEW vars", "ACTION_CONSTRAINT EmitEdge"]
    gens = [("cover", "CoverSpec", consts(flags, h=5 if ctx.thorough else 4), cover, "EDGE", [], "mc", {}),
            # names that lower layers treat specially, "a.b" and "a_b" together: by symmetry a renamed copy of the cover
            # (below) unless the tree's processor layer rewrites names - then the module is not symmetric and TLC emits it
            ("cover-names", "CoverSpec", consts(flags, svcs=tla_set(NAME_PAIRS[0]), h=4), cover, "EDGE", [], "mc", {}),
            ("cover-static", "CoverSpec", consts(flags, static='{"s1"}', h=3 if ctx.thorough else 2), cover, "EDGE", ["s1"], "mc", {}),
            ("cover-cap1", "CoverSpec", consts(flags, svcs='{"s1"}', naddr=3 if ctx.thorough else 2, h=4, cap=1), cover, "EDGE", [], "mc", {}),
            ("sim", "GenSpec", consts(flags, naddr=3, h=12, perms=True), [], "BEH", [], "sim",
             {"sim_num": 2500 if ctx.thorough else 250, "sim_depth": 80, "seed": ctx.seed})]
    summary = {}
    for mode, spec, cs, extra, tag, static, tlcmode, kw in gens:
        if mode == "cover-names" and not flags["ProcRewritesName"]:
            continue
        name = "Gen_ConfigFlow_%s.cfg" % mode.replace("-", "_")
        p = write_cfg(ctx, name, cfg_text(spec, cs, extra))
        svcs = ["s1"] if cs["Svcs"] == '{"s1"}' else list(NAME_PAIRS[0]) if mode == "cover-names" else ["s1", "s2"]
        behs, r = gen_behaviours(ctx, name, tag, svcs, static, cs["Cap"], mode=tlcmode, workers=1, timeout=900, extra_files=[p], **kw)
        if tlcmode == "mc" and len(behs) != r.generated - 1:
            raise kit.Inconclusive("transition cover %s: %d transitions, %d behaviours emitted" % (mode, r.generated - 1, len(behs)))
        if tlcmode == "sim" and len(behs) < kw["sim_num"] // 2:
            raise kit.Inconclusive("simulation emitted only %d behaviours" % len(behs))
        results = replay_behaviours(ctx, tally, mode, behs)
        exact = count_cases(ctx, mode, behs, results)
        summary[mode] = {"behaviours": len(behs), "followed_exactly": exact}
        if mode == "cover":   # every behaviour of the cover again with the other difficult names
            for a, b in (NAME_PAIRS[1:] if flags["ProcRewritesName"] else NAME_PAIRS):
                rb = [rename(x, {"s1": a, "s2": b}) for x in behs]
                if flags["ProcRewritesName"]:   # the symmetry argument does not hold on this tree: judge by the predicate only
                    rb = [dict(x, steps=strip_model(x["steps"])) for x in rb]
                m2 = "cover-" + a + "," + b
                rr = replay_behaviours(ctx, tally, m2, rb)
                summary[m2] = {"behaviours": len(rb), "followed_exactly": count_cases(ctx, m2, rb, rr)}
        if mode == "cover" and behs:
            i = max(range(len(behs)), key=lambda j: len(behs[j]["steps"]))
            ctx.sample({"mode": mode, "behaviour": [(s["a"], s["s"], s["cfg"], s["add"], s["rem"]) for s in behs[i]["steps"]],
                        "result": results[i]})
    ctx.cov["replay"] = summary

    # 4. code -> spec: seeded random histories, validated by TLC
    n, length = (3000, 14) if ctx.thorough else (300, 12)
    rfile = os.path.join(ctx.work, "random.ndjson")
    ctx.harness(["c08-random", "-n", str(n), "-len", str(length), "-cap", "2", "-out", rfile], timeout=900)
    rnd = kit.read_ndjson(rfile)
    events = []
    for r in rnd:
        tally.judge("random", {"static": r.get("static"), "updates": r.get("updates"), "seed": r.get("seed")}, r)
        if r.get("crash"):
            ctx.case(key=["random-crash", r.get("seed")], nontrivial=True)
            continue
        if r.get("err"):
            continue
        events += r["events"]
        ctx.case(key=["random", r["static"], [(e.get("ev"), e.get("a"), e.get("s"), e.get("cfg"), e.get("add"), e.get("rem")) for e in r["events"]]],
                 nontrivial=r.get("ctlsteps", 0) > 0 and r.get("qchecks", 0) > 0)
    name = "Trace_ConfigFlow_tree.cfg"
    p = write_cfg(ctx, name, cfg_text("TraceSpec", consts(flags, svcs=tla_set(ALL_NAMES), naddr=3, h=1000000),
                                      ["INVARIANTS TypeOK NoDupStore ViewsReadable", "POSTCONDITION TraceAccepted"]))
    good = [r for r in rnd if not r.get("err") and not r.get("crash")]
    tfile = os.path.join(ctx.work, "trace.json")
    with open(tfile, "w") as f:
        json.dump(events, f, separators=(",", ":"))
    tr = ctx.tlc("config", "ConfigFlowTrace", name, workers=1, deadlock=False, timeout=900, extra_files=[tfile, p])
    m = re.search(r'<<\s*"@@REJECT",\s*(\d+),\s*(.*?)\s*>>', tr.stdout, re.S)
    tr.reject = (int(m.group(1)), m.group(2)) if m else None
    if tr.timeout or (tr.error and not tr.violated):
        raise kit.Inconclusive("TLC trace validation: %s" % tr.error[:1000])
    if tr.ok:
        ctx.cov["traces_validated_against_impl"] += len(good)
    if not tr.ok:
        tally.drift.append({"mode": "random", "reject": str(tr.reject)[:800], "violated": tr.violated})
    if good:
        ctx.sample({"mode": "random", "seed": good[0]["seed"], "static": good[0]["static"],
                    "updates": [(u["a"], u["s"], u["cfg"], u["add"], u["rem"]) for u in good[0]["updates"]],
                    "quiescent_points_judged": good[0]["qchecks"], "violations": good[0].get("viol", [])[:2]})
    ctx.cov["random"] = {"histories": len(rnd), "trace_events": len(events), "accepted_by_ConfigFlowTrace": bool(tr.ok)}

    ctx.cov["judged"] = {"quiescent_points_judged_by_Converged": tally.qchecks, "unknown_service_updates_judged": tally.uchecks,
                         "events_handled_by_real_controller": tally.ctlsteps, "steps_with_handler_blocked_on_full_channel": tally.blocked,
                         "add_events_read_with_a_stale_slot_through_the_aliased_slice": tally.aliased}
    ctx.cov["finding_counts"] = dict(tally.sigs)
    ctx.cov["model_drift"] = len(tally.drift)
    ctx.cov["worker_crashes"] = tally.crashes
    ctx.cov["rule"] = ("behaviours = every transition of ConfigFlowGen's state graph (BFS path + transition) for the tree's Fix* flags, seeded TLC "
                       "simulation (H=12, 3 addresses), seeded random histories on the code; distinct by the sequence of updates and controller "
                       "steps; non-trivial = the real controller handled at least one event and Converged was judged at at least one quiescent point")
    if tally.errors:
        raise kit.Inconclusive("harness could not execute %d behaviours: %s" % (len(tally.errors), "; ".join(tally.errors[:3])))
    if tally.drift:
        for d in tally.drift[:5]:
            print("MODEL-DRIFT module=ConfigFlow %s" % json.dumps(d)[:600], flush=True)
            ctx.notes.append("MODEL-DRIFT " + json.dumps(d)[:600])
        if not ctx.violations:   # with a violation in hand the drift is a consequence to note, not a reason to withhold the verdict
            raise kit.Inconclusive("the real store/controller left the model %d times (flags %s): the exhaustive result does not transfer"
                                   % (len(tally.drift), flags))
    if not ctx.violations and (tally.blocked == 0 or tally.uchecks == 0 or tally.aliased == 0):
        raise kit.Inconclusive("vacuous replay: no handler ever blocked on the full channel / no unknown-service update / "
                               "no add-event read after the store mutated the aliased slice")
