"""C04 - slot migration and failover are invisible to clients.

spec/redis/Cluster.tla with one slot migration (set migrating/importing, move individual keys, finalise) interleaved
at any point with client commands, the proxy's redirect handling (MOVED -> resend; ASK -> ASKING + resend as two
separate enqueues) and the table refresh:
 1. exhaustive TLC run with a loaded table: EqualsReference, EffectOnce, SingleCopy, CopyIsReference, NoLostKey;
 2. with an EMPTY table at start TLC finds the recorded counterexample (a command routed to a random node consumes
    another request's ASKING flag on the importing node: two copies of a key) - it must still be found, and the
    repaired design (AtomicAsk) must be clean (thorough tier);
 3. spec -> code: TLC simulation emits command/migration histories; replayed end-to-end (see C03), replies compared
    with the single-server reference, no MOVED/ASK may reach the client, each write executed exactly once, one copy of
    each key at the end, redirections stop within 4 refresh rounds once the layout has settled (C07, second sentence);
 4. the counterexample of (2) is forced on the real code with one pause point between ASKING and the resent command.
"""
import os

import kit
from checks import clusterlib

LEVEL = "model_checking"


def run(ctx):
    ctx.build("cluster")
    ctx.assumptions += [
        "one migration per model run (a redirection delayed across several migrations of the same slot misbehaves with any Redis Cluster client)",
        "failover is not part of the model; node semantics are those of harness/internal/simredis",
        "MaxHops bounds redirections per request in the exhaustive runs (state constraint)",
    ]
    r = ctx.mc("redis", "MC_Cluster", "MC_Cluster_migration.cfg", workers=8, timeout=1500, coverage=False)
    ctx.mc("redis", "MC_Cluster", "MC_Cluster_migration_emptytable.cfg", workers=8, timeout=900,
           expect_violated=["SingleCopy", "CopyIsReference", "EqualsReference"], count=False)
    if ctx.thorough:
        ctx.mc("redis", "MC_Cluster", "MC_Cluster_migration_emptytable_atomic.cfg", workers=8, timeout=1500)
    clusterlib.gen_and_replay(ctx, "Gen_Cluster_migration.cfg", 250 if ctx.thorough else 30, False, "migration")
    afile = os.path.join(ctx.work, "askrace.ndjson")
    ctx.harness(["cluster-askrace", "-out", afile, "-runs", "6" if ctx.thorough else "2"], timeout=600, name="cluster")
    for r in kit.read_ndjson(afile):
        if r.get("err") or not r.get("parked"):
            ctx.notes.append("askrace: " + str(r.get("err")))
            continue
        ctx.case(key=["askrace", r["attempts"], r["stolen"]], nontrivial=True)
        if r["copiesA1"] != 1:
            ctx.violation("split-key/asking-flag-stolen-empty-table",
                          "with an empty routing table a command sent to a random node ran on the importing node with another request's "
                          "ASKING flag: key has %d copies %s" % (r["copiesA1"], r["values"]), r)
    ctx.cov["rule"] = ("histories = TLC simulation of ClusterGen (one migration), distinct by event sequence, non-trivial = contains a migration step; "
                       "plus the forced ASKING-interleaving schedule")
