"""C04 - slot migration and failover are invisible to clients.

spec/redis/Cluster.tla with one slot migration (set migrating/importing, move individual keys, finalise) interleaved
at any point with client commands, the proxy's redirect handling (MOVED -> resend; ASK -> ASKING + resend as two
separate enqueues) and the table refresh:
 1. exhaustive TLC run with a loaded table: EqualsReference, EffectOnce, SingleCopy, CopyIsReference, NoLostKey;
 2. with an EMPTY table at start the pinned design (ASKING and the command as two separate sends) has a counterexample (a
    command routed to a random node consumes another request's ASKING flag on the importing node: two copies of a key) -
    TLC must still find it (anti-vacuity); the repaired design (AtomicAsk: the backend writer emits both back to back) is clean;
 3. spec -> code: TLC simulation emits command/migration histories; replayed end-to-end (see C03), replies compared
    with the single-server reference, no MOVED/ASK may reach the client, each write executed exactly once, one copy of
    each key at the end, redirections stop within 4 refresh rounds once the layout has settled (C07, second sentence);
 4. the schedule of that counterexample is forced on the real code: the backend writer is parked between ASKING and the
    command while other sessions send commands for keys of the migrating slot to the same node - none may run in between;
 5. failover: a master is replaced by its replica (old master dies or is demoted); TLC: ConvergesAfterDialError (the pinned
    variant without refresh-on-dial-error must fail); code: reads heal within a few requests, writes reach the new master;
 6. order of redirected requests: backend connections are made on first use (LazyConnect); the reader of the connection that
    got MOVED / ASK resends the request itself (it dials the target if need be), so two commands on one key that take the
    same way are executed in the order issued (RedirectKeepsOrder). The broken variant AsyncRedirectDial (a redirection to a
    node without a connection is resent by a goroutine of its own) must violate it (anti-vacuity, window W_RedirectToFreshNode).
    Code: (a) behaviours of ONE pipelining client from ClusterGen (Pipelined, LazyConnect: the proxy starts with one seed)
    are replayed with every burst written in one piece, the refresher held back; (b) cluster-redirorder sets the window up
    every run - slot migrating / moved to a node that never carried traffic, replica promoted that was never contacted -
    and several connections write order-revealing pipelines; replies and final data must be those of a single server;
 7. demotion (WithDemotion): the replaced master stays alive as a replica. The code sends READONLY on every backend connection
    (ReadonlyEverywhere), so the demoted node serves reads itself: TLC finds a read overtaking the redirected write issued
    before it (6 states); cluster-redirorder's stratum demoted-read shows it on the code (pipeline SET k v; GET k -> old value).
 8. redirect chains (StaleTableAtStart, MaxMigs = 2, MaxFollowed): one request may need two or three redirections (stale table +
    half-migrated slot: MOVED then ASK; two changes of ownership between refreshes: MOVED then MOVED; finalise and a further
    move between the ASK and the resend: ASK then MOVED). TLC: clean without a bound on the redirections followed, NoRedirectError
    violated with MaxFollowed = 1 and = 2. Code: behaviours with a stale table and the refresher held back (Gen_Cluster_stale.cfg),
    and cluster-redirchain sets up moved-ask, moved-moved, ask-moved, moved-ask-moved every run (read and write each).
 9. failover strata (DeathKinds, PromotedFlags, RefreshOnTimeout, ParserSkips): the replaced master's address refuses connections or
    its machine vanished (connect times out); the promoted node is reported as master / master,nofailover / myself,master, with
    healthy neighbours merely suspected (fail?). TLC: clean as the code is; a refresh only after a REFUSED connect, or a parser that
    drops nofailover lines, never converges. Code: cluster-failflags, 2 x 4 strata every run (a black hole on the dead node's port).

Modules owned (with C03): see checks/c03.py.
"""
import os

import kit
from checks import clusterlib

LEVEL = "model_checking"


def run(ctx):
    ctx.build("cluster")
    ctx.assumptions += [
        "one migration per model run (a redirection delayed across several migrations of the same slot misbehaves with any Redis Cluster client)",
        "failover is modelled as a standby node taking over slots and data of a master that dies (no asynchronous replication lag); node semantics are those of harness/internal/simredis",
        "MaxHops bounds redirections per request in the exhaustive runs (state constraint)",
    ]
    # the repaired code sends ASKING and the command back to back (AtomicAsk): clean with a loaded and with an empty table
    r = ctx.mc("redis", "MC_Cluster", "MC_Cluster_migration_thorough.cfg" if ctx.thorough else "MC_Cluster_migration.cfg",
               workers=(8 if ctx.thorough else 4), timeout=1500, coverage=False)
    ctx.mc("redis", "MC_Cluster", "MC_Cluster_migration_emptytable_atomic.cfg" if ctx.thorough else "MC_Cluster_migration_emptytable_atomic_quick.cfg",
           workers=(8 if ctx.thorough else 4), timeout=1500)
    # the pinned design (two separate sends) must still yield its counterexample with an empty table (anti-vacuity)
    ctx.mc("redis", "MC_Cluster", "MC_Cluster_migration_emptytable.cfg" if ctx.thorough else "MC_Cluster_migration_emptytable_small.cfg", workers=(8 if ctx.thorough else 4), timeout=900,
           expect_violated=["SingleCopy", "CopyIsReference", "EqualsReference"], count=False)
    # failover: a master is replaced by a standby node and dies; a request that fails against the dead master must make
    # the table converge (repaired code: a dial error triggers a refresh); the pinned variant must fail
    ctx.mc("redis", "MC_Cluster", "MC_Cluster_failover_fixed_thorough.cfg" if ctx.thorough else "MC_Cluster_failover_fixed.cfg",
           workers=(8 if ctx.thorough else 4), timeout=900)
    ctx.mc("redis", "MC_Cluster", "MC_Cluster_failover_pinned.cfg", workers=4, timeout=600,
           expect_violated=["TEMPORAL", "ConvergesAfterDialError"], count=False)
    # the replaced master is gone in one of two ways (connections refused / the connect times out) and the promoted node carries
    # one of several flag sets in CLUSTER NODES (the configuration above has them all): a proxy that asks for the table only
    # after a REFUSED connect, and a parser that drops the line of a node flagged nofailover, must both fail to converge
    ctx.mc("redis", "MC_Cluster", "MC_Cluster_failover_timeout.cfg", workers=2, timeout=600,
           expect_violated=["TEMPORAL", "ConvergesAfterDialError"], count=False)
    ctx.mc("redis", "MC_Cluster", "MC_Cluster_failover_skipflags.cfg", workers=2, timeout=600,
           expect_violated=["EqualsReference", "ErrorsOnlyWhileStale", "TEMPORAL", "ConvergesAfterDialError"], count=False)
    if ctx.thorough:   # a parser that drops exactly the lines flagged fail / noaddr / handshake would be safe
        ctx.mc("redis", "MC_Cluster", "MC_Cluster_failover_exactflags.cfg", workers=8, timeout=900)
    # order of redirected requests towards a node the proxy is not connected to yet: clean as the code does it (the source's
    # reader resends), counterexample when the resend is left to a goroutine of its own
    ctx.mc("redis", "MC_Cluster", "MC_Cluster_freshtarget_thorough.cfg" if ctx.thorough else "MC_Cluster_freshtarget.cfg", workers=(8 if ctx.thorough else 4), timeout=900)
    ctx.mc("redis", "MC_Cluster", "MC_Cluster_freshtarget_async.cfg", workers=4, timeout=600,
           expect_violated=["RedirectKeepsOrder"], count=False)
    # a master that stays alive as a replica of its successor: with READONLY on every backend connection (the code) the demoted
    # node answers reads itself and a read overtakes the redirected write issued before it (finding
    # stale-read/pipelined-read-served-by-demoted-master: the counterexample must stay reachable); READONLY only on connections
    # meant for replica reads is clean (proposed repair, out/proposed/C04-readonly-on-master-connections.diff)
    ctx.mc("redis", "MC_Cluster", "MC_Cluster_demotion_readonly.cfg", workers=4, timeout=600,
           expect_violated=["RedirectKeepsOrder"], count=False)
    if ctx.thorough:
        ctx.mc("redis", "MC_Cluster", "MC_Cluster_demotion_fixed.cfg", workers=4, timeout=600)
    if ctx.thorough:   # the window in the design as built: MOVED / ASK naming an unconnected node, a second command for the key queued behind
        ctx.mc("redis", "MC_Cluster", "MC_Cluster_freshtarget_window.cfg", workers=4, timeout=600,
               expect_violated=["NoRedirectToFreshNode"], count=False)
    # redirect chains: with a stale table and two migrations one request is redirected two and three times and is still
    # executed once (clean without a bound, as the code); a proxy that follows only one redirection (or two) hands the
    # MOVED / ASK error of the next one to the client - those variants must violate NoRedirectError, which also shows that
    # chains of length 2 and 3 are reachable in this configuration
    ctx.mc("redis", "MC_Cluster", "MC_Cluster_chain_thorough.cfg" if ctx.thorough else "MC_Cluster_chain.cfg", workers=4, timeout=900)
    ctx.mc("redis", "MC_Cluster", "MC_Cluster_chain_follow1.cfg", workers=2, timeout=600, expect_violated=["NoRedirectError"], count=False)
    ctx.mc("redis", "MC_Cluster", "MC_Cluster_chain_follow2.cfg", workers=2, timeout=600, expect_violated=["NoRedirectError"], count=False)
    if ctx.thorough:   # the windows in the design as built: a request executed after two / three redirections
        ctx.mc("redis", "MC_Cluster", "MC_Cluster_chain_window2.cfg", workers=2, timeout=600, expect_violated=["NoChain2"], count=False)
        ctx.mc("redis", "MC_Cluster", "MC_Cluster_chain_window3.cfg", workers=2, timeout=600, expect_violated=["NoChain3"], count=False)
    clusterlib.gen_and_replay(ctx, "Gen_Cluster_migration.cfg", 250 if ctx.thorough else 30, False, "migration")
    clusterlib.gen_and_replay(ctx, "Gen_Cluster_pipeline.cfg", 200 if ctx.thorough else 30, False, "pipeline", extra=["-pipeline"])
    # a table that is stale from the start, the refresher held back, up to two migrations: MOVED then ASK for one command
    clusterlib.gen_and_replay(ctx, "Gen_Cluster_stale.cfg", 150 if ctx.thorough else 30, False, "stale", extra=["-norefresh"])
    clusterlib.redirect_order(ctx)
    clusterlib.redirect_chain(ctx)
    clusterlib.failover_strata(ctx)
    ffile = os.path.join(ctx.work, "failover.ndjson")
    ctx.harness(["cluster-failover", "-out", ffile, "-runs", "24" if ctx.thorough else "4"], timeout=900, name="cluster")
    for r in kit.read_ndjson(ffile):
        if r.get("err"):
            ctx.notes.append("failover: " + r["err"])
            continue
        ctx.case(key=["failover", r["run"], r["kill"], r["healedAt"]], nontrivial=True)
        kind = "old-master-dies" if r["kill"] else "old-master-demoted"
        if r["leaked"]:
            ctx.violation("redirect-leak/failover/" + kind, "a MOVED/ASK reached the client after a failover: %s" % r["replies"], r)
        if r["wrongValue"]:
            ctx.violation("reply-differs/failover/" + kind, "a read after the failover returned a wrong value: %s" % r["replies"], r)
        if r["healedAt"] < 0 or r["healedAt"] > 4:
            ctx.violation("no-convergence/failover/" + kind,
                          "the promoted replica is reachable but reads keep failing (healed at request %d): %s" % (r["healedAt"], r["replies"][:4]), r)
        elif not r["writeOK"]:
            ctx.violation("write-after-failover/" + kind, "a write after the failover was not served by the new master", r)
        else:
            ctx.cov["traces_validated_against_impl"] += 1
    # concurrent readers/writers on several connections while the slot is half migrated, then finalised
    sfile = os.path.join(ctx.work, "migstress.ndjson")
    ctx.harness(["cluster-migstress", "-out", sfile, "-runs", "20" if ctx.thorough else "3", "-ms", "500" if ctx.thorough else "300"],
                timeout=900, name="cluster")
    for r in kit.read_ndjson(sfile):
        if r.get("err"):
            ctx.notes.append("migstress: " + r["err"])
            continue
        ctx.case(key=["migstress", r["run"], r["requests"]], nontrivial=True, n=r["requests"])
        for b in (r.get("bad") or [])[:3]:
            ctx.violation("reply-differs/concurrent-migration", b, r)
        for c in r.get("copies") or []:
            ctx.violation("key-copies/concurrent-migration", c, r)
        if not r.get("bad") and not r.get("copies"):
            ctx.cov["traces_validated_against_impl"] += 1
    afile = os.path.join(ctx.work, "askrace.ndjson")
    ctx.harness(["cluster-askrace", "-out", afile, "-runs", "6" if ctx.thorough else "2"], timeout=600, name="cluster")
    for r in kit.read_ndjson(afile):
        if r.get("err") or not r.get("parked"):
            ctx.notes.append("askrace: " + str(r.get("err")))
            continue
        ctx.case(key=["askrace", r["attempts"], r["stolen"]], nontrivial=True)
        if r["copiesA1"] != 1 or r["stolen"]:
            ctx.violation("split-key/asking-flag-stolen-empty-table",
                          "with an empty routing table a command sent to a random node ran on the importing node with another request's "
                          "ASKING flag: key has %d copies %s" % (r["copiesA1"], r["values"]), r)
    ctx.cov["rule"] = ("histories = TLC simulation of ClusterGen (one migration; sequential client, and one pipelining client with lazily made "
                       "backend connections), distinct by event sequence, non-trivial = contains a migration step; "
                       "plus the forced ASKING-interleaving schedule and the redirect-to-fresh-node strata (ask, moved, failover-moved, demoted-read)")
