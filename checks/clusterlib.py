"""Shared pieces of the Cluster.tla based checks (C03, C04)."""
import os

import kit


def split_commands(ctx):
    """C03: MGET / MSET / DEL / UNLINK / EXISTS / TOUCH = per-key commands combined in argument order (ClusterSplit.tla)."""
    ctx.mc("redis", "ClusterSplit", "MC_ClusterSplit_thorough.cfg" if ctx.thorough else "MC_ClusterSplit.cfg", workers=(8 if ctx.thorough else 4), timeout=1500)
    # anti-vacuity: the two ways to get the combination wrong must be caught by the module's invariants
    ctx.mc("redis", "ClusterSplit", "MC_ClusterSplit_dedup.cfg", workers=4, timeout=600,
           expect_violated=["EqualsReference", "StoreIsReference"], count=False)
    # a per-key SET answered with an error: MSET that answers OK whatever its children were answered (the code before the repair
    # of msetRequest.onChildDone) must violate EqualsReference; the main configuration above has a failing key and is clean with
    # the repaired combination (error whenever a per-key command failed)
    ctx.mc("redis", "ClusterSplit", "MC_ClusterSplit_msetok.cfg", workers=2, timeout=600,
           expect_violated=["EqualsReference"], count=False)
    ctx.mc("redis", "ClusterSplit", "MC_ClusterSplit_fold.cfg", workers=2, timeout=600,
           expect_violated=["EqualsReference"], count=False)
    if ctx.thorough:
        ctx.mc("redis", "ClusterSplit", "MC_ClusterSplit_arrival.cfg", workers=4, timeout=600,
               expect_violated=["EqualsReference"], count=False)
        # ... and de-duplication is harmless for DEL / UNLINK alone (the second occurrence counts 0 anyway)
        ctx.mc("redis", "ClusterSplit", "MC_ClusterSplit_dedup_delonly.cfg", workers=4, timeout=600, count=False)
    g = ctx.tlc("redis", "ClusterSplitGen", "Gen_ClusterSplit.cfg", mode="sim", workers=1, sim_num=120 if ctx.thorough else 20,
                sim_depth=400, seed=ctx.seed, deadlock=False, timeout=600)
    vecs = [p for (tag, p) in g.prints if tag == "VEC"]
    behs = [p for (tag, p) in g.prints if tag == "BEH"]
    if len(vecs) < 1800 or len(behs) < 5:
        raise kit.Inconclusive("ClusterSplitGen emitted %d vectors, %d programs: %s" % (len(vecs), len(behs), g.error[:300]))
    vfile = os.path.join(ctx.work, "split-vectors.ndjson")
    bfile = os.path.join(ctx.work, "split-programs.ndjson")
    rfile = os.path.join(ctx.work, "split-results.ndjson")
    kit.write_ndjson(vfile, vecs)
    kit.write_ndjson(bfile, behs)
    ctx.harness(["cluster-split", "-vec", vfile, "-in", bfile, "-out", rfile, "-wide", "40" if ctx.thorough else "10"], timeout=1500, name="cluster")
    results = kit.read_ndjson(rfile)
    strata = set()
    good = 0
    for res in results:
        if res.get("err"):
            ctx.notes.append("split %s %s: %s" % (res.get("kind"), res.get("id"), res["err"]))
            continue
        good += 1
        strata.update(res.get("strata") or [])
        src = vecs[res["id"] - 1] if res["kind"] == "vector" else behs[res["id"] - 1] if res["kind"] == "program" else {"wide": res["id"]}
        ctx.case(key=["split", res["kind"], src], nontrivial=True, n=res["cmds"])
        for b in res.get("bad") or []:
            if b["why"].startswith("child delivered"):
                sig = "first-hop-not-owner/multi-key/%s" % b["class"]
            elif b["class"] == "state":
                sig = "data-differs/multi-key/%s" % b["shape"]
            elif b["shape"] == "child-error" and b["class"] == "mwrite" and b["why"].startswith("child error swallowed"):
                sig = "reply-differs/multi-key/mset/child-error-swallowed"
            else:
                sig = "reply-differs/multi-key/%s/%s" % (b["class"], b["shape"])
            ctx.violation(sig, "%s %s (%s): got %s want %s - %s" % (b["cmd"], b["args"], b["shape"], b["got"], b["want"], b["why"]),
                          {"source": src, "result": res})
        if res["redirects"]:
            ctx.violation("redirection-on-stable-cluster", "%d redirections while a multi-key command ran on a stable cluster" % res["redirects"],
                          {"source": src, "result": res})
        if not res.get("bad") and not res["redirects"]:
            ctx.cov["traces_validated_against_impl"] += 1
    if good < len(results) * 0.9 or not results:
        raise kit.Inconclusive("split driver unhealthy: %d of %d" % (good, len(results)))
    # mandatory strata: every class, with and without a repeated key, under every concrete command name
    need = {"%s/%s/%s" % (c, sh, n) for c, names in (("mcount", ("exists", "touch")), ("mdel", ("del", "unlink")),
                                                       ("mread", ("mget",)), ("mwrite", ("mset",)))
            for sh in ("repeated-key", "distinct-keys", "wide", "child-error") for n in names}
    missing = sorted(need - strata)
    if missing and not ctx.violations:
        raise kit.Inconclusive("multi-key strata not exercised: %s" % missing)
    ctx.cov["multi_key"] = {"vectors": len(vecs), "programs": len(behs), "commands": sum(r.get("cmds", 0) for r in results),
                            "strata": sorted(strata)}
    ctx.cov["exhaustive_multi_key_vectors"] = True
    ctx.sample({"vector": vecs[len(vecs) // 2]})


def refresh_race(ctx):
    """C03: window W_RouteDuringRefresh on the real code (the refresher runs back to back under keyed traffic)."""
    rfile = os.path.join(ctx.work, "refreshrace.ndjson")
    ctx.harness(["cluster-refreshrace", "-out", rfile, "-runs", "8" if ctx.thorough else "2", "-ms", "1000" if ctx.thorough else "400"],
                timeout=900, name="cluster")
    exercised = 0
    for r in kit.read_ndjson(rfile):
        if r.get("err"):
            ctx.notes.append("refreshrace: " + r["err"])   # driver trouble; whatever was observed is still judged
        if not r.get("requests"):
            continue
        ctx.case(key=["refreshrace", r["run"], r["requests"], r["refreshes"]], nontrivial=True, n=r["requests"])
        if r["misrouted"] or r["redirects"]:
            ctx.violation("first-hop-not-owner/refresh-in-progress",
                          "%d of %d commands were delivered to a node that does not own their key (%d redirections) while the routing table "
                          "of an unchanged cluster was being refreshed (%d refreshes): %s"
                          % (r["misrouted"], r["requests"], r["redirects"], r["refreshes"], r["firstWrong"]), r)
        for b in (r.get("bad") or [])[:3]:
            ctx.violation("reply-differs/refresh-in-progress", b, r)
        if r["refreshes"] >= 10 and r["requests"] >= 300 and not r.get("err"):
            exercised += 1
            if not (r["misrouted"] or r["redirects"] or r.get("bad")):
                ctx.cov["traces_validated_against_impl"] += 1
    if not exercised and not ctx.violations:
        raise kit.Inconclusive("refresh window not exercised (no run with >= 10 refreshes under >= 300 requests)")


def redirect_order(ctx):
    """C04: window W_RedirectToFreshNode on the real code (pipelines redirected to a node the proxy has no connection to)."""
    rfile = os.path.join(ctx.work, "redirorder.ndjson")
    ctx.harness(["cluster-redirorder", "-out", rfile, "-runs", "6" if ctx.thorough else "2", "-cmds", "300" if ctx.thorough else "240"],
                timeout=900, name="cluster")
    reached = {}
    for r in kit.read_ndjson(rfile):
        kind = r.get("kind", "?")
        if r.get("err"):
            ctx.notes.append("redirorder %s: %s" % (kind, r["err"]))
            continue
        ctx.case(key=["redirorder", kind, r["run"]], nontrivial=True, n=r["conns"] * r["cmds"])
        # the window: the target had never been connected and the pipelines went over the old owner
        window = r["freshBefore"] and r["redirected"] >= r["conns"] and r["targetServed"] >= r["conns"]
        reached[kind] = reached.get(kind, 0) + (1 if window else 0)
        if kind == "demoted-read":
            # SET k v; GET k in one pipeline after the master has been demoted: the read must see the write
            if r.get("bad"):
                ctx.violation("stale-read/pipelined-read-served-by-demoted-master",
                              "after a failover in which the old master stays alive as a replica, a client pipeline SET k v; GET k gets the old "
                              "value: the write is redirected (MOVED) to the new master, the read is answered by the demoted node itself "
                              "(every backend connection is READONLY) before the write has been executed: %s" % r["bad"][0], r)
            elif window:
                ctx.cov["traces_validated_against_impl"] += 1
            continue
        where = "redirect-to-fresh-node/" + kind
        for b in (r.get("bad") or [])[:2]:
            ctx.violation("reply-differs/" + where, "%s; the target executed %s" % (b, r.get("arrival") or "?"), r)
        for b in (r.get("final") or [])[:2]:
            ctx.violation("data-differs/" + where, b, r)
        for b in (r.get("leaked") or [])[:2]:
            ctx.violation("redirect-leak/" + where, b, r)
        for b in (r.get("twice") or [])[:2]:
            ctx.violation("effect-not-once/" + where, b, r)
        if window and not (r.get("bad") or r.get("final") or r.get("leaked") or r.get("twice")):
            ctx.cov["traces_validated_against_impl"] += 1
    missing = [k for k in ("ask", "moved", "failover-moved", "demoted-read") if not reached.get(k)]
    if missing and not ctx.violations:
        raise kit.Inconclusive("redirect-to-fresh-node window not reached for: %s" % missing)
    ctx.cov["redirect_to_fresh_node"] = reached


def failover_strata(ctx):
    """C04: failover strata DeathKinds x PromotedFlags on the real code (cluster-failflags)."""
    rfile = os.path.join(ctx.work, "failflags.ndjson")
    ctx.harness(["cluster-failflags", "-out", rfile, "-runs", "3" if ctx.thorough else "1"], timeout=1500, name="cluster")
    done = set()
    for r in kit.read_ndjson(rfile):
        stratum = "%s/%s" % (r.get("death"), r.get("flags"))
        if r.get("err"):
            ctx.notes.append("failflags %s: %s" % (stratum, r["err"]))
            continue
        expect = "refused" if r["death"] == "refused" else "timeout"
        if expect not in r.get("dialErr", ""):
            ctx.notes.append("failflags %s: the old master's address answers %r, not %s" % (stratum, r.get("dialErr"), expect))
            continue
        done.add(stratum)
        ctx.case(key=["failflags", stratum, r["run"]], nontrivial=True, n=r["attempts"])
        where = "failover/%s/%s" % (r["death"], r["flags"])
        what = ("old master gone (%s), promoted replica reported as %r: " % (r["dialErr"], r.get("nodesLine")))
        bad = False
        if r["leaked"]:
            bad = True
            ctx.violation("redirect-leak/" + where, what + "a MOVED/ASK reached the client: %s" % r["replies"], r)
        if r["wrongValue"]:
            bad = True
            ctx.violation("reply-differs/" + where, what + "a read returned a wrong value: %s" % r["replies"], r)
        if r["healedMs"] < 0:
            bad = True
            if r.get("confirmed"):
                ctx.violation("no-convergence/" + where,
                              what + "the promoted node is reachable and every node names it as the owner, but %d reads over 6 s all failed "
                              "(twice): %s" % (r["attempts"], r["replies"][-1:]), r)
        elif not r["writeOK"]:
            bad = True
            ctx.violation("write-after-failover/" + where, what + "a write after the failover was not served by the new master", r)
        elif r["errorsAfter"]:
            bad = True
            ctx.violation("errors-remain/" + where, what + "%d of 6 reads failed after the first correct reply" % r["errorsAfter"], r)
        if not bad:
            ctx.cov["traces_validated_against_impl"] += 1
    need = {"%s/%s" % (d, f) for d in ("refused", "blackholed") for f in ("master", "master,nofailover", "myself,master", "master+pfail")}
    missing = sorted(need - done)
    if missing and not ctx.violations:
        raise kit.Inconclusive("failover strata not exercised: %s" % missing)
    ctx.cov["failover_strata"] = sorted(done)


def redirect_chain(ctx):
    """C04: windows W_Chain2 / W_Chain3 on the real code (one request needs two or three redirections)."""
    rfile = os.path.join(ctx.work, "redirchain.ndjson")
    ctx.harness(["cluster-redirchain", "-out", rfile, "-runs", "4" if ctx.thorough else "1"], timeout=900, name="cluster")
    reached = {}
    for r in kit.read_ndjson(rfile):
        kind = r.get("kind", "?")
        if r.get("err"):
            ctx.notes.append("redirchain %s/%s: %s" % (kind, r.get("op"), r["err"]))
            continue
        ctx.case(key=["redirchain", kind, r["op"]], nontrivial=True)
        what = "%s of a key that needs the redirections %s: the client received %s, a single server replies %s (%d redirections answered, executed %d times)" % (
            r["op"], kind, r["got"], r["expected"], r["chain"], r["executed"])
        bad = False
        if r["leaked"]:
            bad = True
            ctx.violation("redirect-error/chain-" + kind, what, r)
        elif r["differs"]:
            bad = True
            ctx.violation("reply-differs/chain-" + kind, what, r)
        if r["executed"] != 1 and not r["leaked"]:
            bad = True
            ctx.violation("effect-not-once/chain-" + kind, what, r)
        if r.get("final") and not r["leaked"]:
            bad = True
            ctx.violation("data-differs/chain-" + kind, what + "; " + r["final"], r)
        if r["chain"] >= r["wantChain"]:
            reached[kind] = reached.get(kind, 0) + 1
            if not bad:
                ctx.cov["traces_validated_against_impl"] += 1
    missing = [k for k in ("moved-ask", "moved-moved", "ask-moved", "moved-ask-moved") if reached.get(k, 0) < 2]
    if missing and not ctx.violations:
        raise kit.Inconclusive("redirect chains not reached (read and write) for: %s" % missing)
    ctx.cov["redirect_chains"] = reached


def gen_and_replay(ctx, gencfg, num, stable, label, extra=()):
    g = ctx.tlc("redis", "ClusterGen", gencfg, mode="sim", workers=1, sim_num=num, sim_depth=600,
                seed=ctx.seed, deadlock=False, timeout=600)
    behs = [p for (tag, p) in g.prints if tag == "BEH"]
    if len(behs) < num // 2:
        raise kit.Inconclusive("only %d behaviours emitted: %s" % (len(behs), g.error[:300]))
    bfile = os.path.join(ctx.work, "behaviours-%s.ndjson" % label)
    kit.write_ndjson(bfile, behs)
    rfile = os.path.join(ctx.work, "replay-%s.ndjson" % label)
    # every behaviour starts a processor of its own in the driver process, whose footprint grows by some MB per behaviour
    # (4 GB for 250): replay in chunks, one driver process per chunk, so that a loaded machine does not kill the driver
    results = []
    chunk = 50
    for lo in range(0, len(behs), chunk):
        cin = os.path.join(ctx.work, "behaviours-%s-%d.ndjson" % (label, lo))
        cout = os.path.join(ctx.work, "replay-%s-%d.ndjson" % (label, lo))
        kit.write_ndjson(cin, behs[lo:lo + chunk])
        args = ["cluster-replay", "-in", cin, "-out", cout] + list(extra)
        if stable:
            args.append("-stable")
        ctx.harness(args, timeout=3000, name="cluster", env={"VERIF_SEED": str(ctx.seed + lo * 7919)})
        part = kit.read_ndjson(cout)
        for r in part:
            r["id"] = r.get("id", 0) + lo
        results += part
        if len(part) != len(behs[lo:lo + chunk]):
            raise kit.Inconclusive("replay %s: %d results for %d behaviours" % (label, len(part), len(behs[lo:lo + chunk])))
    kit.write_ndjson(rfile, results)
    good = 0
    for res, beh in zip(results, behs):
        if res.get("err"):
            ctx.notes.append("replay %s %d: %s" % (label, res["id"], res["err"]))
            continue
        good += 1
        mig = [s["a"] for s in beh if s["a"] in ("setmigrating", "migratekey", "finalise")]
        pipelined = label == "pipeline"
        held = label in ("pipeline", "stale")   # the refresher is held back: convergence is not the subject
        ctx.case(key=[label] + [(s["a"], s["op"], s["k"], s["exp"], s.get("p", 0)) for s in beh], nontrivial=(len(mig) > 0) or stable, n=res["cmds"])
        art = {"behaviour": beh, "result": res}
        phase = "stable" if stable else ("+".join(sorted(set(mig))) or "no-migration")
        if pipelined:
            phase = "pipelined/" + phase
        if label == "stale":
            phase = "stale-table/" + phase
        for b in res.get("bad") or []:
            if "leaked" in b["why"]:
                sig = "redirect-leak/" + phase
            elif "no reply" in b["why"]:
                sig = "no-reply/" + phase
            else:
                sig = "reply-differs/" + phase
            ctx.violation(sig, "step %s %s: got %s want %s (%s)" % (b["step"], b["cmd"], b["got"], b["want"], b["why"]), art)
        for c in res.get("copies") or []:
            ctx.violation("key-copies/" + phase, c, art)
        for c in res.get("execCounts") or []:
            ctx.violation("effect-not-once/" + phase, c, art)
        if stable and res["redirects"] > 0:
            ctx.violation("redirection-on-stable-cluster", "%d redirections although the layout never changed" % res["redirects"], art)
        if not stable and not held and not res["migratingAtEnd"] and res["redirectsAfter"] > 0:
            ctx.violation("no-convergence/" + phase, "%d redirections in the last of up to 40 rounds after the layout settled" % res["redirectsAfter"], art)
        if not (res.get("bad") or res.get("copies") or res.get("execCounts")):
            ctx.cov["traces_validated_against_impl"] += 1
    if good < len(behs) * 0.8:
        raise kit.Inconclusive("replay driver unhealthy: %d of %d" % (good, len(behs)))
    ctx.cov.setdefault("replay", {})[label] = {"behaviours": len(behs), "replayed": good,
                                               "commands": sum(r.get("cmds", 0) for r in results),
                                               "redirections": sum(r.get("redirects", 0) for r in results),
                                               "behaviours_with_a_chain_of_2_redirections": sum(1 for r in results if r.get("maxChain", 0) >= 2),
                                               "bursts": sum(r.get("bursts", 0) for r in results),
                                               "bursts_redirected_to_fresh_node": sum(r.get("freshRedirects", 0) for r in results)}
    if results:
        ctx.sample({"behaviour": behs[0][:10], "result": {k: v for k, v in results[0].items() if k != "bad"}})
    return results
