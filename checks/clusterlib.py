"""Shared pieces of the Cluster.tla based checks (C03, C04)."""
import os

import kit


def gen_and_replay(ctx, gencfg, num, stable, label, extra=()):
    g = ctx.tlc("redis", "ClusterGen", gencfg, mode="sim", workers=1, sim_num=num, sim_depth=600,
                seed=ctx.seed, deadlock=False, timeout=600)
    behs = [p for (tag, p) in g.prints if tag == "BEH"]
    if len(behs) < num // 2:
        raise kit.Inconclusive("only %d behaviours emitted: %s" % (len(behs), g.error[:300]))
    bfile = os.path.join(ctx.work, "behaviours-%s.ndjson" % label)
    kit.write_ndjson(bfile, behs)
    rfile = os.path.join(ctx.work, "replay-%s.ndjson" % label)
    args = ["cluster-replay", "-in", bfile, "-out", rfile] + list(extra)
    if stable:
        args.append("-stable")
    ctx.harness(args, timeout=3000, name="cluster")
    results = kit.read_ndjson(rfile)
    good = 0
    for res, beh in zip(results, behs):
        if res.get("err"):
            ctx.notes.append("replay %s %d: %s" % (label, res["id"], res["err"]))
            continue
        good += 1
        mig = [s["a"] for s in beh if s["a"] in ("setmigrating", "migratekey", "finalise")]
        ctx.case(key=[(s["a"], s["op"], s["k"], s["exp"]) for s in beh], nontrivial=(len(mig) > 0) or stable, n=res["cmds"])
        art = {"behaviour": beh, "result": res}
        phase = "stable" if stable else ("+".join(sorted(set(mig))) or "no-migration")
        for b in res.get("bad") or []:
            if "leaked" in b["why"]:
                sig = "redirect-leak/" + phase
            elif "no reply" in b["why"]:
                sig = "no-reply/" + phase
            else:
                sig = "reply-differs/" + phase
            ctx.violation(sig, "step %s %s: got %s want %s (%s)" % (b["step"], b["cmd"], b["got"], b["want"], b["why"]), art)
        for c in res.get("copies") or []:
            ctx.violation("key-copies/" + phase, c, art)
        for c in res.get("execCounts") or []:
            ctx.violation("effect-not-once/" + phase, c, art)
        if stable and res["redirects"] > 0:
            ctx.violation("redirection-on-stable-cluster", "%d redirections although the layout never changed" % res["redirects"], art)
        if not stable and not res["migratingAtEnd"] and res["redirectsAfter"] > 0:
            ctx.violation("no-convergence/" + phase, "%d redirections in the last of up to 40 rounds after the layout settled" % res["redirectsAfter"], art)
        if not (res.get("bad") or res.get("copies") or res.get("execCounts")):
            ctx.cov["traces_validated_against_impl"] += 1
    if good < len(behs) * 0.8:
        raise kit.Inconclusive("replay driver unhealthy: %d of %d" % (good, len(behs)))
    ctx.cov.setdefault("replay", {})[label] = {"behaviours": len(behs), "replayed": good,
                                               "commands": sum(r.get("cmds", 0) for r in results),
                                               "redirections": sum(r.get("redirects", 0) for r in results)}
    if results:
        ctx.sample({"behaviour": behs[0][:10], "result": {k: v for k, v in results[0].items() if k != "bad"}})
    return results
