"""C03 - on a stable cluster the proxy behaves like a single Redis server.

spec/redis/Cluster.tla with migration disabled and a loaded table:
 1. exhaustive TLC run: EqualsReference, EffectOnce, SingleCopy, CopyIsReference, NoLostKey, FirstHopIsOwner
    for all layouts of 2 slots / 3 keys over the nodes and all command programs up to the bound;
 2. spec -> code: TLC simulation emits programs (with the reply a single server gives); each is replayed on a real
    Redis processor against a simulated 3-master cluster laid out as in the behaviour; abstract read/write
    commands are concretised to string/hash/list commands with binary-unsafe values (CR, LF, NUL, RESP markers,
    empty, > 1 MiB in the thorough tier); every reply is compared byte-for-byte with a single reference engine
    executing the same program, plus MGET/EXISTS observers spanning nodes; no redirection may occur;
 3. every supported keyed command (the proxy's own tables) is sent with random keys (hash tags, CR LF NUL) and
    arguments: exactly one backend command, at the owner of the key's slot, arguments byte-identical, reply =
    reference;
 4. the routing table is rewritten entry by entry, without a lock, while commands are routed (Cluster.tla StepwiseRefresh,
    Tick): FirstHopIsOwner must hold at every point of a refresh; the broken variant ClearBeforeFill (table emptied before
    it is rewritten) must violate it (anti-vacuity). Code: cluster-refreshrace lets the refresher run back to back while
    several connections issue keyed commands; no command may reach a node that does not own its key, no redirection;
 5. multi-key commands are their per-key commands combined in ARGUMENT ORDER (spec/redis/ClusterSplit.tla: RefMulti is the
    definition, the machine is Split / per-node FIFO / assembly by position; broken variants DedupKeys and AssembleByArrival
    must violate EqualsReference). TLC emits the complete space of argument lists up to the bound, WITH repeated keys, over
    every set of existing keys (@@VEC) and random programs (@@BEH); each is sent through the proxy as EXISTS, TOUCH, DEL,
    UNLINK, MGET, MSET and judged against the single reference engine and against the specification's reply. A per-key
    command may fail (the node answers an error for one key, simredis scripted reply): the combination is an error reply
    whenever a per-key command failed, MGET may carry it in the element's position (ClusterSplit.tla Allowed); the variant
    MsetIgnoresChildErrors (MSET answers OK whatever its children were answered) must violate EqualsReference; stratum
    child-error of cluster-split on the code.

Modules owned (with C04): spec/redis/Cluster.tla, ClusterGen.tla, ClusterSplit.tla, ClusterSplitGen.tla, MC_Cluster*.cfg,
MC_ClusterSplit*.cfg, Gen_Cluster*.cfg, Gen_ClusterSplit.cfg; harness/cases/cluster, harness/cmd/cluster; checks/clusterlib.py.
"""
import os

import kit
from checks import clusterlib

LEVEL = "model_checking"


def run(ctx):
    ctx.build("cluster")
    ctx.assumptions += [
        "per-command data semantics are those of harness/internal/simredis (it plays both the cluster and the reference, so its errors cancel out)",
        "the model abstracts commands to read/write of single keys; splitting/assembly of multi-key commands is exercised by the replay observers and by C01",
    ]
    r = ctx.mc("redis", "MC_Cluster", "MC_Cluster_stable_thorough.cfg" if ctx.thorough else "MC_Cluster_stable.cfg",
               workers=(8 if ctx.thorough else 4), timeout=1500, coverage=not ctx.thorough)
    if r.coverage:
        ctx.check_vacuity(r, "Cluster", ignore=("AskSecond", "Refresh", "SetMigrating", "MigrateKey", "Finalise", "DialError", "Failover",
                                                "ParkedResend"))
        for a in ("RefreshBegin", "RefreshWrite", "Tick"):
            if not r.coverage.get(a):
                raise kit.Inconclusive("vacuous model Cluster (stable): action %s never taken" % a)
    # anti-vacuity: a refresher that empties the table before it rewrites it breaks FirstHopIsOwner on a stable cluster
    ctx.mc("redis", "MC_Cluster", "MC_Cluster_stable_clearfirst.cfg", workers=4, timeout=600,
           expect_violated=["FirstHopIsOwner"], count=False)
    if ctx.thorough:   # the window itself: a command can be routed between two table writes of one refresh
        ctx.mc("redis", "MC_Cluster", "MC_Cluster_stable_window.cfg", workers=4, timeout=600,
               expect_violated=["NoRouteDuringRefresh"], count=False)
    clusterlib.split_commands(ctx)
    clusterlib.refresh_race(ctx)
    clusterlib.gen_and_replay(ctx, "Gen_Cluster_stable.cfg", 200 if ctx.thorough else 25, True, "stable",
                              extra=["-big"] if ctx.thorough else [])
    cfile = os.path.join(ctx.work, "cmds.ndjson")
    ctx.harness(["cluster-cmds", "-out", cfile, "-per", "6" if ctx.thorough else "2"], timeout=900, name="cluster")
    n = 0
    for r in kit.read_ndjson(cfile):
        n += 1
        ctx.case(key=["cmd", r["cmd"], r.get("key", "")], nontrivial=True)
        if not r.get("ok"):
            ctx.violation("relay/" + r["cmd"], "%s %r: %s (got %s want %s)" % (r["cmd"], r.get("key"), r.get("why"), r.get("got"), r.get("want")), r)
    ctx.cov["commands_relayed"] = n
    ctx.cov["rule"] = ("programs = TLC simulation of ClusterGen (stable), distinct by event sequence; per-command relay cases distinct by (command, key); "
                       "multi-key vectors = the complete set emitted by ClusterSplitGen, distinct by (existing keys, class, argument list); "
                       "refresh-race runs counted by their requests; "
                       "all are non-trivial (every case routes at least one keyed command through the real proxy)")
