"""C03 - on a stable cluster the proxy behaves like a single Redis server.

spec/redis/Cluster.tla with migration disabled and a loaded table:
 1. exhaustive TLC run: EqualsReference, EffectOnce, SingleCopy, CopyIsReference, NoLostKey, FirstHopIsOwner
    for all layouts of 2 slots / 3 keys over the nodes and all command programs up to the bound;
 2. spec -> code: TLC simulation emits programs (with the reply a single server gives); each is replayed on a real
    Redis processor against a simulated 3-master cluster laid out as in the behaviour; abstract read/write
    commands are concretised to string/hash/list commands with binary-unsafe values (CR, LF, NUL, RESP markers,
    empty, > 1 MiB in the thorough tier); every reply is compared byte-for-byte with a single reference engine
    executing the same program, plus MGET/EXISTS observers spanning nodes; no redirection may occur;
 3. every supported keyed command (the proxy's own tables) is sent with random keys (hash tags, CR LF NUL) and
    arguments: exactly one backend command, at the owner of the key's slot, arguments byte-identical, reply =
    reference.
"""
import os

import kit
from checks import clusterlib

LEVEL = "model_checking"


def run(ctx):
    ctx.build("cluster")
    ctx.assumptions += [
        "per-command data semantics are those of harness/internal/simredis (it plays both the cluster and the reference, so its errors cancel out)",
        "the model abstracts commands to read/write of single keys; splitting/assembly of multi-key commands is exercised by the replay observers and by C01",
    ]
    r = ctx.mc("redis", "MC_Cluster", "MC_Cluster_stable_thorough.cfg" if ctx.thorough else "MC_Cluster_stable.cfg",
               workers=8, timeout=1500, coverage=not ctx.thorough)
    if r.coverage:
        ctx.check_vacuity(r, "Cluster", ignore=("AskSecond", "Refresh", "SetMigrating", "MigrateKey", "Finalise", "DialError", "Failover"))
    clusterlib.gen_and_replay(ctx, "Gen_Cluster_stable.cfg", 200 if ctx.thorough else 25, True, "stable",
                              extra=["-big"] if ctx.thorough else [])
    cfile = os.path.join(ctx.work, "cmds.ndjson")
    ctx.harness(["cluster-cmds", "-out", cfile, "-per", "6" if ctx.thorough else "2"], timeout=900, name="cluster")
    n = 0
    for r in kit.read_ndjson(cfile):
        n += 1
        ctx.case(key=["cmd", r["cmd"], r.get("key", "")], nontrivial=True)
        if not r.get("ok"):
            ctx.violation("relay/" + r["cmd"], "%s %r: %s (got %s want %s)" % (r["cmd"], r.get("key"), r.get("why"), r.get("got"), r.get("want")), r)
    ctx.cov["commands_relayed"] = n
    ctx.cov["rule"] = ("programs = TLC simulation of ClusterGen (stable), distinct by event sequence; per-command relay cases distinct by (command, key); "
                       "all are non-trivial (every case routes at least one keyed command through the real proxy)")
