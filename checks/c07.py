"""C07 - the proxy heals after connection loss and topology change.

spec/redis/ConnTable.tla: backend connection table + shared connect calls + client exit/removal + resetAllClients.
 1. exhaustive TLC run of the repaired design (ErrorsOnlyWhileDown, NoDeadEntry, NoOrphanClient, NoStaleCall);
 2. the pinned variants (connect-call entry never removed; removal by address) must yield their counterexamples;
 3. spec -> code: TLC simulation emits histories (requests / connection loss / backend down+up / reset-all);
    each is replayed end-to-end on a real Redis processor against a simulated node that is reset, shut down and
    restarted on the same port; per request the reply class is compared with what the model allows
    (error only if the request witnessed a fault), then the proxy must serve requests again over a new
    connection, hold at most one backend connection per node, and none after Stop;
 4. spec/redis/Refresh.tla (trigger channel, refresh loop, retry, minimum interval): Converges, BoundedRounds (at most two
    successful rounds after the last layout change), NoLostTrigger, QuitEnds; code: after each layout change the number of
    refresh rounds until redirections stop is read from the service's statistics and compared with the bound.
"""
import os

import kit

LEVEL = "model_checking"


def run(ctx):
    ctx.build()
    ctx.assumptions += [
        "one backend address per model instance (entries of different addresses do not interact)",
        "a request issued while the proxy is still processing a connection loss, or that shares a connect attempt started while the backend was down, may be answered with an error (bounded windows, stated in the module)",
    ]
    r = ctx.mc("redis", "ConnTable", "MC_ConnTable_fixed.cfg", workers=8, timeout=900, coverage=not ctx.thorough)
    if r.coverage:
        ctx.check_vacuity(r, "ConnTable", ignore=("ResetSnapshot",))
    ctx.mc("redis", "ConnTable", "MC_ConnTable_pinned_call.cfg", workers=4, timeout=300,
           expect_violated=["NoStaleCall", "ErrorsOnlyWhileDown", "NoDeadEntry"], count=False)
    ctx.mc("redis", "ConnTable", "MC_ConnTable_pinned_remove.cfg", workers=4, timeout=300,
           expect_violated=["NoOrphanClient"], count=False)
    ctx.mc("redis", "ConnTable", "MC_ConnTable_pinned_reset.cfg", workers=4, timeout=300,
           expect_violated=["NoOrphanClient"], count=False)
    # the refresh loop: one-slot trigger channel, retry on failure, minimum interval; convergence within two rounds
    ctx.mc("redis", "Refresh", "MC_Refresh.cfg", workers=4, timeout=300)
    num = 300 if ctx.thorough else 40
    g = ctx.tlc("redis", "ConnTableGen", "Gen_ConnTable.cfg", mode="sim", workers=1, sim_num=num, sim_depth=150,
                seed=ctx.seed, deadlock=False, timeout=300)
    behs = [p for (tag, p) in g.prints if tag == "BEH"]
    if len(behs) < num // 2:
        raise kit.Inconclusive("only %d behaviours emitted: %s" % (len(behs), g.error[:300]))
    bfile = os.path.join(ctx.work, "behaviours.ndjson")
    kit.write_ndjson(bfile, behs)
    rfile = os.path.join(ctx.work, "replay.ndjson")
    ctx.harness(["c07-replay", "-in", bfile, "-out", rfile], timeout=3000)
    results = kit.read_ndjson(rfile)
    okc = 0
    for res, beh in zip(results, behs):
        if res.get("err"):
            ctx.notes.append("replay %d: %s" % (res["id"], res["err"]))
            continue
        okc += 1
        faults = [s["a"] for s in beh if s["a"] in ("ConnLost", "BackendDown", "BackendUp", "ResetAll")]
        ctx.case(key=[(s["a"], s["r"]) for s in beh], nontrivial=len(faults) > 0)
        art = {"behaviour": beh, "result": res}
        fkind = "+".join(sorted(set(faults))) or "no-fault"
        # The replay controls the environment only: whether a request joined the connect attempt of an earlier,
        # still unanswered request (fail fast sharing) is up to the proxy's goroutines. An error is therefore also
        # allowed when some request that was in flight at issue time witnessed a fault in the model.
        may = {s["r"]: s["mayErr"] for s in beh if s["a"] == "Done"}
        inflight, shared = set(), set()
        for s in beh:
            if s["a"] == "Issue":
                if any(may.get(x) for x in inflight):
                    shared.add(s["r"])
                inflight.add(s["r"])
            elif s["a"] == "Done":
                inflight.discard(s["r"])
        for b in res.get("bad") or []:
            if "no reply" in b:
                ctx.violation("no-reply/%s" % fkind, b, art)
                continue
            rid = int(b.split()[1])
            if rid in shared:
                ctx.cov["shared_attempt_errors_allowed"] = ctx.cov.get("shared_attempt_errors_allowed", 0) + 1
                continue
            ctx.violation("error-while-reachable/%s" % fkind, b, art)
        if not res["healOK"]:
            ctx.violation("no-heal/%s" % fkind,
                          "backend reachable again but requests still fail after %d tries: %s" % (res["healTries"], res["healText"]), art)
        elif not res["newConn"]:
            ctx.violation("no-new-connection/%s" % fkind, "served without a new backend connection after the fault", art)
        if res["connsAtEnd"] > 1:
            ctx.violation("orphan-backend-connection/%s" % fkind,
                          "%d backend connections open to one node after quiescence" % res["connsAtEnd"], art)
        if res["stopOK"] and res["connsAfterStop"] > 0:
            ctx.violation("backend-connection-open-after-stop/%s" % fkind,
                          "%d backend connections still open after Stop returned" % res["connsAfterStop"], art)
        if not res.get("bad") and res["healOK"]:
            ctx.cov["traces_validated_against_impl"] += 1
    if okc < len(behs) * 0.8:
        raise kit.Inconclusive("replay driver unhealthy: %d of %d" % (okc, len(behs)))
    # several backends lose their connections at the same instant (exits and self-removals of clients overlap)
    mfile = os.path.join(ctx.work, "multi.ndjson")
    ctx.harness(["c07-multi", "-out", mfile, "-rounds", "40" if ctx.thorough else "8", "-nodes", "16" if ctx.thorough else "8"], timeout=1200)
    for r in kit.read_ndjson(mfile):
        ctx.case(key=["multi", r["round"], r["fault"]], nontrivial=True)
        if r.get("failing"):
            ctx.violation("no-heal/simultaneous-loss/" + r["fault"],
                          "%d of %d reachable backends keep failing after %s: %s" % (len(r["failing"]), r["nodes"], r["fault"], r["failing"][:3]), r)
        elif r["maxConns"] > 1:
            ctx.violation("orphan-backend-connection/simultaneous-loss", "%d backend connections open to one node" % r["maxConns"], r)
        else:
            ctx.cov["traces_validated_against_impl"] += 1
    # layout changes: redirections stop within the refresh rounds Refresh.tla allows
    ctx.build("cluster")
    vfile = os.path.join(ctx.work, "converge.ndjson")
    ctx.harness(["cluster-converge", "-out", vfile, "-changes", "60" if ctx.thorough else "10"], timeout=900, name="cluster")
    for r in kit.read_ndjson(vfile):
        ctx.case(key=["converge", r["change"], r["rounds"], r["redirects"]], nontrivial=True)
        if r.get("err"):
            ctx.violation("reply-differs/after-layout-change", r["err"], r)
        elif not r["converged"]:
            ctx.violation("no-convergence/layout-change", "still redirected after %d requests and %d refresh rounds" % (r["requests"], r["rounds"]), r)
        elif r["rounds"] > 2:
            ctx.violation("too-many-refresh-rounds/layout-change", "%d successful refresh rounds until redirections stopped (model: at most 2)" % r["rounds"], r)
        else:
            ctx.cov["traces_validated_against_impl"] += 1
    if results:
        ctx.sample({"behaviour": [(s["a"], s["r"]) for s in behs[0]], "result": results[0]})
    ctx.cov["rule"] = ("histories = TLC simulation of ConnTableGen (seeded); distinct by event sequence; non-trivial = contains a fault; "
                       "judged by: error reply only if the request witnessed a fault, healing over a new connection, at most one backend connection")
