"""C07 - the proxy heals after connection loss and topology change.

spec/redis/ConnTable.tla: backend connection table + shared connect calls + client exit/removal + resetAllClients
                          + a stalled backend connection (in-flight queue full, writer waiting at a hand-over).
 1. exhaustive TLC run of the repaired design (ErrorsOnlyWhileDown, NoDeadEntry, NoOrphanClient, NoStaleCall, NoWedgedClient);
 2. the pinned variants (connect-call entry never removed; removal by address; snapshot before the lock; hand-over of the
    ASKING placeholder that does not wait for quit) must yield their counterexamples; the hand-over windows must be reachable;
 3. spec -> code: TLC simulation emits histories (requests, some of them following an ASK redirection / connection loss /
    backend down+up / reset-all / backend stall and end of stall); each is replayed end-to-end on a real Redis processor
    against a simulated node that is reset, shut down and restarted on the same port and made to hold its replies back
    while other sessions fill the in-flight queue of its connection (1024); per request the reply class is compared
    with what the model allows (error only if the request witnessed a fault), then the proxy must serve requests again
    over a new connection, hold at most one backend connection per node, and none after Stop.
    Mandatory strata (spec/redis/Strata_ConnTable.cfg, every run): a request held by the writer at the hand-over of a
    command / of the ASKING placeholder x the stall ends by connection loss / backend restart / reset-all / normally;
    and: all clients are reset (OnHostReplace) while the reader of the redirecting backend's client is about to create
    the client of the node for a redirected request (held at the hook `upstream.createClient`, released when the reset
    is stopping the old clients) - clientsMu is modelled (`mu`), ResetStopsUnderLock = TRUE must violate NoStuckReset;
 4. spec/redis/Refresh.tla (trigger channel, refresh loop, retry, minimum interval): Converges, BoundedRounds (at most two
    successful rounds after the last layout change), NoLostTrigger, QuitEnds, TriggerKept (a refresh asked for while an
    older CLUSTER NODES reply is in flight survives the installation of that reply; DrainOnSuccess = TRUE must violate it);
    code: (a) after each layout change the number of refresh rounds until redirections stop is read from the service's
    statistics and compared with the bound; (b) RefreshGen histories (spec/redis/Gen_Refresh.cfg, mandatory strata
    spec/redis/Strata_Refresh.cfg: a request notices the stale table while the loop waits / sleeps / has a refresh in
    flight that has seen the current / an older layout / fails) are replayed with the CLUSTER NODES replies of the seed
    node held back, in two flavours (slot moved: MOVED; master dead, replica promoted: failed connect); when the loop
    has come to rest after the first redirection, a request must be neither redirected nor answered with an error.
    The layout has a master and a replica component; under the read strategies REPLICA and BOTH a change of the replica
    assignment alone ("replica moves, master stays") makes the table stale (SkipUnchanged = TRUE - a refresh that leaves
    slots with an unchanged master alone - must violate BoundedRounds / TriggerKept); mandatory strata under REPLICA and BOTH.
 5. what a backend connection depends on indirectly (ConnTable.tla, constants Counters / MaxCfg): the hot-key collector's
    counter of an ADDRESS is shared between the old and the new connection of that address and freed by client.Stop, the
    collector's pass and Counter.Free take the collector's lock and the counter's lock (NoLockCycle; FreeHoldsCounterLock
    = TRUE must violate it), a freed counter stays usable (NoCrash; FreeDestroys = TRUE must violate it), and a run-time
    configuration update that omits the connect timeout gets the default (UpdateLosesDefaults = TRUE must violate NoCrash
    at the next connect).  Code: histories contain ConfigUpdate (mandatory stratum: update, connection loss, request);
    `c07-traffic`: ResetAll / Remove+Add / ConnLost again and again under continuing traffic of several sessions to the
    same addresses with the collector's passes back to back - every request answered, every backend served again over a
    new connection.  Every history / traffic item runs in its own worker process: a death of the process with frames of
    the code under test on the panicking goroutine, reproduced when the item is run again, is a violation (`crash/...`).
 6. the periodic refresh (Refresh.tla: `timer`, LoopTick, change kind "silent" - the old master's address still accepts
    connections and closes them at once, no request raises a trigger; RearmOnlyAfterTrigger = TRUE must violate
    TimerArmed / Converges).  Code: `c07-periodic` with the period shortened to 150 ms; mandatory strata
    (spec/redis/Strata_Refresh_periodic.cfg): a silent change after a quiet period in which the timer has fired, and in
    the first period; then requests until one is served (the model: one period; never healed after 20 periods = violation).
Owned: spec/redis/ConnTable.tla ConnTableGen.tla Refresh.tla RefreshGen.tla and their cfg files
       (MC_ConnTable_*, Gen_ConnTable, Strata_ConnTable, MC_Refresh*, Gen_Refresh, Strata_Refresh), harness/cases/c07, harness/cmd/c07.
"""
import json
import os
from concurrent.futures import ThreadPoolExecutor

import kit

LEVEL = "model_checking"

FAULTS = ("ConnLost", "BackendDown", "BackendUp", "ResetAll")
PIPE_ACTIONS = ("Stall", "Unstall", "WriterTake", "HandOver", "HandQuit")
CTR_ACTIONS = ("StopFreeA", "StopFreeB", "CollectStart", "CollectLatch", "CollectEnd", "ConfigUpdate")


def pipeline_window(beh):
    """The window of a history: was the writer of a stalled connection holding a request when a fault hit?
    Returns "" | "full-pipeline" | "full-pipeline/cmd-handover" | "full-pipeline/ask-handover"."""
    stalled, held, win = False, None, ""
    rank = {"": 0, "full-pipeline": 1, "full-pipeline/cmd-handover": 2, "full-pipeline/ask-handover": 3}
    for s in beh:
        a = s["a"]
        if a == "Stall":
            stalled, held = True, None
        elif a == "Unstall":
            stalled, held = False, None
        elif a == "Issue" and stalled and held is None:
            held = "ask" if s.get("ask") else "cmd"
        elif a in ("ConnLost", "BackendDown", "ResetAll") and stalled:
            w = "full-pipeline" + ("/%s-handover" % held if held else "")
            if rank[w] > rank[win]:
                win = w
            stalled, held = False, None
    return win


def stratum_key(rec):
    """pipe: (command / ASKING hand-over, how the request the writer held got its reply) | rdial: reset while the reader of
    the redirecting client was about to create the client | cfg: first connect after a configuration update, by what
    made the new connection necessary - of a Strata_ConnTable path."""
    beh = rec["hist"]
    last = beh[-1]
    iss = [j for j, e in enumerate(beh) if e["a"] == "Issue" and e["r"] == last["r"]][0]
    if rec["kind"] == "cfg":
        i = [j for j, e in enumerate(beh) if e["a"] == "ConfigUpdate"][0]
        if iss < i:
            return ("config-update", "during-request", last["out"])
        env = [e["a"] for e in beh[i:iss] if e["a"] in ("ConnLost", "BackendDown", "ResetAll")]
        return ("config-update", env[-1] if env else "first-connect", last["out"])
    if rec["kind"] == "rdial":
        return ("redirect-dial", "ResetAll", last["out"])
    env = [e["a"] for e in beh[:-1] if e["a"] in ("ConnLost", "BackendDown", "ResetAll", "Unstall")]
    return ("ask" if beh[iss].get("ask") else "cmd", env[-1] if env else "?", last["out"])


def judge_crash(ctx, crash, sig_tail, what, art):
    """A death of the worker process with frames of the code under test, reproduced when the item was run again."""
    if crash.get("confirmed"):
        ctx.violation("crash/%s/%s" % (crash["frame"], sig_tail),
                      "the process hosting the proxy died (%s, in %s) while it ran %s; reproduced when the item was run again alone"
                      % (crash["panic"], crash["frame"], what), art)
    else:
        ctx.notes.append("%s: the worker died once (%s in %s), not reproduced when run again" % (what, crash["panic"], crash["frame"]))


def run(ctx):
    ctx.build()
    ctx.assumptions += [
        "one backend address per model instance (entries of different addresses do not interact)",
        "a request issued while the proxy is still processing a connection loss, or that shares a connect attempt started while the backend was down, may be answered with an error (bounded windows, stated in the module)",
        "the traffic that fills the in-flight queue of a stalled connection is not modelled request by request (state `full`); a stall begins while no modelled request is on its way",
    ]
    quick = not ctx.thorough
    # TLC runs side by side with the replays (the replays mostly wait): the exhaustive run of the connection table in one
    # thread, the small runs (anti-vacuity, windows, stalled connection, refresh loop) in another
    pool = ThreadPoolExecutor(max_workers=2)

    def big():
        # quick: 3 requests, 3 faults (beside the stalled configuration: 3 requests, 2 faults, 1 stall, and the counters one); thorough: 4 requests
        return ctx.mc("redis", "ConnTable", "MC_ConnTable_fixed_quick.cfg" if quick else "MC_ConnTable_fixed.cfg", workers=4, timeout=900)

    def small():
        jobs = [
            ("ConnTable", "MC_ConnTable_pinned_call.cfg", ["NoStaleCall", "ErrorsOnlyWhileDown", "NoDeadEntry"]),
            ("ConnTable", "MC_ConnTable_pinned_remove.cfg", ["NoOrphanClient"]),
            ("ConnTable", "MC_ConnTable_pinned_reset.cfg", ["NoOrphanClient"]),
            # hand-over of the ASKING placeholder without the quit case: the writer of a lost connection never wakes up,
            # the dead client keeps the address, later requests fail although the backend is reachable
            ("ConnTable", "MC_ConnTable_pinned_ask.cfg", ["ErrorsOnlyWhileDown"]),
            # resetAllClients keeps clientsMu while it stops the old clients: it waits for a reader that waits for the lock
            ("ConnTable", "MC_ConnTable_pinned_resetlock.cfg", ["NoStuckReset"]),
            # Counter.Free leaves the counter the successor connection shares unusable: the next keyed command kills the process
            ("ConnTable", "MC_ConnTable_pinned_freedestroys.cfg", ["NoCrash"]),
            # Counter.Free keeps the counter's lock while it takes the collector's lock, the collector's pass does the opposite
            ("ConnTable", "MC_ConnTable_pinned_freelock.cfg", ["NoLockCycle"]),
            # the defaults of a run-time configuration update do not reach the processor: nil timeout at the next connect
            ("ConnTable", "MC_ConnTable_pinned_cfgdefaults.cfg", ["NoCrash"]),
            # a refresh that leaves slots with an unchanged master alone never installs a new replica list
            ("Refresh", "MC_Refresh_skip.cfg", ["BoundedRounds", "TriggerKept"]),
            # the periodic timer is only re-armed by a triggered refresh: after a quiet period nothing heals a silent change
            ("Refresh", "MC_Refresh_rearm.cfg", ["TimerArmed", "Converges", "TEMPORAL"]),
            # a successful refresh that empties the trigger channel forgets the refresh asked for meanwhile
            ("Refresh", "MC_Refresh_drain.cfg", ["TriggerKept"]),
        ]
        if not quick:
            # reachability of the windows (in the quick tier the strata emission below fails if a window is unreachable)
            jobs += [("ConnTable", "MC_ConnTable_win_cmd.cfg", ["NoHandoverCmd"]),
                     ("ConnTable", "MC_ConnTable_win_ask.cfg", ["NoHandoverAsk"]),
                     ("ConnTable", "MC_ConnTable_win_rdial.cfg", ["NoResetDuringRedirectDial"]),
                     ("ConnTable", "MC_ConnTable_win_shared.cfg", ["NoSharedCounter"]),
                     ("ConnTable", "MC_ConnTable_win_freecollect.cfg", ["NoFreeDuringCollect"]),
                     ("Refresh", "MC_Refresh_window.cfg", ["NoWindow"]),
                     ("Refresh", "MC_Refresh_window_replica.cfg", ["NoReplicaStale"]),
                     ("Refresh", "MC_Refresh_window_silent.cfg", ["NoSilentChange"])]
        def stalled():
            # the stalled connection: in-flight queue full, writer at the hand-over of a command / of the ASKING
            # placeholder; every action of the module is taken in this configuration (ResetDone only in the variant
            # in which the reset keeps the lock)
            rs = ctx.mc("redis", "ConnTable", "MC_ConnTable_stall.cfg" if quick else "MC_ConnTable_stall_thorough.cfg",
                        workers=4, timeout=1800, coverage=quick)
            if rs.coverage:
                ctx.check_vacuity(rs, "ConnTable", ignore=("ResetSnapshot", "ResetDone") + CTR_ACTIONS)

        def counters():
            # the counter registry, its two locks, configuration updates (all their actions are taken here)
            rc = ctx.mc("redis", "ConnTable", "MC_ConnTable_counters.cfg" if quick else "MC_ConnTable_counters_thorough.cfg",
                        workers=4, timeout=1800, coverage=quick)
            if rc.coverage:
                ctx.check_vacuity(rc, "ConnTable", ignore=("ResetSnapshot", "ResetDone") + PIPE_ACTIONS)

        def refresh_loop():
            # the refresh loop: one-slot trigger channel, retry on failure, minimum interval; convergence within two
            # rounds; a trigger raised while an older reply is in flight is kept
            if not quick:
                ctx.mc("redis", "Refresh", "MC_Refresh.cfg", workers=1, timeout=900)
            # ... and with reads routed by the replica lists (master changes and changes of the replica assignment alone;
            # the quick tier runs this configuration only)
            ctx.mc("redis", "Refresh", "MC_Refresh_replica.cfg", workers=1, timeout=900)

        with ThreadPoolExecutor(max_workers=4) as ex:
            futs = [ex.submit(stalled), ex.submit(counters), ex.submit(refresh_loop)]
            futs += [ex.submit(ctx.mc, "redis", m, c, workers=1, timeout=900, expect_violated=v, count=False) for (m, c, v) in jobs]
            for f in futs:
                f.result()

    # behaviour emission (four TLC runs side by side) and the exhaustive runs
    epool = ThreadPoolExecutor(max_workers=4)
    num = 300 if ctx.thorough else 40
    rnum = 80 if ctx.thorough else 8
    fut_g = epool.submit(ctx.tlc, "redis", "ConnTableGen", "Gen_ConnTable.cfg", mode="sim", workers=1, sim_num=num, sim_depth=150,
                         seed=ctx.seed, deadlock=False, timeout=900)
    fut_st = epool.submit(ctx.tlc, "redis", "ConnTableGen", "Strata_ConnTable.cfg", workers=1, deadlock=False, timeout=900)
    fut_g2 = epool.submit(ctx.tlc, "redis", "RefreshGen", "Gen_Refresh.cfg", mode="sim", workers=1, sim_num=rnum, sim_depth=60,
                          seed=ctx.seed, deadlock=False, timeout=900)
    fut_st2 = epool.submit(ctx.tlc, "redis", "RefreshGen", "Strata_Refresh.cfg", workers=1, deadlock=False, timeout=900)
    fut_st3 = epool.submit(ctx.tlc, "redis", "RefreshGen", "Strata_Refresh_periodic.cfg", workers=1, deadlock=False, timeout=900)
    fut_big, fut_small = pool.submit(big), pool.submit(small)

    # ---------------------------------------------------------------- connection table: histories on the real code
    g = fut_g.result()
    behs = [p for (tag, p) in g.prints if tag == "BEH"]
    if len(behs) < num // 2:
        raise kit.Inconclusive("only %d behaviours emitted: %s" % (len(behs), g.error[:300]))
    # mandatory strata: shortest path per (hand-over kind, end of the stall) out of one exhaustive run
    st = fut_st.result()
    if st.timeout or (st.error and not st.prints):
        raise kit.Inconclusive("strata emission failed: %s" % st.error[:500])
    best = {}
    for (tag, p) in st.prints:
        if tag == "STRATUM":
            k = stratum_key(p)
            if k not in best or len(p["hist"]) < len(best[k]):
                best[k] = p["hist"]
    st.prints, st.stdout = [], ""
    need = {(h, e, "err") for h in ("cmd", "ask") for e in ("ConnLost", "BackendDown", "ResetAll")} | {("cmd", "Unstall", "ok"), ("ask", "Unstall", "ok"), ("redirect-dial", "ResetAll", "ok"), ("config-update", "ConnLost", "ok")}
    if need - set(best):
        raise kit.Inconclusive("strata not reachable in ConnTableGen: %s" % sorted(need - set(best)))
    strata = {}
    for k in sorted(need) + [k for k in sorted(best) if k not in need and (k[0] == "redirect-dial" or (k[0] == "config-update" and k[2] == "ok"))]:
        strata[len(behs)] = "/".join(k[:2]) + ("/backend-down" if k[0] == "redirect-dial" and k[2] == "err" else "")
        behs.append(best[k])
    ctx.cov["conntable_strata"] = sorted(strata.values())
    bfile = os.path.join(ctx.work, "behaviours.ndjson")
    kit.write_ndjson(bfile, behs)
    rfile = os.path.join(ctx.work, "replay.ndjson")
    # the reset that follows an asking request is forced into the window "reader about to create the client" in the
    # mandatory strata and in a bounded number of simulated histories (each costs ~15 s when the proxy deadlocks there)
    gate, budget = [], (30 if ctx.thorough else 3)
    for idx, beh in enumerate(behs):
        pat = any(a["a"] == "Issue" and a.get("ask") and b["a"] == "ResetAll" for a, b in zip(beh, beh[1:]))
        if idx in strata:
            gate.append(idx + 1)
        elif pat and budget > 0:
            gate.append(idx + 1)
            budget -= 1
    def run_replay():
        ctx.harness(["c07-replay", "-in", bfile, "-out", rfile, "-par", "4", "-gate", ",".join(map(str, gate)) or "0"], timeout=9000)

    hpool = ThreadPoolExecutor(max_workers=3)
    fut_replay = hpool.submit(run_replay)

    # several backends lose their connections at the same instant (exits and self-removals of clients overlap)
    mfile = os.path.join(ctx.work, "multi.ndjson")
    # layout changes: redirections stop within the refresh rounds Refresh.tla allows
    vfile = os.path.join(ctx.work, "converge.ndjson")

    def run_multi_converge():
        ctx.harness(["c07-multi", "-out", mfile, "-rounds", "40" if ctx.thorough else "8", "-nodes", "16" if ctx.thorough else "8"], timeout=1200)
        ctx.build("cluster")
        vfile = os.path.join(ctx.work, "converge.ndjson")
        ctx.harness(["cluster-converge", "-out", vfile, "-changes", "60" if ctx.thorough else "10"], timeout=900, name="cluster")

    fut_mc = hpool.submit(run_multi_converge)

    # ---------------------------------------------------------------- clients stopped / connections lost under traffic
    titems = []
    for k in range(3 if ctx.thorough else 1):
        for fault in ("ResetAll", "Remove"):
            for sd in (1, 2):
                titems.append({"fault": fault, "rounds": 60, "nodes": 12, "sessions": 6, "seed": ctx.seed * 100 + k * 10 + sd})
        titems.append({"fault": "ConnLost", "rounds": 30, "nodes": 12, "sessions": 6, "seed": ctx.seed * 100 + k * 10})
    tfile = os.path.join(ctx.work, "traffic-items.ndjson")
    kit.write_ndjson(tfile, titems)
    trfile = os.path.join(ctx.work, "traffic.ndjson")
    # ---------------------------------------------------------------- refresh loop: histories on the real code
    g2 = fut_g2.result()
    rsim = [p for (tag, p) in g2.prints if tag == "BEH"]
    if len(rsim) < rnum // 2:
        raise kit.Inconclusive("only %d refresh behaviours emitted: %s" % (len(rsim), g2.error[:300]))
    st2 = fut_st2.result()
    if st2.timeout or (st2.error and not st2.prints):
        raise kit.Inconclusive("refresh strata emission failed: %s" % st2.error[:500])
    rbest = {}
    for (tag, p) in st2.prints:
        if tag == "STRATUM":
            for k in p["wins"]:
                if k not in rbest or len(p["hist"]) < len(rbest[k]):
                    rbest[k] = p["hist"]
    st2.prints, st2.stdout = [], ""
    rneed = {"wait", "sleep", "asking-fresh", "asking-stale", "fail", "fail-with-token"}
    # only the replica assignment is stale ("replica moves, master stays"): under the read strategies REPLICA and BOTH
    rneed_replica = {"replica:wait", "replica:asking-stale"}
    if (rneed | rneed_replica) - set(rbest):
        raise kit.Inconclusive("strata not reachable in RefreshGen: %s" % sorted((rneed | rneed_replica) - set(rbest)))
    rbehs = []
    for fl in ("move", "failover"):
        for k in sorted(rneed):
            rbehs.append({"flavour": fl, "strategy": "MASTER", "key": k, "steps": rbest[k]})
    for strat in ("REPLICA", "BOTH"):
        for k in sorted(rneed_replica if quick else {x for x in rbest if x.startswith("replica:")}):
            rbehs.append({"flavour": "move", "strategy": strat, "key": k, "steps": rbest[k]})
    # a master change under REPLICA (reads go to the replicas of the former master)
    rbehs.append({"flavour": "move", "strategy": "REPLICA", "key": "asking-stale", "steps": rbest["asking-stale"]})
    nrep = 0
    for i, b in enumerate(rsim):
        if any(s["a"] == "Change" and s["phase"] == "replica" for s in b):
            rbehs.append({"flavour": "move", "strategy": ("REPLICA", "BOTH")[nrep % 2], "key": "", "steps": b})
            nrep += 1
        else:
            rbehs.append({"flavour": ("move", "failover")[i % 2], "strategy": "MASTER", "key": "", "steps": b})
    ctx.cov["refresh_strata"] = sorted(rneed) + sorted(rneed_replica)
    rbfile = os.path.join(ctx.work, "refresh-behaviours.ndjson")
    kit.write_ndjson(rbfile, rbehs)
    rrfile = os.path.join(ctx.work, "refresh.ndjson")
    # the periodic refresh: silent layout changes, healed by the period only
    st3 = fut_st3.result()
    if st3.timeout or (st3.error and not st3.prints):
        raise kit.Inconclusive("periodic strata emission failed: %s" % st3.error[:500])
    pbest = {}
    for (tag, p) in st3.prints:
        if tag == "STRATUM":
            for k in p["wins"]:
                if k.startswith("silent:") and (k not in pbest or len(p["hist"]) < len(pbest[k])):
                    pbest[k] = p["hist"]
    st3.prints, st3.stdout = [], ""
    pneed = ["silent:after-quiet-period", "silent:first-period"]
    if set(pneed) - set(pbest):
        raise kit.Inconclusive("strata not reachable in RefreshGen (Periodic): %s" % sorted(set(pneed) - set(pbest)))
    pbehs = [{"flavour": "silent", "strategy": "MASTER", "key": k, "steps": pbest[k]} for k in pneed] * (3 if ctx.thorough else 1)
    ctx.cov["periodic_strata"] = pneed
    pbfile = os.path.join(ctx.work, "periodic-behaviours.ndjson")
    kit.write_ndjson(pbfile, pbehs)
    prfile = os.path.join(ctx.work, "periodic.ndjson")

    def run_refresh_traffic():
        ctx.harness(["c07-periodic", "-in", pbfile, "-out", prfile], timeout=1800)
        ctx.harness(["c07-refresh", "-in", rbfile, "-out", rrfile, "-par", "4"], timeout=9000)
        ctx.harness(["c07-traffic", "-in", tfile, "-out", trfile, "-par", "4"], timeout=1800)

    fut_rt = hpool.submit(run_refresh_traffic)

    fut_replay.result()
    results = kit.read_ndjson(rfile)
    okc = 0
    missed = []
    for idx, (res, beh) in enumerate(zip(results, behs)):
        if res.get("crash"):
            faults = "+".join(sorted(set(s["a"] for s in beh if s["a"] in FAULTS))) or "no-fault"
            tail = "after-config-update" if any(s["a"] == "ConfigUpdate" for s in beh) else faults
            judge_crash(ctx, res["crash"], tail, "history %d (%s)" % (res["id"], " ".join("%s%s" % (s["a"], s["r"] or "") for s in beh)),
                        {"behaviour": beh, "crash": res["crash"], "stratum": strata.get(idx)})
            if res["crash"].get("confirmed"):
                okc += 1
                ctx.case(key=[(s["a"], s["r"], bool(s.get("ask"))) for s in beh], nontrivial=True)
                continue
        if res.get("err"):
            ctx.notes.append("replay %d: %s" % (res["id"], res["err"]))
            if idx in strata:
                missed.append("%s: %s" % (strata[idx], res["err"]))
            continue
        okc += 1
        faults = [s["a"] for s in beh if s["a"] in FAULTS]
        win = pipeline_window(beh)
        ctx.case(key=[(s["a"], s["r"], bool(s.get("ask"))) for s in beh], nontrivial=len(faults) > 0 or bool(win) or idx in strata or bool(res.get("heldAtReset")))
        art = {"behaviour": beh, "result": res}
        if idx in strata:
            art["stratum"] = strata[idx]
            if win and not res.get("heldAtFault"):
                missed.append("%s: the writer was not seen holding a request when the fault hit" % strata[idx])
            if strata[idx].startswith("redirect-dial") and not res.get("heldAtReset"):
                missed.append("%s: no reader was held at the entry of createClient when the clients were reset" % strata[idx])
        fkind = "+".join(sorted(set(faults))) or "no-fault"
        if res.get("heldAtReset"):
            win = "reset-during-redirect-dial"
        if win:
            fkind = win + "/" + fkind
        # The replay controls the environment only: whether a request joined the connect attempt of an earlier,
        # still unanswered request (fail fast sharing) is up to the proxy's goroutines. An error is therefore also
        # allowed when some request that was in flight at issue time witnessed a fault in the model.
        may = {s["r"]: s["mayErr"] for s in beh if s["a"] == "Done"}
        # (a path into a stratum may end with requests still on their way: such a request has witnessed the faults that
        # followed its issue)
        issued_at = {s["r"]: i for i, s in enumerate(beh) if s["a"] == "Issue"}
        for r0, i0 in issued_at.items():
            if r0 not in may:
                may[r0] = any(s["a"] in ("ConnLost", "BackendDown", "ResetAll") for s in beh[i0:])
        inflight, shared = set(), set()
        for s in beh:
            if s["a"] == "Issue":
                if any(may.get(x) for x in inflight):
                    shared.add(s["r"])
                inflight.add(s["r"])
            elif s["a"] == "Done":
                inflight.discard(s["r"])
        for b in res.get("bad") or []:
            if "no reply" in b:
                ctx.violation("no-reply/%s" % fkind, b, art)
                continue
            rid = int(b.split()[1])
            if rid in shared:
                ctx.cov["shared_attempt_errors_allowed"] = ctx.cov.get("shared_attempt_errors_allowed", 0) + 1
                continue
            ctx.violation("error-while-reachable/%s" % fkind, b, art)
        if not res["healOK"]:
            ctx.violation("no-heal/%s" % fkind,
                          "backend reachable again but requests still fail after %d tries: %s" % (res["healTries"], res["healText"]), art)
        elif not res["newConn"]:
            ctx.violation("no-new-connection/%s" % fkind, "served without a new backend connection after the fault", art)
        if res["connsAtEnd"] > 1:
            ctx.violation("orphan-backend-connection/%s" % fkind,
                          "%d backend connections open to one node after quiescence" % res["connsAtEnd"], art)
        if res["stopOK"] and res["connsAfterStop"] > 0:
            ctx.violation("backend-connection-open-after-stop/%s" % fkind,
                          "%d backend connections still open after Stop returned" % res["connsAfterStop"], art)
        if res.get("late"):
            ctx.cov["late_within_extended_deadline"] = ctx.cov.get("late_within_extended_deadline", 0) + len(res["late"])
        if res.get("cfgErr"):
            ctx.notes.append("replay %d: OnSvcConfigUpdate returned %s" % (res["id"], res["cfgErr"]))
        if res.get("resetHung"):
            ctx.notes.append("replay %d (%s): OnSvcAllHostReplace did not return within 15 s" % (res["id"], fkind))
        if res.get("fillerSent", 0) != res.get("fillerAnswered", 0):
            ctx.notes.append("replay %d (%s): %d of %d requests of the sessions that filled the queue were never answered (C02's subject)"
                             % (res["id"], fkind, res["fillerSent"] - res["fillerAnswered"], res["fillerSent"]))
        if res.get("stalls"):
            ctx.cov["stalled_histories"] = ctx.cov.get("stalled_histories", 0) + 1
        if not res.get("bad") and res["healOK"]:
            ctx.cov["traces_validated_against_impl"] += 1
    if okc < len(behs) * 0.8:
        raise kit.Inconclusive("replay driver unhealthy: %d of %d" % (okc, len(behs)))
    if missed:
        raise kit.Inconclusive("mandatory strata not exercised on the code: %s" % "; ".join(missed[:4]))
    fut_mc.result()
    for r in kit.read_ndjson(mfile):
        ctx.case(key=["multi", r["round"], r["fault"]], nontrivial=True)
        if r.get("failing"):
            ctx.violation("no-heal/simultaneous-loss/" + r["fault"],
                          "%d of %d reachable backends keep failing after %s: %s" % (len(r["failing"]), r["nodes"], r["fault"], r["failing"][:3]), r)
        elif r["maxConns"] > 1:
            ctx.violation("orphan-backend-connection/simultaneous-loss", "%d backend connections open to one node" % r["maxConns"], r)
        else:
            ctx.cov["traces_validated_against_impl"] += 1

    fut_rt.result()
    tmissed = []
    for it, r in zip(titems, kit.read_ndjson(trfile)):
        what = "%s x%d under the traffic of %d sessions to %d backends" % (it["fault"], it["rounds"], it["sessions"], it["nodes"])
        ctx.case(key=["traffic", it["fault"], it["seed"]], nontrivial=True)
        if r.get("crash"):
            judge_crash(ctx, r["crash"], "%s-under-traffic" % it["fault"], what, {"item": it, "result": r})
            if r["crash"].get("confirmed"):
                continue
        if r.get("err"):
            ctx.notes.append("traffic %s: %s" % (it["fault"], r["err"]))
            tmissed.append("%s: %s" % (it["fault"], r["err"][:200]))
            continue
        bad = False
        if r.get("late"):
            ctx.cov["late_within_extended_deadline"] = ctx.cov.get("late_within_extended_deadline", 0) + len(r["late"])
        if r["noReply"] and not r.get("failing"):
            # unanswered requests of a proxy that heals are C02's subject (and, on a loaded machine, a matter of the 4 s)
            ctx.notes.append("traffic %s: %d of %d requests were not answered within 4 s (%s), the backends were served again afterwards"
                             % (it["fault"], r["noReply"], r["sent"], r.get("firstNo", "")))
        if r.get("failing"):
            bad = True
            ctx.violation("no-heal/traffic/%s" % it["fault"], "the faults are over and every backend is reachable, but %d of %d keep failing (not answered within 3 s and, on a new connection, 6 s): %s%s%s"
                          % (len(r["failing"]), it["nodes"], r["failing"][:3], "; %s has not returned for 10 s" % r["hung"] if r.get("hung") else "",
                             "; %d requests of the sessions unanswered" % r["noReply"] if r["noReply"] else ""), {"item": it, "result": r})
        elif not r["newConns"]:
            bad = True
            ctx.violation("no-new-connection/traffic/%s" % it["fault"], "served without a new backend connection after the last fault", {"item": it, "result": r})
        if r["maxConns"] > 1:
            bad = True
            ctx.violation("orphan-backend-connection/traffic/%s" % it["fault"], "%d backend connections open to one node after quiescence" % r["maxConns"], {"item": it, "result": r})
        if r.get("hung") and not bad:
            ctx.notes.append("traffic %s: %s did not return within 10 s" % (it["fault"], r["hung"]))
        if not bad:
            if r["rounds"] < it["rounds"]:
                tmissed.append("%s: only %d of %d rounds" % (it["fault"], r["rounds"], it["rounds"]))
            else:
                ctx.cov["traces_validated_against_impl"] += 1
                ctx.cov["traffic_requests"] = ctx.cov.get("traffic_requests", 0) + r["sent"]
    if tmissed and not ctx.violations:
        raise kit.Inconclusive("traffic scenarios not exercised: %s" % "; ".join(tmissed[:3]))

    rres = kit.read_ndjson(rrfile)
    rok, rmissed = 0, []
    for res, b in zip(rres, rbehs):
        run1 = res["run"]
        if run1.get("err"):
            ctx.notes.append("refresh replay %d: %s" % (res["id"], run1["err"]))
            if b["key"]:
                rmissed.append("%s/%s: %s" % (b["key"], b["flavour"], run1["err"]))
            continue
        rok += 1
        phases = sorted({s["phase"] for s in b["steps"] if s["a"] == "Notice"})
        ctx.case(key=["refresh", b["flavour"], b["strategy"], [(s["a"], s["phase"]) for s in b["steps"]]], nontrivial=True)
        only_replica = any(s["a"] == "Notice" and s["table"] == s["layout"] for s in b["steps"])
        flav = b["flavour"] if b["strategy"] == "MASTER" else "%s/%s" % ("replica-list" if only_replica else "move", b["strategy"])
        art = {"behaviour": b, "result": res}
        # name of the window: the most specific phase in which a request noticed the stale table
        win = "trigger-during-stale-refresh" if "asking-stale" in phases else (
              "trigger-during-refresh" if "asking-fresh" in phases else (
              "trigger-during-pause" if "sleep" in phases else "trigger-while-idle"))
        bad = run1["probeRedirected"] or run1["probeErr"]
        conf = res.get("confirm")
        if bad and conf and not conf.get("err") and (conf["probeRedirected"] or conf["probeErr"]):
            if not run1["quiet"] and not conf["quiet"]:
                ctx.violation("no-convergence/refresh-loop-never-rests/%s" % flav,
                              "the refresh loop did not come to rest within 6 s (asked %d, succeeded %d, failed %d)" % (conf["asked"], conf["success"], conf["failure"]), art)
            elif run1["probeErr"] and conf["probeErr"]:
                ctx.violation("error-while-reachable/after-refresh-rounds/%s/%s" % (win, flav),
                              "the refresh rounds triggered by the first redirection are over and the owner is reachable, but the request is answered %s (%s)"
                              % (conf["probeReply"], run1.get("diverged") or "all steps followed"), art)
            else:
                ctx.violation("no-convergence/after-refresh-rounds/%s/%s" % (win, flav),
                              "the refresh rounds triggered by the first redirection are over but a request is still redirected (%s)"
                              % (run1.get("diverged") or "all steps followed"), art)
        elif bad:
            ctx.notes.append("refresh replay %d (%s/%s): stale probe not confirmed by the second run" % (res["id"], win, flav))
        else:
            if run1.get("diverged"):
                ctx.cov["refresh_diverged"] = ctx.cov.get("refresh_diverged", 0) + 1
                if b["key"]:
                    rmissed.append("%s/%s: %s" % (b["key"], flav, run1["diverged"]))
            else:
                ctx.cov["traces_validated_against_impl"] += 1
    pmissed = []
    for res, b in zip(kit.read_ndjson(prfile), pbehs):
        run1 = res["run"]
        name = b["key"].split(":", 1)[1]
        ctx.case(key=["periodic", b["key"], res["id"]], nontrivial=True)
        art = {"behaviour": b, "result": res}
        if run1.get("err"):
            ctx.notes.append("periodic replay %d: %s" % (res["id"], run1["err"]))
            pmissed.append("%s: %s" % (name, run1["err"][:200]))
            continue
        conf = res.get("confirm")
        if not run1["healed"]:
            if conf and not conf.get("err") and conf.get("changed") and not conf["healed"]:
                ctx.violation("no-convergence/periodic-refresh-stopped/silent-change-%s" % name,
                              "the old master's address closes every connection at once (no dial error, no redirection: nothing asks for a refresh) and the "
                              "new master is reachable, but %d requests in %d refresh periods were all answered %s; CLUSTER NODES requests before the change: %d, after: %d"
                              % (conf["failed"], 20, conf["lastReply"], conf["ticksBefore"], conf["ticksAfter"]), art)
            else:
                ctx.notes.append("periodic replay %d (%s): not healed in the first run, healed in the second" % (res["id"], name))
            continue
        if run1.get("diverged") or (name == "after-quiet-period" and run1["ticksBefore"] < 1):
            pmissed.append("%s: %s" % (name, run1.get("diverged") or "the timer did not fire before the change"))
            continue
        if run1["healedPeriods"] > 3:
            ctx.notes.append("periodic replay %d (%s): healed after %.1f periods (model: one, plus one in flight; loaded machine)" % (res["id"], name, run1["healedPeriods"]))
        ctx.cov["traces_validated_against_impl"] += 1
    if pmissed and not ctx.violations:
        raise kit.Inconclusive("mandatory periodic strata not exercised on the code: %s" % "; ".join(pmissed[:3]))
    if rok < len(rbehs) * 0.8:
        raise kit.Inconclusive("refresh replay driver unhealthy: %d of %d" % (rok, len(rbehs)))
    if rmissed:
        raise kit.Inconclusive("mandatory refresh strata not exercised on the code: %s" % "; ".join(rmissed[:4]))

    for r in kit.read_ndjson(vfile):
        ctx.case(key=["converge", r["change"], r["rounds"], r["redirects"]], nontrivial=True)
        if r.get("err"):
            ctx.violation("reply-differs/after-layout-change", r["err"], r)
        elif not r["converged"]:
            ctx.violation("no-convergence/layout-change", "still redirected after %d requests and %d refresh rounds" % (r["requests"], r["rounds"]), r)
        elif r["rounds"] > 2:
            ctx.violation("too-many-refresh-rounds/layout-change", "%d successful refresh rounds until redirections stopped (model: at most 2)" % r["rounds"], r)
        else:
            ctx.cov["traces_validated_against_impl"] += 1
    hpool.shutdown()
    # the exhaustive runs must have ended clean (Inconclusive otherwise)
    fut_small.result()
    fut_big.result()
    pool.shutdown()
    if results:
        ctx.sample({"behaviour": [(s["a"], s["r"]) for s in behs[0]], "result": results[0]})
    if rres:
        ctx.sample({"refresh": [(s["a"], s["phase"]) for s in rbehs[1]["steps"]], "flavour": rbehs[1]["flavour"], "strategy": rbehs[1]["strategy"], "result": rres[1]})
    ctx.cov["rule"] = ("histories = TLC simulation of ConnTableGen / RefreshGen (seeded) + one shortest path per mandatory stratum (exhaustive run); "
                       "distinct by event sequence; non-trivial = contains a fault, a stall or a stale table; "
                       "judged by: error reply only if the request witnessed a fault, healing over a new connection, at most one backend connection; "
                       "after the refresh rounds triggered by the first redirection no redirection and no error")
