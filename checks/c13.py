"""C13 - transparent compression never changes what clients read back.

Spec modules owned by this check: spec/redis/Compress.tla, CompressGen.tla, CompressPipe.tla, CompressPipeGen.tla
(+ MC_Compress_*.cfg, Gen_Compress*.cfg, Strata_CompressAll*.cfg, MC_CompressPipe_*.cfg, Gen_CompressPipe_*.cfg).

spec/redis/Compress.tla: value classes by how the value compression behaves, one or several value positions per write
request, number of compression layers of the stored bytes and whether they still are the bytes the filter produced
(the compression works in a scratch buffer shared by the whole process), config history (absent / switched off /
enabled), filter passes per request (= 1 + redirections), one decompress hook per pass reaching down to a nesting depth
of the reply (bulk / flat array / nested array = HSCAN), age of the backend connection a request is first sent over
(config in force when it was made; connections are made again).  TLC checks StoredForm, ReadBack, OnlyWhenEnabled exhaustively
for the code's constants and must find a counterexample for each broken variant: FixOnce = FALSE (compression per send),
HookDepth = 1 (hooks do not descend into nested arrays), OwnBytes = FALSE (request keeps pointing into the scratch
buffer), OwnFrame = FALSE (short frames put together in storage shared by all compressions: StoredForm under two writers at the
same instant), ConnConfig = "at-connect" (a connection's filter works with the config of connection time: ReadBack, OffMeansOff),
BareUpdate = "off-dropped" (a bare `enable: false` acknowledged and carried out as "no section": ReadBack), ReadLimit = 512 KiB
(decompression cuts large values: ReadBack).  MC_Compress_dims.cfg: connection age, refused updates and absolute sizes together, clean.
That the windows the mandatory strata consist of are reachable is shown by the strata themselves (TLC emits them) and by
the counters of what the replay really exercised (inconclusive when too low).
spec/redis/CompressPipe.tla: the writer of a backend connection with its queue; a disabled command never reaches the
backend, whatever is queued behind it (AfterStop = "queued-falls-through" must violate BannedRejectedLocally).

Replayed on the real code, judged by the property's predicate (bytes read back = bytes written; bytes stored at the
node = original or header + one snappy stream that expands to the original and is shorter, decoded with the harness' own
snappy; disabled commands get the error and never show up in a node's command log):
 All mandatory strata are enumerated completely by ONE TLC run (AllStrataSpec, Strata_CompressAll.cfg) every run:
 * base strata (960, thorough 9072): compression on, one write of every
   shape (all class combinations of 1-2 value positions x 0-1 redirections x with/without other traffic while the
   write is on its way), optionally compression switched off, one read of every shape (0-1 redirections x reply depth
   0/1/2) - nine write commands + HMSET/HSET/MSET with several values, GET/GETSET/MGET/HGET/HMGET/HGETALL/HVALS/HSCAN;
 * mandatory strata of connection age (864): every node connected under the first config, config
   changed at run time, no / one connection made again (the node's connections are reset), one write and one read each over
   a chosen connection (the slot is handed to that node and the processor's table settled first);
 * mandatory strata of refused updates (48): a section in force, one write, one update with a
   compression section without threshold (refused by the validator: the old config stays), one read of every depth;
 * mandatory strata of absolute sizes (216): compressible and incompressible values of 65535 /
   65536 / 65537 / 524287 / 524288 / 524289 / 1 MiB + 1 / 3 MiB / 16 MiB, written and read with and without a redirection,
   every reply depth;
 * TLC-simulated histories (seeded; config switches, writes with 1-3 values and 0-2 redirections, reads);
 * every CompressPipe behaviour (pipelines up to length 3, thorough 4, every interleaving of hand-over and take) forced
   on the real writer through the hook points client.loopWrite.select / client.Send.enqueued, one or two sessions;
 * concurrent writers with slots changing owner and compression switched off and on; and short streams: eight backend
   connections, 32 clients, values whose snappy stream is <= 58 bytes (and just above), unique per writer and write; the
   writers of all backend connections are held at hook client.loopWrite.select while every client hands over a burst
   and are let go together, every stored value decoded independently and read back;
 * white box: compress/decompress of random values of all lengths and entropies, break-even sweep, single disabled commands.
"""
import concurrent.futures
import os

import kit

LEVEL = "model_checking"

def _parallel(jobs, width):
    """Run independent jobs side by side; the first failure (in the order given) is raised."""
    with concurrent.futures.ThreadPoolExecutor(max_workers=width) as ex:
        futs = {name: ex.submit(fn) for name, fn in jobs.items()}
        concurrent.futures.wait(list(futs.values()))
    return {name: f.result() for name, f in futs.items()}


def _emit(ctx, module, cfg, tag, **kw):
    """Exhaustive run of a Gen module (history variable in the state: every behaviour is a distinct path) that must be
    clean; returns the printed behaviours."""
    r = ctx.mc("redis", module, cfg, workers=1, timeout=900, heap="2g", **kw)
    return [p for (t, p) in r.prints if t == tag]


def run(ctx):
    ctx.assumptions += ["values that start with the compression header are excluded (as the statement says)",
                        "value classes are concretised with real data and verified against the real value compression before use",
                        "HSCAN is answered by the simulated node with the reply shape of Redis ([cursor, [field, value, ...]]) built from the bytes it stores"]
    num = 300 if ctx.thorough else 40
    # ---- the model (independent TLC runs and the harness build side by side: the wall clock of the quick tier matters)
    small = dict(workers=1, timeout=600, heap="2g")
    jobs = {
        "build": lambda: ctx.build(),
        "strata": lambda: _emit(ctx, "CompressGen", "Strata_CompressAll_deep.cfg" if ctx.thorough else "Strata_CompressAll.cfg", "BEH"),
        "sim": lambda: ctx.tlc("redis", "CompressGen", "Gen_Compress_deep.cfg" if ctx.thorough else "Gen_Compress.cfg", mode="sim", workers=1, sim_num=num,
                               sim_depth=60, seed=ctx.seed, deadlock=False, timeout=600, heap="2g"),
        "pipes": lambda: _emit(ctx, "CompressPipeGen", "Gen_CompressPipe_4.cfg" if ctx.thorough else "Gen_CompressPipe_3.cfg", "PIPE"),
        "fixed": lambda: ctx.mc("redis", "Compress", "MC_Compress_fixed_deep.cfg" if ctx.thorough else "MC_Compress_fixed.cfg",
                                workers=4 if ctx.thorough else 2, timeout=1800, heap="4g"),
        "wide": lambda: ctx.mc("redis", "Compress", "MC_Compress_fixed_wide.cfg", workers=4, timeout=3600, heap="4g") if ctx.thorough else None,
        "dims": lambda: ctx.mc("redis", "Compress", "MC_Compress_dims.cfg", **small),
        "pinned": lambda: ctx.mc("redis", "Compress", "MC_Compress_pinned.cfg", expect_violated=["StoredForm", "ReadBack"], count=False, **small),
        "flathook": lambda: ctx.mc("redis", "Compress", "MC_Compress_flathook.cfg", expect_violated=["ReadBack"], count=False, **small),
        "shared-frame": lambda: ctx.mc("redis", "Compress", "MC_Compress_sharedframe.cfg", expect_violated=["StoredForm"], count=False, **small),
        "scratch": lambda: ctx.mc("redis", "Compress", "MC_Compress_scratch.cfg", expect_violated=["StoredForm"], count=False, **small),
        "conn-frozen": lambda: ctx.mc("redis", "Compress", "MC_Compress_connfrozen.cfg", expect_violated=["ReadBack", "OffMeansOff"], count=False, **small),
        "bare-dropped": lambda: ctx.mc("redis", "Compress", "MC_Compress_baredropped.cfg", expect_violated=["ReadBack"], count=False, **small),
        "size-limit": lambda: ctx.mc("redis", "Compress", "MC_Compress_sizelimit.cfg", expect_violated=["ReadBack"], count=False, **small),
        "pipe-broken": lambda: ctx.mc("redis", "CompressPipe", "MC_CompressPipe_broken.cfg", expect_violated=["BannedRejectedLocally"], count=False, **small),
    }
    # the drivers need only the build and the emitted behaviours; the exhaustive runs are joined at the end
    # (at most four JVMs at a time: other checks run on the same machine)
    ex = concurrent.futures.ThreadPoolExecutor(max_workers=4)
    first = ("build", "strata", "sim", "pipes")
    order = list(first) + [k for k in jobs if k not in first]
    futs = {name: ex.submit(jobs[name]) for name in order}
    try:
        _drivers(ctx, {k: futs[k].result() for k in first}, num)
    finally:
        concurrent.futures.wait(list(futs.values()))
        ex.shutdown()
    for name in order:
        futs[name].result()   # raises kit.Inconclusive if a model run did not end as expected


def _drivers(ctx, done, num):

    # ---- histories: mandatory strata + seeded simulation
    fam = {}
    for h in done["strata"]:
        fam.setdefault(h[0]["k"], []).append(h)
    want = {"s-base": 9072 if ctx.thorough else 960,   # writes (class sequences x redirections x traffic) x (switched off or not) x reads (redirections x depth)
            "s-conn": 864,    # first config x changed config x (no connection | a | b made again) x write (class x connection) x read (depth x connection)
            "s-bare": 48,     # section in force (on | off) x class x bare update (on | off) x read depth
            "s-size": 216}    # (compressible | not) x 9 sizes x redirections of the write x read (redirections x depth)
    got = {k: len(v) for k, v in fam.items()}
    if got != want:
        raise kit.Inconclusive("strata emitted by TLC: %s, expected %s" % (got, want))
    strata = fam["s-base"]
    cstrata = fam["s-conn"] + fam["s-bare"] + fam["s-size"]
    g = done["sim"]
    sims = [p for (tag, p) in g.prints if tag == "BEH"]
    if len(sims) < num // 2:
        raise kit.Inconclusive("only %d histories emitted: %s" % (len(sims), g.error[:300]))
    behs = strata + cstrata + sims
    bfile = os.path.join(ctx.work, "histories.ndjson")
    kit.write_ndjson(bfile, behs)
    rfile = os.path.join(ctx.work, "replay.ndjson")
    pipes = done["pipes"]
    if len(pipes) < 300:
        raise kit.Inconclusive("only %d pipeline behaviours emitted" % len(pipes))
    pfile = os.path.join(ctx.work, "pipes.ndjson")
    kit.write_ndjson(pfile, pipes)
    prfile = os.path.join(ctx.work, "pipes-result.ndjson")
    cfile = os.path.join(ctx.work, "concurrent.ndjson")
    vfile = os.path.join(ctx.work, "values.ndjson")
    # the drivers are separate processes (a processor that panics takes only its own driver along); side by side
    ran = _parallel({
        "replay": lambda: ctx.harness(["c13-replay", "-in", bfile, "-out", rfile, "-workers", "4"], timeout=1500, allow_fail=True),
        "pipeline": lambda: ctx.harness(["c13-pipeline", "-in", pfile, "-out", prfile], timeout=1500, allow_fail=True),
        "concurrent": lambda: ctx.harness(["c13-concurrent", "-out", cfile, "-clients", "8", "-ops", "1500" if ctx.thorough else "400", "-short", "4608" if ctx.thorough else "1536"],
                                          timeout=1500, allow_fail=True),
        "values": lambda: ctx.harness(["c13-values", "-out", vfile, "-n", "20000" if ctx.thorough else "2000"], timeout=900, allow_fail=True),
    }, 4)
    rc, _, se = ran["replay"]
    results = {r["id"]: r for r in kit.read_ndjson(rfile)} if os.path.exists(rfile) else {}
    good = 0
    infra = []
    tot = {"nested": 0, "multi": 0, "traffic": 0, "packed": 0, "oldconn": 0, "offconn": 0, "large": 0, "refused": 0}
    for i, beh in enumerate(behs):
        res = results.get(i + 1)
        if res is None:
            continue
        for b in res.get("bad") or []:
            ctx.violation(b["sig"], b["what"], {"history": beh, "result": res})
        for x in res.get("infra") or []:
            # the processor could not deliver a request (connect failure under load, ...): the environment, not the compression
            infra.append("replay %d: %s" % (res["id"], x[:300]))
        if res.get("err"):
            ctx.notes.append("replay %d: %s" % (res["id"], res["err"]))
            continue
        good += 1
        for k in tot:
            tot[k] += res.get(k, 0)
        ctx.case(key=[(s["a"], s["c"], s["k"], tuple(s["vals"]), tuple(s["sz"]), s["r"], s["busy"], s["d"], s["n"]) for s in beh],
                 nontrivial=res.get("packed", 0) > 0, n=res["writes"] + res["reads"])
        if not res.get("bad"):
            ctx.cov["traces_validated_against_impl"] += 1
    ctx.notes += infra[:20]
    if len(infra) > len(behs) * 0.05 and not ctx.violations:
        raise kit.Inconclusive("the processor could not deliver %d requests (first: %s)" % (len(infra), infra[0]))
    _stands_or_inconclusive(ctx, rc, se, "c13-replay", good >= len(behs) * 0.8, "%d of %d histories replayed" % (good, len(behs)))
    if not ctx.violations and (tot["nested"] < 50 or tot["multi"] < 20 or tot["traffic"] < 100 or tot["oldconn"] < 40 or tot["offconn"] < 40 or tot["large"] < 30 or tot["refused"] < 30):
        raise kit.Inconclusive("mandatory strata not exercised: %s" % tot)
    ctx.notes.append("histories: %d strata + %d simulated; values stored compressed %d, of which read back in nested replies %d; requests with >= 2 "
                     "compressed values %d; background values during writes %d; compressed values read over a connection older than the config %d; compressible values written over a connection "
                     "made while compression was enabled, after it was switched off %d; values above 512 KiB stored compressed and read back %d; updates with a "
                     "compression section without threshold refused %d"
                     % (len(strata) + len(cstrata), len(sims), tot["packed"], tot["nested"], tot["multi"], tot["traffic"], tot["oldconn"], tot["offconn"], tot["large"], tot["refused"]))
    if results.get(1):
        ctx.sample({"history": behs[0], "result": results[1]})

    # ---- disabled commands in pipelines: every behaviour of CompressPipe forced on the real writer
    rc, _, se = ran["pipeline"]
    seen, forced, window = set(), 0, 0
    for r in (kit.read_ndjson(prfile) if os.path.exists(prfile) else []):
        for b in r.get("bad") or []:
            ctx.violation(b["sig"], b["what"], r)
        if r.get("err"):
            ctx.notes.append("pipeline %d: %s" % (r["id"], r["err"]))
            continue
        if r["phase"] == "replies":
            seen.add(r["id"])
            beh = r["beh"]
            forced += 1 if r.get("forced") else 0
            window += 1 if beh["enabled"] and beh["window"] > 0 else 0
            ctx.case(key=["pipe", beh["enabled"], beh["items"], beh["sched"]], nontrivial=beh["window"] > 0, n=len(beh["items"]))
            if not r.get("bad") and r.get("forced"):
                ctx.cov["traces_validated_against_impl"] += 1
                # spec -> code: exactly the requests of `wire` reached the node, in that order
                want = [r["cmds"][i - 1].split(" ")[0].lower() for i in beh["wire"]]
                if want != (r["backend"] or []):
                    ctx.notes.append("pipeline %d: backend saw %s, model says %s" % (r["id"], r["backend"], want))
    _stands_or_inconclusive(ctx, rc, se, "c13-pipeline", len(seen) >= len(pipes) * 0.9 and forced >= len(seen) * 0.9,
                            "%d of %d pipelines replayed, %d forced" % (len(seen), len(pipes), forced))
    if not ctx.violations and window < 30:
        raise kit.Inconclusive("window 'disabled command with requests queued behind' forced only %d times" % window)
    ctx.notes.append("pipelines: %d behaviours forced on the real writer, %d with a disabled command taken while requests were queued behind it" % (forced, window))

    # ---- concurrent writers
    rc, _, se = ran["concurrent"]
    cres = kit.read_ndjson(cfile) if os.path.exists(cfile) else []
    final = [r for r in cres if not r["case"].endswith("(partial)")]
    partial = [r for r in cres if r["case"].endswith("(partial)")]
    # every finding is written at once (partial records) and again in the final record; without a final record (the
    # processor panicked and took the driver along) the partial ones are all there is
    cres = final if final else partial
    for r in cres:
        ctx.case(key=["concurrent", r["case"]], nontrivial=True, n=r["values"])
        for b in r.get("bad") or []:
            if b["sig"] == "read-failed" or ((r.get("failures", 0) > 0 or not final) and not b["sig"].startswith("stored-form/")):
                # no reply / the processor could not deliver a request (MSET answers +OK whatever its children were answered):
                # with backend failures around, only the stored form of what did reach a node is judged
                ctx.notes.append("concurrent (%d backend failures): %s" % (r.get("failures", 0), b["what"][:300]))
                continue
            ctx.violation(b["sig"], b["what"], r)
    _stands_or_inconclusive(ctx, rc, se, "c13-concurrent", len(final) == 2 and final[0]["writes"] > 500 and final[0]["packed"] > 100 and final[1]["packed"] > 10000,
                            "concurrent writers: %s" % (cres[:1],))

    # ---- white box
    rc, _, se = ran["values"]
    vres = kit.read_ndjson(vfile) if os.path.exists(vfile) else []
    _stands_or_inconclusive(ctx, rc, se, "c13-values", len(vres) >= 9, "%d records" % len(vres))
    for r in vres:
        ctx.case(key=["value", r["case"]], nontrivial=True)
        if not r["ok"]:
            sig = "banned-not-rejected/" + r["case"].split(" ")[-1].lower() if r["case"].startswith("banned") else "value-codec"
            if r["case"].startswith("large value"):
                sig = "value-codec/large-value"
            ctx.violation(sig, "%s: %s" % (r["case"], r.get("why")), r)
    ctx.cov["rule"] = ("histories = the strata enumerated by TLC (Strata_CompressAll.cfg: 960 + 864 + 48 + 216; thorough 9072 + ...) + TLC simulation of CompressGen (seeded), distinct by event sequence, "
                       "non-trivial = a value reached the backend compressed; each write/read is one evaluation; pipelines = every behaviour of CompressPipeGen, "
                       "non-trivial = a disabled command taken with requests queued behind it; plus concurrent writers, random value round trips and single disabled commands")


def _stands_or_inconclusive(ctx, rc, stderr, what, healthy, detail):
    """A driver that died or fell behind is infrastructure trouble - unless violations were recorded before: they stand."""
    if rc == 0 and healthy:
        return
    msg = "%s unhealthy (exit %d): %s %s" % (what, rc, detail, (stderr or "")[-600:].replace("\n", " | "))
    if ctx.violations or ctx.known_hits:
        ctx.notes.append(msg)
        return
    raise kit.Inconclusive(msg)
