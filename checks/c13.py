"""C13 - transparent compression never changes what clients read back.

spec/redis/Compress.tla: value classes by how the value compression behaves, number of compression layers of the
stored bytes, config history (absent / switched off / enabled), filter passes per request (= 1 + redirections),
one decompress hook per pass. TLC checks StoredForm, ReadBack, OnlyWhenEnabled exhaustively for the repaired filter
and must find the double-compression counterexample for the pinned one.
TLC-simulated histories (config switches, writes of every class with 0-2 redirections, reads with 0-2 redirections)
are replayed through a real Redis processor with the real snappy compressor against simulated nodes that redirect
on demand (MOVED with a real slot hand-over): nine write commands x six read commands, thresholds 1/32/100/512;
oracle: bytes read back = bytes written; bytes stored at the node = original or header + one snappy stream that
expands to the original and is shorter (decoded with the harness' own snappy). White box: compress/decompress of
random values of all lengths and entropies; banned commands are rejected without backend traffic.
"""
import os

import kit

LEVEL = "model_checking"


def run(ctx):
    ctx.build()
    ctx.assumptions += ["values that start with the compression header are excluded (as the statement says)",
                        "value classes are concretised with real data and verified against the real value compression before use"]
    ctx.mc("redis", "Compress", "MC_Compress_fixed.cfg", workers=4, timeout=600)
    ctx.mc("redis", "Compress", "MC_Compress_pinned.cfg", workers=4, timeout=300, expect_violated=["StoredForm", "ReadBack"], count=False)
    num = 300 if ctx.thorough else 40
    g = ctx.tlc("redis", "CompressGen", "Gen_Compress.cfg", mode="sim", workers=1, sim_num=num, sim_depth=60, seed=ctx.seed,
                deadlock=False, timeout=300)
    behs = [p for (tag, p) in g.prints if tag == "BEH"]
    if len(behs) < num // 2:
        raise kit.Inconclusive("only %d histories emitted: %s" % (len(behs), g.error[:300]))
    bfile = os.path.join(ctx.work, "histories.ndjson")
    kit.write_ndjson(bfile, behs)
    rfile = os.path.join(ctx.work, "replay.ndjson")
    ctx.harness(["c13-replay", "-in", bfile, "-out", rfile], timeout=3000)
    results = kit.read_ndjson(rfile)
    good = 0
    for res, beh in zip(results, behs):
        if res.get("err"):
            ctx.notes.append("replay %d: %s" % (res["id"], res["err"]))
            continue
        good += 1
        ctx.case(key=[(s["a"], s["c"], s["k"], s["cls"], s["r"]) for s in beh],
                 nontrivial=any(s["a"] == "write" and s["r"] > 0 for s in beh), n=res["writes"] + res["reads"])
        for b in res.get("bad") or []:
            ctx.violation(b["sig"], b["what"], {"history": beh, "result": res})
        if not res.get("bad"):
            ctx.cov["traces_validated_against_impl"] += 1
    if good < len(behs) * 0.8:
        raise kit.Inconclusive("replay driver unhealthy: %d of %d" % (good, len(behs)))
    ctx.sample({"history": behs[0], "result": results[0]})
    vfile = os.path.join(ctx.work, "values.ndjson")
    ctx.harness(["c13-values", "-out", vfile, "-n", "20000" if ctx.thorough else "2000"], timeout=900)
    for r in kit.read_ndjson(vfile):
        ctx.case(key=["value", r["case"]], nontrivial=True)
        if not r["ok"]:
            sig = "banned-not-rejected/" + r["case"].split(" ")[-1].lower() if r["case"].startswith("banned") else "value-codec"
            ctx.violation(sig, "%s: %s" % (r["case"], r.get("why")), r)
    ctx.cov["rule"] = ("histories = TLC simulation of CompressGen (seeded), distinct by event sequence, non-trivial = contains a redirected write; "
                       "each write/read is one evaluation; plus random value round trips and banned commands")
