"""C19 - hot keys: counters exact for tracked keys and bounded in size; HOTKEY report capped,
unique, sorted by non-increasing heat, only accessed keys.

spec/redis/HotKey.tla            abstract counter (key -> count, FIFO order per count, capacity)
spec/redis/HotKeyList.tla        the counter as the doubly linked frequency list of counter.go; TLC shows
                                 it refines HotKey (PROPERTY AbsSpec) and keeps the list structure sound
spec/redis/HotKeyGen.tla         transition cover of HotKeyList -> replayed on the real hotkey.Counter
spec/redis/HotKeySim.tla         deeper seeded counter histories (thorough)
spec/redis/HotKeyCollector.tla   collector: per-key merge steps, logarithmic counter as bounded
                                 nondeterminism, clock ticks anywhere, evictStale, concurrent HOTKEY reader
spec/redis/HotKeyCollectorGen.tla     seeded simulation -> scripts driven on the real hotkey.Collector
spec/redis/HotKeyCollectorTrace.tla   recorded traces of the real collector validated by TLC

 1. exhaustive TLC: HotKeyList (refinement + invariants), HotKeyCollector in its repaired form; the two
    pinned-code variants must still yield their counterexamples (anti-vacuity).
 2. spec -> code: every transition of HotKeyList's state graph as one replayable path; the real counter
    must show the same counts, the same keys per frequency in the same order, the same victim and size
    after every step, and sound lists.
 3. code -> spec: scripts (TLC simulation + seeded random histories with hot keys, clock ticks inside
    collect / evictStale and HOTKEY readers in parallel goroutines) run on the real collector; the recorded
    trace is validated by TLC against HotKeyCollectorTrace, which evaluates the report properties on the
    published report and on every reader's view at every step.
 4. thorough: HOTKEY reply text through a real Redis processor.
"""
import json
import os

import kit

LEVEL = "model_checking"

REPORT_INVS = ("ReportSorted", "ReportUnique", "ReportCapped", "OnlyAccessed")
VIEW_INVS = ("ViewSorted", "ViewUnique", "ViewCapped", "ViewOnlyAccessed")
SHORT = {"ReportSorted": "report-unsorted", "ReportUnique": "report-duplicate", "ReportCapped": "report-over-capacity",
         "OnlyAccessed": "report-unaccessed-key", "ViewSorted": "report-unsorted", "ViewUnique": "report-duplicate",
         "ViewCapped": "report-over-capacity", "ViewOnlyAccessed": "report-unaccessed-key"}


# ----------------------------------------------------------------------------- counter

def counter_part(ctx):
    q = not ctx.thorough
    # 1a. exhaustive: linked-list counter refines the abstract counter
    r = ctx.mc("redis", "HotKeyList", "MC_HotKeyList_quick.cfg" if q else "MC_HotKeyList.cfg",
               workers=8, timeout=600, coverage=ctx.thorough)
    if r.coverage:
        ctx.check_vacuity(r, "HotKeyList")
    if ctx.thorough:
        ctx.mc("redis", "HotKey", "MC_HotKey.cfg", workers=4, timeout=300)
    # 2. transition cover, replayed on the real counter
    g = ctx.tlc("redis", "HotKeyGen", "Gen_HotKey_quick.cfg" if q else "Gen_HotKey.cfg", mode="mc", workers=1, timeout=600)
    if g.timeout or not g.ok:
        raise kit.Inconclusive("counter behaviour generation failed: " + (g.error or str(g.violated))[:500])
    behs = [p for (tag, p) in g.prints if tag == "EDGE"]
    # one path per transition of the state graph (initial states have no incoming transition)
    if len(behs) < g.generated - 10 or len(behs) < 1000:
        raise kit.Inconclusive("transition cover incomplete: %d paths for %d transitions" % (len(behs), g.generated))
    ctx.cov["counter_transitions_emitted"] = len(behs)
    ctx.cov["counter_transition_cover_complete"] = True
    # deeper seeded histories (7 keys, capacities 2..5, 60 accesses): long enough for a corrupted structure to
    # surface as a property break (new key admitted, grows hotter than a stranded key, next admission evicts)
    nsim = 150 if ctx.thorough else 20
    s = ctx.tlc("redis", "HotKeySim", "Sim_HotKey.cfg", mode="sim", workers=1, sim_num=nsim, sim_depth=80,
                seed=ctx.seed, deadlock=False, timeout=300)
    if s.timeout or s.violated or (s.error and "@@BEH" not in s.stdout):
        raise kit.Inconclusive("counter simulation failed: " + (s.error or str(s.violated))[:500])
    sim = [p for (tag, p) in s.prints if tag == "BEH"]
    if len(sim) < nsim * 2 // 3:
        raise kit.Inconclusive("only %d simulated counter behaviours" % len(sim))
    ctx.cov["counter_deep_histories"] = len(sim)
    allb = behs + sim
    bfile = os.path.join(ctx.work, "counter-behaviours.ndjson")
    kit.write_ndjson(bfile, allb)
    rfile = os.path.join(ctx.work, "counter-replay.ndjson")
    ctx.harness(["c19-counter", "-in", bfile, "-out", rfile], timeout=600)
    results = kit.read_ndjson(rfile)
    probe = [x for x in results if "probe" in x]
    results = [x for x in results if "probe" not in x]
    if len(results) != len(allb):
        raise kit.Inconclusive("counter replay: %d results for %d behaviours" % (len(results), len(allb)))
    conformance = []
    exact = 0
    for res, beh in zip(results, allb):
        ops = [(s["op"], s["k"]) for s in beh]
        ctx.case(key="ctr:%d:%s" % (res["cap"], ops), nontrivial=(res["evicts"] > 0 or res["latches"] > 0))
        if res["ok"]:
            exact += 1
            continue
        # the statement, judged on the real object (the replay goes on after a drift from the model)
        m = res.get("prop")
        if m:
            art = {"capacity": res["cap"], "ops": ops, "property_break": m, "first_drift_from_model": res.get("drift")}
            f = m["field"]
            upto = ops[:m["step"] + 1]
            if f == "bounded":
                ctx.violation("counter-over-capacity/tracks-more-than-capacity",
                              "counter of capacity %s tracks %s keys after %s" % (m["want"], m["got"], upto), art)
            elif f in ("counts", "latched"):
                ctx.violation("counter-inexact/%s" % ("latch" if f == "latched" else "tracked-count"),
                              "counts differ from the accesses since admission: want %s got %s after %s" % (m["want"], m["got"], upto), art)
            elif f == "evicts-minimum":
                ctx.violation("eviction-not-minimum/colder-key-still-tracked",
                              "capacity %d: %s evicted %s while the lowest count among the tracked keys was %s (%s)"
                              % (res["cap"], upto, m["got"], m["want"]["lowest_count"], m["want"]["tracked_before"]), art)
        d = res.get("drift")
        if d:
            # order of equal counts / victim among the minima / list structure / panic: not what the
            # statement is about, but the code left the model
            conformance.append({"capacity": res["cap"], "ops": ops, "drift": d, "property_break": m})
    ctx.cov["traces_validated_against_impl"] += exact
    ctx.cov["counter_replay"] = {"behaviours": len(allb), "state_equal_after_every_step": exact,
                                 "steps": sum(r["steps"] for r in results)}
    if allb:
        b = allb[len(allb) // 2]
        ctx.sample({"counter_behaviour": {"capacity": b[0]["cap"], "ops": [(s["op"], s["k"]) for s in b],
                                          "expected_after_last_step": {"counts": b[-1]["counts"], "nodes": b[-1]["nodes"],
                                                                       "victim": b[-1]["victim"]}}})
    if probe:
        p = probe[0]
        ctx.cov["counter_probes"] = p
        if p.get("cap0_panics"):
            ctx.notes.append("capacity 0 is outside the model (Caps >= 1): hotkey.NewCounter(0, nil).Incr panics with a nil "
                             "dereference in evict(); the processor only ever builds counters of capacity 50")
        if p.get("cap255") != "ok":
            conformance.append({"probe": p})
    if conformance:
        broke = sum(1 for c in conformance if c.get("property_break"))
        ctx.cov["counter_drift"] = {"behaviours_that_left_the_model": len(conformance), "of_which_broke_a_stated_property": broke}
        ctx.notes.append("counter conformance mismatches: %s" % json.dumps(conformance[:3])[:1500])
        return ("real counter left the model in %d behaviours (%d of them also broke a stated property): %s"
                % (len(conformance), broke, json.dumps(conformance[0])[:800]))
    return None


# ----------------------------------------------------------------------------- what is counted as the key

def extract_part(ctx):
    """The step before Counter.Incr: which argument of a request the filter chain counts as THE key, per command
    family x letter case of the command name (spec/redis/HotKeyExtract.tla). The code's rule (name lower-cased
    unconditionally) keeps OnlyAccessedKeysReported; comparing the name as sent, or lower-casing it only when its first
    letter is upper case, must break it (anti-vacuity). The 20 vectors of the model are driven through a real Redis
    processor (the filter chain a backend client builds), HOTKEY is asked after every vector: every listed name must
    be a key argument of some request sent."""
    # the code's rule: exhaustive and clean; the same run emits the vectors (one per transition label)
    g = ctx.mc("redis", "HotKeyExtract", "Gen_HotKeyExtract.cfg", workers=1, timeout=120)
    ctx.mc("redis", "HotKeyExtract", "MC_HotKeyExtract_firstbyte.cfg", workers=1, timeout=120,
           expect_violated=["OnlyAccessedKeysReported"], count=False)
    if ctx.thorough:
        ctx.mc("redis", "HotKeyExtract", "MC_HotKeyExtract_never.cfg", workers=1, timeout=120,
               expect_violated=["OnlyAccessedKeysReported"], count=False)
    vecs, seen = [], set()
    for tag, v in g.prints:
        if tag == "VEC" and (v["f"], v["p"]) not in seen:
            seen.add((v["f"], v["p"]))
            vecs.append(v)
    if g.timeout or not g.ok or len(vecs) != 20:
        raise kit.Inconclusive("vector generation failed (%d vectors): %s" % (len(vecs), (g.error or str(g.violated))[:300]))
    vfile = os.path.join(ctx.work, "namecase-vectors.ndjson")
    kit.write_ndjson(vfile, vecs)
    out = os.path.join(ctx.work, "namecase.ndjson")
    ctx.harness(["c19-namecase", "-in", vfile, "-out", out], timeout=300)
    recs = kit.read_ndjson(out)
    if len(recs) != 20 or any(r["requests"] == 0 for r in recs):
        raise kit.Inconclusive("name-case driver: %d vectors answered" % len(recs))
    known_unknown = set()
    listed_keys = 0
    for r in recs:
        ctx.case(key="namecase:%s:%s" % (r["f"], r["p"]), nontrivial=r["p"] not in ("lower",))
        if r.get("parse"):
            ctx.violation("report-unaccessed-key/hotkey-reply-is-not-the-report",
                          "HOTKEY reply after %s/%s requests is not the collector's report: %s" % (r["f"], r["p"], r["parse"][:80]), r)
            continue
        listed_keys = max(listed_keys, len(r.get("reported") or []))
        new = [n for n in (r.get("unknown") or []) if n not in known_unknown]
        known_unknown.update(new)
        if new:
            ctx.violation("report-unaccessed-key/name-case/%s" % r["f"],
                          "after %s requests with the command name written %s (%s) HOTKEY lists %s, which is not a key of any "
                          "request sent (first arguments that are not keys: %s)" % (r["f"], r["p"], sorted(set(r["names"])), new, r.get("nonkeys")),
                          {k: r[k] for k in ("f", "p", "counts", "names", "requests", "keys", "nonkeys", "unknown")})
    ctx.cov["name_case"] = {"vectors": len(recs), "requests": sum(r["requests"] for r in recs), "error_replies": sum(r["errors"] for r in recs),
                            "keys_listed_at_most": listed_keys}
    ctx.sample({"name_case_vector": {k: recs[4][k] for k in ("f", "p", "counts", "names", "requests")}})
    if listed_keys < 10:
        raise kit.Inconclusive("name-case driver: the report never filled (%d keys)" % listed_keys)


# ----------------------------------------------------------------------------- counter under concurrency

def latch_part(ctx):
    """Incr (backend write loops) against Latch (collector): spec/redis/HotKeyLatch.tla, invariant Conservation.
    The atomic Latch of counter.go keeps it; Latch as two critical sections (copy, reset) must violate it
    (anti-vacuity); the real counter is driven free-running and judged by the same conservation law."""
    ctx.mc("redis", "HotKeyLatch", "MC_HotKeyLatch_atomic.cfg", workers=2, timeout=120)
    ctx.mc("redis", "HotKeyLatch", "MC_HotKeyLatch_split.cfg", workers=2, timeout=120,
           expect_violated=["Conservation"], count=False)
    out = os.path.join(ctx.work, "latchrace.ndjson")
    rounds, per = (6, 60000) if not ctx.thorough else (16, 150000)
    # self-adjusting: a round with too few latches between the writers' accesses is repeated (writers and latcher
    # also pace each other) until the criterion is met or the wall-clock budget is used up
    budget_ms, min_latches = (30000 if ctx.thorough else 8000), 30
    ctx.harness(["c19-latchrace", "-rounds", str(rounds), "-per", str(per), "-out", out,
                 "-budget-ms", str(budget_ms), "-min-latches", str(min_latches)], timeout=600)
    recs = kit.read_ndjson(out)
    if len(recs) != rounds:
        raise kit.Inconclusive("latch race: %d rounds of %d" % (len(recs), rounds))
    for r in recs:
        ctx.case(key="latchrace:%d:%d:%d:%d" % (r["writers"], r["keys"], r["total"], r["nonempty"]), nontrivial=r["nonempty"] >= 2)
        art = dict(r)
        perkey = {k: r["accesses"][k] - r["latched"].get(k, 0) - r["remaining"].get(k, 0) for k in r["accesses"]}
        art["accesses_minus_reported_per_key"] = perkey
        if r["lost"] != 0 or any(perkey.values()):
            ctx.violation("counter-inexact/latch-concurrent-with-incr",
                          "%d writer(s), %d keys, capacity %d (no eviction): %d accesses made, the %d latches returned %d and the "
                          "counter still held %d: %d accesses are in no latch (per key: %s)" %
                          (r["writers"], r["keys"], r["capacity"], r["total"], r["latches"], sum(r["latched"].values()),
                           sum(r["remaining"].values()), r["lost"], perkey), art)
        if r["maxsize"] > r["capacity"]:
            ctx.violation("counter-over-capacity/tracks-more-than-capacity",
                          "a latch returned %d keys with capacity %d" % (r["maxsize"], r["capacity"]), art)
    ctx.cov["latch_race"] = {"rounds": rounds, "accesses": sum(r["total"] for r in recs),
                             "latches_while_writers_ran": sum(r["latches"] for r in recs),
                             "latches_that_returned_counts": sum(r["nonempty"] for r in recs)}
    ctx.sample({"latch_race_round": {k: recs[0][k] for k in ("writers", "keys", "capacity", "total", "latches", "nonempty", "lost")}})
    # mandatory stratum: the latches really interleaved with the writers
    ctx.cov["latch_race"]["rounds_repeated"] = sum(r.get("attempt", 0) for r in recs)
    if any(r["total"] < per or (r["lost"] == 0 and r["nonempty"] < min_latches) for r in recs):
        raise kit.Inconclusive("latch race did not interleave latches with writers within %d ms: %s" % (budget_ms, ctx.cov["latch_race"]))


# ----------------------------------------------------------------------------- collector

def collector_models(ctx):
    q = not ctx.thorough
    r = ctx.mc("redis", "HotKeyCollector", "MC_HotKeyCollector_fixed_quick.cfg" if q else "MC_HotKeyCollector_fixed.cfg",
               workers=8, timeout=900)
    # anti-vacuity: the pinned evictStale still loses the order in the model ...
    ctx.mc("redis", "HotKeyCollector", "MC_HotKeyCollector_pinned_evict.cfg", workers=4, timeout=300,
           expect_violated=["ReportSorted"], count=False)
    if ctx.thorough:
        # ... in-place updates of published heat objects still tear a reader's view ...
        ctx.mc("redis", "HotKeyCollector", "MC_HotKeyCollector_pinned_reader.cfg", workers=8, timeout=300,
               expect_violated=["ViewSorted"], count=False)
        # ... and restoring the order alone repairs the published report
        ctx.mc("redis", "HotKeyCollector", "MC_HotKeyCollector_evictfix_only.cfg", workers=4, timeout=300)
    return None


def sorted_kv(rep):
    return all(rep[i]["v"] >= rep[i + 1]["v"] for i in range(len(rep) - 1))


def unique_kv(rep):
    return len({x["k"] for x in rep}) == len(rep)


def judge_readers(ctx, events, hists):
    """The report properties judged directly on every recorded reader observation (between jobs and in
    parallel with a job): sorted by non-increasing heat, no key twice, capped, only accessed keys, and a report a
    reader holds is immutable (a second walk over the same slice sees what the first walk saw).
    Returns {(event index, TLC invariant name)} of the observations found defective, and counters."""
    judged = set()
    counts = {}
    n_obs = 0
    cap, accessed, job, prev = 0, set(), None, []
    last_rep = []
    for i, e in enumerate(events):
        ev = e["ev"]
        if ev == "reset":
            cap, accessed, job, prev, last_rep = e["cap"], set(), None, [], []
        elif ev == "incr":
            accessed.add(e["k"])
        elif ev in ("collect", "evict"):
            prev, last_rep, job = last_rep, e["rep"], e
        if ev not in ("read", "pread"):
            continue
        n_obs += 1
        view = e["view"]
        h = hists[e["h"]]
        where = ("reader-between-jobs" if ev == "read" else
                 "reader-overlaps-%s" % ("collect-merge" if e["during"] == "collect" else "evict-stale"))
        pub_broken = (not sorted_kv(last_rep) or not sorted_kv(prev) or not unique_kv(last_rep) or not unique_kv(prev))
        art = {"history": h["h"], "source": h["source"], "capacity": h["cap"], "script": h["script"][:60],
               "report_before": prev, "job": job, "view": view, "second_walk": e.get("again")}
        desc = ("a HOTKEY reader %s read %s (published before the job: %s, after: %s)" %
                ("between two jobs" if ev == "read" else "running in parallel with " + (job or {}).get("ev", "?"),
                 [(x["k"], x["v"]) for x in view], [(x["k"], x["v"]) for x in prev], [(x["k"], x["v"]) for x in last_rep]))

        def hit(inv, sig, what):
            judged.add((i, inv))
            counts[sig] = counts.get(sig, 0) + 1
            ctx.violation(sig, what, art)

        if not unique_kv(view):
            dup = sorted({x["k"] for x in view if sum(1 for y in view if y["k"] == x["k"]) > 1})
            hit("ViewUnique", "report-duplicate/" + where, "key(s) %s listed twice: %s" % (dup, desc))
        if not sorted_kv(view) and not (pub_broken and not e.get("again")):
            hit("ViewSorted", "report-unsorted/" + where, "not in non-increasing heat order: " + desc)
        if len(view) > cap:
            hit("ViewCapped", "report-over-capacity/" + where, "%d keys with capacity %d: %s" % (len(view), cap, desc))
        if not {x["k"] for x in view} <= accessed:
            hit("ViewOnlyAccessed", "report-unaccessed-key/" + where,
                "keys never accessed: %s: %s" % (sorted({x["k"] for x in view} - accessed), desc))
        if e.get("again") is not None:
            hit("Immutable", "report-torn/concurrent-reader",
                "the slice a reader got from HotKeys() changed under it: first walk %s, second walk %s (%s)" %
                ([(x["k"], x["v"]) for x in view], [(x["k"], x["v"]) for x in e["again"]], desc))
    return judged, counts, n_obs


def collector_part(ctx):
    q = not ctx.thorough
    # scripts out of TLC (seeded simulation)
    scripts = []
    cfgs = ["Gen_HotKeyCollector.cfg"] if q else ["Gen_HotKeyCollector.cfg", "Gen_HotKeyCollector_cap2.cfg", "Gen_HotKeyCollector_cap1.cfg"]
    per = 40 if q else 120
    for i, cfg in enumerate(cfgs):
        s = ctx.tlc("redis", "HotKeyCollectorGen", cfg, mode="sim", workers=1, sim_num=per, sim_depth=200,
                    seed=ctx.seed * 10 + i, deadlock=False, timeout=300)
        if s.timeout or (s.error and "@@BEH" not in s.stdout):
            raise kit.Inconclusive("collector script generation failed: " + s.error[:500])
        scripts += [p for (tag, p) in s.prints if tag == "BEH"]
    if len(scripts) < per * len(cfgs) // 2:
        raise kit.Inconclusive("only %d collector scripts emitted" % len(scripts))
    sfile = os.path.join(ctx.work, "collector-scripts.ndjson")
    kit.write_ndjson(sfile, scripts)
    # targeted scripts: every transition of a small collector model that enters the window "evictStale
    # drops a key to zero and the survivors are out of order" (mixed last-update minutes + heat-1 key)
    wr = ctx.tlc("redis", "HotKeyCollectorGen", "Win_HotKeyCollector.cfg", mode="mc", workers=2, timeout=300)
    wins = [p for (tag, p) in wr.prints if tag == "WIN"]
    if wr.timeout or not wr.ok or len(wins) < 3:
        raise kit.Inconclusive("window script generation failed (%d scripts): %s" % (len(wins), (wr.error or str(wr.violated))[:400]))
    wfile = os.path.join(ctx.work, "collector-window-scripts.ndjson")
    kit.write_ndjson(wfile, wins)
    winrep, targeted = (6, 16) if q else (16, 100)
    stress = 2 if q else 6
    tfile = os.path.join(ctx.work, "collector-trace.ndjson")
    hfile = os.path.join(ctx.work, "collector-histories.ndjson")
    nrand, heavy = (40, 4) if q else (400, 40)
    ctx.harness(["c19-collector", "-in", sfile, "-n", str(nrand), "-heavy", str(heavy), "-trace", tfile, "-sum", hfile,
                 "-win", wfile, "-winrep", str(winrep), "-targeted", str(targeted), "-stress", str(stress),
                 "-readers", "4"], timeout=900)
    events = kit.read_ndjson(tfile)
    hists = kit.read_ndjson(hfile)
    expected = len(scripts) + nrand + len(wins) * winrep + targeted + stress
    if len(hists) != expected:
        raise kit.Inconclusive("collector driver: %d histories, expected %d" % (len(hists), expected))
    for h in hists:
        if h.get("panic") or h.get("reader_panic"):
            raise kit.Inconclusive("collector history %d panicked: %s" % (h["h"], h.get("panic") or h.get("reader_panic")))
    straddle = sum(1 for h in hists if h["straddles"])
    overlap = sum(1 for h in hists if h["overlap"])
    ctx.cov["collector_histories"] = {"from_tlc": len(scripts), "random": nrand, "from_tlc_window": len(wins) * winrep,
                                      "targeted": targeted, "events": len(events),
                                      "with_tick_inside_a_job": straddle,
                                      "with_reader_overlapping_a_job": overlap,
                                      "reports_read_by_parallel_readers": sum(h["ploops"] for h in hists)}
    # the evictStale corner on the REAL run: published keys with different last-update minutes, a stale key
    # halved below a fresh one that it preceded, and a stale key dropping to zero in the same pass
    # (strong: at least as many keys drop as fresh keys survive)
    win_hist, strong_hist = set(), set()
    last_rep = []
    for e in events:
        if e["ev"] == "reset":
            last_rep = []
        elif e["ev"] == "collect":
            last_rep = e["rep"]
        elif e["ev"] == "evict":
            prev = last_rep
            last_rep = e["rep"]
            stale = [x["v"] != 0 and e["m0"] > x["lut"] for x in prev]
            dropped = sum(1 for x, st in zip(prev, stale) if st and x["v"] // 2 == 0)
            fresh = sum(1 for x, st in zip(prev, stale) if not st and x["v"] != 0)
            cross = any(stale[i] and not stale[j] and 0 < prev[i]["v"] // 2 < prev[j]["v"]
                        for i in range(len(prev)) for j in range(i + 1, len(prev)))
            if dropped and cross:
                win_hist.add(e["h"])
                if dropped >= fresh:
                    strong_hist.add(e["h"])
    ctx.cov["collector_histories"]["through_evict_window_drop_and_reorder"] = len(win_hist)
    ctx.cov["collector_histories"]["of_which_drops_ge_fresh_survivors"] = len(strong_hist)
    ctx.cov["collector_histories"]["window_scripts_from_tlc"] = len(wins)
    # mandatory stratum: HOTKEY readers that walk the published slice WHILE collect merges (reader-stress histories:
    # 12 periods of 8 very hot keys, 4 readers); counted are walks that began and ended inside a running job
    sh = [h for h in hists if h["source"] == "reader-stress"]
    ctx.cov["collector_histories"]["reader_stress"] = {"histories": len(sh), "periods": sum(h["collects"] for h in sh),
                                                      "reports_walked_while_a_job_ran": sum(h["during"] for h in sh)}
    ctx.cov["collector_histories"]["reports_walked_while_a_job_ran"] = sum(h["during"] for h in hists)
    if (straddle < 5 or sum(h["ploops"] for h in hists) < 1000 or len(strong_hist) < 3
            or len(sh) < stress or any(h["during"] < 200 or h["collects"] < 12 for h in sh)):
        raise kit.Inconclusive("collector driver did not exercise the windows: %s" % ctx.cov["collector_histories"])
    for h in hists:
        ctx.case(key="coll:" + json.dumps(h["script"], sort_keys=True),
                 nontrivial=bool(h["straddles"] or h["overlap"] or h["collects"] >= 2))
    hh = next((h for h in hists if h["straddles"] and h["source"] == "random"), hists[0])
    ctx.sample({"collector_history": {"capacity": hh["cap"], "script": hh["script"][:14],
                                      "first_job_event": next((e for e in events[hh["first"]:hh["first"] + hh["events"]]
                                                               if e["ev"] in ("collect", "evict")), None)}})

    # the statement judged directly on every reader observation (TLC evaluates the same predicates below, but a
    # trace that the trace spec rejects is not followed to its end)
    judged, rcounts, n_obs = judge_readers(ctx, events, hists)
    ctx.cov["reader_observations_judged"] = n_obs
    if rcounts:
        ctx.cov["reader_observations_defective"] = rcounts

    # code -> spec: TLC judges the trace
    r = ctx.validate_traces("redis", "HotKeyCollectorTrace", "Trace_HotKeyCollector.cfg", events, len(hists), timeout=600)
    if r.ok:
        if judged:
            raise kit.Inconclusive("reader observations break the statement but TLC accepted the trace with all invariants: %s" % rcounts)
        return
    # something is wrong: follow the whole trace and list every state that breaks a property
    d = ctx.validate_traces("redis", "HotKeyCollectorTrace", "Trace_HotKeyCollector_diag.cfg", events, len(hists), timeout=600)
    if d.reject is not None or not d.ok:
        idx = d.reject[0] if d.reject else -1
        ev = events[idx - 1] if 0 < idx <= len(events) else None
        msg = ("recorded collector trace is not a behaviour of HotKeyCollectorTrace at event %d: %s" % (idx, json.dumps(ev)[:600]))
        if judged:
            # the binding did its job (the real collector left the model) and the statement's own predicates
            # already failed on recorded reader observations: the violations stand
            ctx.notes.append(msg)
            ctx.cov["trace_rejected_at_event"] = idx
            return
        raise kit.Inconclusive(msg)
    bads = [p for (tag, p) in d.prints if tag == "BAD"]
    if not bads:
        raise kit.Inconclusive("TLC reported %s on the trace but the diagnosis run found no failing state" % r.violated)

    def history_of(i):
        return hists[events[i]["h"]]

    def job_before(i):
        j = i
        while j >= 0 and events[j]["ev"] not in ("collect", "evict", "reset"):
            j -= 1
        return j

    counts = {}
    for b in bads:
        i = b["l"] - 1          # index of the event that led to the failing state
        e = events[i]
        names = b["bad"]
        h = history_of(i)
        if e["ev"] in ("collect", "evict"):
            for inv in names:
                if inv not in REPORT_INVS:
                    continue
                p = job_before(i - 1)
                prev = events[p].get("rep", []) if p >= 0 else []
                if e["rep"] == prev or (inv == "ReportSorted" and e["ev"] == "evict" and not sorted_kv(prev)):
                    continue    # the job inherited a report that already broke the property: reported there
                if inv == "ReportSorted" and e["ev"] == "evict":
                    partial = e["m1"] > e["m0"] or len({x["lut"] for x in prev}) > 1
                    sig = "report-unsorted/evict-stale-partial-halving" if partial else "report-unsorted/evict-stale"
                    what = ("evictStale at minute %d halved only the keys last updated before that minute and kept the old order: "
                            "%s became %s" % (e["m0"], [(x["k"], x["v"], x["lut"]) for x in prev], [(x["k"], x["v"]) for x in e["rep"]]))
                else:
                    sig = "%s/after-%s" % (SHORT[inv], e["ev"])
                    what = "%s does not hold for the report published by %s: %s" % (inv, e["ev"], e["rep"])
                counts[sig] = counts.get(sig, 0) + 1
                ctx.violation(sig, what, {"history": h["h"], "capacity": h["cap"], "script": h["script"],
                                          "report_before": prev, "event": e})
        elif e["ev"] in ("read", "pread"):
            j = job_before(i)
            job = events[j]
            p = job_before(j - 1)
            prev = events[p].get("rep", []) if p >= 0 else []
            for inv in names:
                if inv not in VIEW_INVS or (i, inv) in judged:
                    continue
                if inv == "ViewSorted" and (not sorted_kv(job.get("rep", [])) or not sorted_kv(prev)):
                    continue    # the published report itself was out of order: reported above
                if e["ev"] == "read":
                    sig = "%s/reader-between-jobs" % SHORT[inv]
                else:
                    sig = "%s/reader-overlaps-%s" % (SHORT[inv], "collect-merge" if e["during"] == "collect" else "evict-stale")
                what = ("a HOTKEY reader running in parallel with %s read %s (report before: %s, after: %s): the job updates "
                        "the heat objects of the published slice in place" %
                        (job["ev"], [(x["k"], x["v"]) for x in e["view"]], [(x["k"], x["v"]) for x in prev],
                         [(x["k"], x["v"]) for x in job.get("rep", [])]))
                counts[sig] = counts.get(sig, 0) + 1
                ctx.violation(sig, what, {"history": h["h"], "capacity": h["cap"], "script": h["script"],
                                          "report_before": prev, "job": job, "view": e["view"]})
    ctx.cov["collector_failing_states"] = counts
    if not counts and not judged:
        raise kit.Inconclusive("TLC reported %s on the trace but no failing state could be attributed" % r.violated)


# ----------------------------------------------------------------------------- end to end

def e2e_part(ctx):
    """HOTKEY reply text through a real Redis processor with value compression ENABLED: ramp over 70 keys (capacity
    50), hot-key storms with a second client asking HOTKEY all the time, and HOTKEY pipelined behind a request that
    the backend holds back while other clients write and read large values (the reply waits in the session queue)."""
    out = os.path.join(ctx.work, "e2e.ndjson")
    gated = 60 if ctx.thorough else 40
    args = ["c19-e2e", "-out", out, "-gated", str(gated)]
    if not ctx.thorough:
        args += ["-storms", "1", "-ramp-div", "12"]
    ctx.harness(args, timeout=300)
    recs = kit.read_ndjson(out)
    summ = [x for x in recs if "summary" in x]
    reps = [x for x in recs if "summary" not in x]
    if (not summ or summ[0]["nonempty"] < 50 or summ[0]["maxlen"] < 50 or not summ[0].get("compression")
            or summ[0].get("gated", 0) < gated or summ[0].get("gated_ops", 0) < 20 * gated):
        raise kit.Inconclusive("e2e smoke did not exercise its strata: %s" % (summ[:1],))
    ctx.cov["e2e"] = summ[0]
    for r in reps:
        ent = r.get("entries") or []
        ctx.case(key="e2e:%s:%s" % (r.get("parse", ""), [(x["k"], x["v"]) for x in ent]), nontrivial=len(ent) >= 2)
        art = {"phase": r["phase"], "entries": ent, "text": (r.get("text") or "")[:600]}
        if r.get("parse"):
            # not "Collect N keys in this period!" + one "counter: V  keyname: K" line per key: whatever it lists,
            # it is not keys that were accessed
            ctx.violation("report-unaccessed-key/hotkey-reply-is-not-the-report",
                          "HOTKEY reply through the proxy (%s phase) is not the collector's report: %s; reply starts %r" %
                          (r["phase"], r["parse"][:80], (r.get("text") or "")[:80]), art)
            continue
        if len(ent) > 50 or r["declared"] != len(ent):
            ctx.violation("report-over-capacity/hotkey-reply", "HOTKEY lists %d keys (declared %d, capacity 50)" % (len(ent), r["declared"]), art)
        if len({x["k"] for x in ent}) != len(ent):
            ctx.violation("report-duplicate/hotkey-reply", "HOTKEY lists a key twice", art)
        if r.get("unknown"):
            ctx.violation("report-unaccessed-key/hotkey-reply", "HOTKEY lists keys no client accessed: %s" % r["unknown"], art)
        if not sorted_kv(ent):
            i = next(i for i in range(len(ent) - 1) if ent[i]["v"] < ent[i + 1]["v"])
            ctx.violation("report-unsorted/hotkey-reply-during-%s" % r["phase"],
                          "HOTKEY reply through the proxy not in non-increasing heat order: ... %s ..." %
                          [(x["k"], x["v"]) for x in ent[max(0, i - 1):i + 3]], art)
    good = [r for r in reps if not r.get("parse")]
    if good:
        ctx.sample({"hotkey_reply": [(x["k"], x["v"]) for x in (good[len(good) // 2].get("entries") or [])[:8]]})


def run(ctx):
    ctx.build()
    ctx.assumptions += [
        "counter capacity >= 1 (the processor uses 50; capacity 0 makes Incr dereference nil and is reported as a note)",
        "exhaustive counter model: <= 7 accesses over 4 keys, capacities 1..3, <= 2 latches/frees (quick: 7 accesses, 3 keys); deeper histories only sampled",
        "exhaustive collector model: 3 keys, 2 counters, capacity 2, <= 3 periods, <= 4 accesses, 2 clock ticks, 1 reader; an access is only scheduled between jobs (it commutes with every step but the latch)",
        "the logarithmic counter is modelled as bounded nondeterminism (val' in val..min(255, val+n), a zero counter always leaves zero); its distribution is not checked",
        "collect and evictStale never overlap each other (both run on Collector.Run's goroutine)",
        "key extraction: 4 command families x 5 letter-case patterns of the name; on the code only the commands a client can get through the proxy reach the filter chain (eval and scan for the key-less/eval-like families; cluster and auth cannot be sent by clients)",
        "Incr against Latch: exhaustive for 2 keys, 5 accesses, 3 latches; on the code free-running rounds with 1..4 writers, capacity above the number of keys (no eviction) so that conservation is exact",
    ]
    # the parts are independent: an infrastructure problem in one of them must not hide what the others observe
    deferred = []

    def part(fn):
        try:
            reason = fn(ctx)
        except kit.Inconclusive as e:
            reason = str(e)
        if reason:
            kit.log("INCONCLUSIVE (deferred) in %s: %s" % (fn.__name__, str(reason)[:300]))
            deferred.append("%s: %s" % (fn.__name__, reason))

    part(counter_part)
    part(latch_part)
    part(extract_part)
    part(collector_models)
    part(collector_part)
    part(e2e_part)
    ctx.cov["rule"] = (
        "counter cases = every transition of HotKeyList's bounded state graph as one path (plus seeded deeper simulations in the "
        "thorough tier), distinct by (capacity, operation sequence), non-trivial = contains an eviction, a Latch or a Free; "
        "collector cases = scripts from seeded TLC simulation of HotKeyCollectorGen plus seeded random histories, distinct by script, "
        "non-trivial = a clock tick inside a job, a reader view that differs from the report before and after the job, or >= 2 periods; "
        "e2e cases = distinct HOTKEY replies. Judged by the statement's predicates only (TLC invariants on the recorded trace, "
        "state equality with the model for the counter).")
    if deferred:
        # pure drift / infrastructure trouble is not a verdict; recorded violations stand
        raise kit.Inconclusive(" | ".join(deferred))
