"""C12 - key-to-slot mapping equals the Redis Cluster specification.

spec/redis/Slot.tla: bitwise CRC16/XMODEM reference (Rep1/Rep8/StepRef), the table derived from it (Tab), the
table driven fold of proc/redis/util.go (StepTab), HashTag as the cluster specification words it, Slot.

 1. TLC, exhaustive: for all 65536 values v = s XOR (b << 8) the reference remainder equals the table fold
    (MC_Slot.cfg); thorough tier additionally the unreduced statement, all 2^16 CRC states x all 256 next
    bytes, by brute force (MC_SlotFull.cfg: 16.7 M transitions), which also checks the reduction.
 2. spec -> code: TLC emits Tab, the step table R8 (SlotGen/Gen_SlotTab.cfg) and (key, tag, slot) for every
    key of length <= 7 (quick) / 8 (thorough) over { '{', '}', 'a', 'b' } (Gen_SlotKeys_*.cfg).  The harness
    compares the real crc16tab with Tab, the real crc16 on ALL keys of length 0..3 (2^24 three byte keys:
    every (state, next byte) pair of the real fold is executed) with R8 applied once per byte, the real
    hashtag / slot on every emitted brace key, and seeded random keys up to 64 KiB.
 3. code -> spec: (key, tag, crc, slot) computed by the real code for seeded random short keys with arbitrary
    brace placement are validated by TLC (SlotTrace.tla) with HashTag / CRC / Slot of the module.
"""
import json
import os

import kit

LEVEL = "model_checking"


def _sig(part, what):
    what = what.split(" (")[0]
    if part == "table":
        return "crc-table/entry"
    if "hashtag" in what:
        return "hashtag/" + part
    if "slot" in what:
        return "slot/" + part
    return "crc16/" + part


def _collect(ctx, path, expect_parts):
    """Turn the harness records into cases / violations. Returns summaries by part."""
    recs = kit.read_ndjson(path) if os.path.exists(path) else []
    sums = {r["part"]: r for r in recs if r.get("kind") == "summary"}
    for p in expect_parts:
        if p not in sums:
            raise kit.Inconclusive("harness result %s lacks part %s" % (path, p))
    for r in recs:
        if r.get("kind") != "mismatch":
            continue
        key = bytes(r.get("key") or [])
        ctx.violation(_sig(r["part"], r["what"]),
                      "%s of key %r: real code %s, specification %s" % (r["what"], key, r["got"], r["want"]),
                      {"part": r["part"], "key_bytes": r.get("key"), "what": r["what"],
                       "real": r["got"], "spec": r["want"]})
    return sums


def run(ctx):
    ctx.build()
    ctx.assumptions += [
        "the three line application of TLC's emitted step table in the harness (crc = R8[crc XOR b<<8]) is trusted",
        "keys longer than 3 bytes are covered by induction on the step function (checked for all states x bytes), "
        "sampled directly up to 64 KiB",
        "brace placement is exhaustive up to length 7 (quick) / 8 (thorough) over a 4 letter alphabet; the scan only "
        "distinguishes '{', '}' and other bytes",
        "end-to-end routing by the computed slot is checked in C03",
    ]
    # 1. exhaustive CRC step equivalence
    ctx.mc("redis", "Slot", "MC_Slot.cfg", workers=4, timeout=300)
    if ctx.thorough:
        ctx.mc("redis", "Slot", "MC_SlotFull.cfg", workers=8, timeout=900)

    # 2a. tables out of TLC
    r = ctx.mc("redis", "SlotGen", "Gen_SlotTab.cfg", workers=2, timeout=300, count=False)
    tabs = [p for (t, p) in r.prints if t == "TAB"]
    chunks = {p["c"]: p["r"] for (t, p) in r.prints if t == "R8"}
    if len(tabs) != 1 or len(tabs[0]) != 256 or sorted(chunks) != list(range(256)) \
            or any(len(c) != 256 for c in chunks.values()):
        raise kit.Inconclusive("table emission incomplete: %d TAB, %d R8 chunks" % (len(tabs), len(chunks)))
    r8 = []
    for c in range(256):
        r8 += chunks[c]
    tfile = os.path.join(ctx.work, "tables.json")
    with open(tfile, "w") as f:
        json.dump({"tab": tabs[0], "r8": r8}, f)
    # the reference step is a bijection on 16 bit values for a fixed byte (sanity of the emitted table)
    if len(set(r8)) != 65536:
        raise kit.Inconclusive("emitted step table is not a permutation of 0..65535")

    res1 = os.path.join(ctx.work, "tables.ndjson")
    ctx.harness(["c12-tables", "-tab", tfile, "-out", res1], timeout=600)
    sums = _collect(ctx, res1, ["table", "len0", "len1", "len2", "len3"])
    if "distinct_states=65536" not in sums["len2"].get("note", "") and not ctx.violations:
        raise kit.Inconclusive("two byte keys did not reach every CRC state: %s" % sums["len2"].get("note"))
    for p in ("table", "len0", "len1", "len2", "len3"):
        ctx.case(n=sums[p]["n"], nontrivial=False)
    ctx.case(key="crc16tab == Tab (256 entries)")
    ctx.case(key="all keys of length 1 (= table entries)")
    ctx.case(key="all keys of length 2 (reach every CRC state)")
    ctx.case(key="all 2^24 keys of length 3 (every state x next byte of the real fold)")
    ctx.cov["traces_validated_against_impl"] += 256 + 1 + 256 + 65536 + (1 << 24)
    ctx.cov["exhaustive"] = True
    ctx.cov["crc_step"] = {"tlc_values_checked": 65536, "real_fold_pairs_executed": 1 << 24,
                           "full_product_in_tlc": bool(ctx.thorough)}

    # 2b. brace keys
    cfg = "Gen_SlotKeys_thorough.cfg" if ctx.thorough else "Gen_SlotKeys_quick.cfg"
    r = ctx.mc("redis", "SlotGen", cfg, workers=4, timeout=600)
    keys = [p for (t, p) in r.prints if t == "KEY"]
    maxlen = 8 if ctx.thorough else 7
    want = sum(4 ** i for i in range(maxlen + 1))
    if len(keys) != want or r.distinct != want:
        raise kit.Inconclusive("brace key emission incomplete: %d of %d" % (len(keys), want))
    kfile = os.path.join(ctx.work, "keys.ndjson")
    kit.write_ndjson(kfile, keys)
    res2 = os.path.join(ctx.work, "keys.ndjson.out")
    ctx.harness(["c12-keys", "-in", kfile, "-out", res2], timeout=600)
    sums2 = _collect(ctx, res2, ["brace"])
    if sums2["brace"]["n"] != want:
        raise kit.Inconclusive("harness replayed %d of %d brace keys" % (sums2["brace"]["n"], want))
    for k in keys:
        ctx.case(key="k" + bytes(k["k"]).decode("latin1"), nontrivial=len(k["t"]) != len(k["k"]) or 123 in k["k"])
    ctx.cov["traces_validated_against_impl"] += want
    ctx.cov["brace_keys"] = {"max_len": maxlen, "keys": want, "note": sums2["brace"].get("note", "")}
    for k in keys:
        if len(k["t"]) != len(k["k"]) and len(k["k"]) >= 5:
            ctx.sample({"key": bytes(k["k"]).decode("latin1"), "tag": bytes(k["t"]).decode("latin1"), "slot": k["s"]})
            break

    # 2c / 3. random keys: long ones against the step table, short ones recorded for TLC
    n_long = 6000 if ctx.thorough else 1500
    n_short = 400 if ctx.thorough else 250
    res3 = os.path.join(ctx.work, "random.ndjson")
    trace = os.path.join(ctx.work, "recorded.json")
    ctx.harness(["c12-random", "-tab", tfile, "-n", str(n_long), "-short", str(n_short), "-out", res3, "-trace", trace],
                timeout=600)
    sums3 = _collect(ctx, res3, ["long", "short-recorded"])
    ctx.case(n=n_long, nontrivial=False)
    ctx.case(key="seeded random keys up to 64 KiB (seed %d)" % ctx.seed)
    with open(trace) as f:
        events = json.load(f)
    if len(events) != n_short:
        raise kit.Inconclusive("recorded %d short keys, wanted %d" % (len(events), n_short))
    rt = ctx.validate_traces("redis", "SlotTrace", "Trace_Slot.cfg", events, len(events), timeout=300)
    ctx.cov["states"] += rt.distinct
    ctx.cov["transitions"] += rt.generated
    if not rt.ok:
        if rt.reject is None:
            raise kit.Inconclusive("SlotTrace failed without a rejection: %s" % (rt.error or rt.violated))
        idx = rt.reject[0] - 1
        e = events[idx] if 0 <= idx < len(events) else None
        ctx.violation("slot/recorded-key",
                      "TLC rejects what the real code computed for key %r: tag %r crc %s slot %s" % (
                          bytes(e["k"]) if e else None, bytes(e["t"]) if e else None,
                          e and e["c"], e and e["s"]),
                      {"index": idx, "record": e})
    for e in events:
        ctx.case(key="r" + bytes(e["k"]).decode("latin1"), nontrivial=len(e["t"]) != len(e["k"]))
    ctx.sample({"recorded": events[1] if len(events) > 1 else None})
    ctx.cov["random_keys"] = {"long": n_long, "long_note": sums3["long"].get("note", ""), "short_validated_by_tlc": n_short}
    ctx.cov["rule"] = ("cases: the CRC step for all 65536 values of s XOR (b<<8) in TLC and all 2^24 three byte keys on the real "
                       "fold (counted as 4 distinct classes); every key of length <= %d over {'{','}','a','b'} (distinct by key; "
                       "non-trivial = contains '{'); seeded random keys (distinct by key; non-trivial = has a hash tag)" % maxlen)
