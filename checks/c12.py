"""C12 - key-to-slot mapping equals the Redis Cluster specification.

spec/redis/Slot.tla: bitwise CRC16/XMODEM reference (Rep1/Rep8/StepRef), the table derived from it (Tab), the
table driven fold of proc/redis/util.go (StepTab), HashTag as the cluster specification words it, Slot.

 1. TLC, exhaustive: for all 65536 values v = s XOR (b << 8) the reference remainder equals the table fold
    (MC_Slot.cfg); thorough tier additionally the unreduced statement, all 2^16 CRC states x all 256 next
    bytes, by brute force (MC_SlotFull.cfg: 16.7 M transitions), which also checks the reduction.
 2. spec -> code: TLC emits Tab, the step table R8 (SlotGen/Gen_SlotTab.cfg) and (key, tag, slot) for every
    key of length <= 7 (quick) / 8 (thorough) over { '{', '}', 'a', 'b' } (Gen_SlotKeys_*.cfg).  The harness
    compares the real crc16tab with Tab, the real crc16 on ALL keys of length 0..3 (2^24 three byte keys:
    every (state, next byte) pair of the real fold is executed) with R8 applied once per byte, the real
    hashtag / slot on every emitted brace key, and seeded random keys up to 64 KiB.
 3. code -> spec: (key, tag, crc, slot) computed by the real code for seeded random short keys with arbitrary
    brace placement are validated by TLC (SlotTrace.tla) with HashTag / CRC / Slot of the module.
 4. the routing decision (spec/redis/SlotRoute.tla, SlotRouteGen.tla, SlotRouteTrace.tla): where the slot is USED.
    chooseHost reads a table that doSlotsRefresh rewrites master by master while sessions keep routing; a slot
    without an owner falls back to a random seed host, i.e. is not routed by its slot.  TLC checks that on an
    unchanged, correctly sharded cluster every decision after the first fill - in every phase of every later
    refresh, successful or failed - is the owner of Slot(key) for every key including the empty one
    (MC_SlotRoute.cfg), and that the two broken variants violate it (anti-vacuity: MC_SlotRoute_wipe.cfg = the
    table is cleared before it is refilled, MC_SlotRoute_emptykey.cfg = an empty routing key goes to any host).
    spec -> code: TLC emits the layouts, the keys and, for every reachable state of the refresh, the node of
    every key (Gen_SlotRoute.cfg); the harness builds a real upstream over fake seed nodes, parks the refresh
    goroutine at the hook upstream.doSlotsRefresh.assigned after each master (and withholds the CLUSTER NODES
    reply), and routes every key - and every brace key of step 2 - through the real chooseHost in every state;
    a last stratum lets refreshes run free under concurrent routing.  code -> spec: the recorded events
    (send / assign / done / fail / route) are validated by TLC (SlotRouteTrace.tla).
    All slot values of steps 2 and 3 are read off the same real routing function (a real upstream with seed
    hosts, redis.VerifNewRouter), so a key that is not routed by its slot shows as slot -1.

Hooks / exports in /repo used by this check: proc/redis/export_verif.go (VerifCRC16, VerifHashTag, VerifCRC16Tab),
proc/redis/route_verif.go (VerifNewRouter, VerifInstanceAddr), hook line upstream.doSlotsRefresh.assigned.
"""
import copy
import json
import os
from concurrent.futures import ThreadPoolExecutor

import kit

LEVEL = "model_checking"


def _sig(part, what, key=None, got=None, cls=None):
    what = what.split(" (")[0]
    # the real code panicked on the key: the key has no slot at all (in the proxy: the session goroutine dies)
    if "panic" in what or got == [-3]:
        return "%s/panic/%s" % ("hashtag" if "hashtag" in what else "slot", cls or _key_class(key or b""))
    if "slot" in what and key is not None and len(key) == 0:
        return "slot/empty-key"
    if part == "table":
        return "crc-table/entry"
    if "hashtag" in what:
        return "hashtag/" + part
    if "slot" in what:
        return "slot/" + part
    return "crc16/" + part


def _collect(ctx, path, expect_parts):
    """Turn the harness records into cases / violations. Returns summaries by part."""
    recs = kit.read_ndjson(path) if os.path.exists(path) else []
    sums = {r["part"]: r for r in recs if r.get("kind") == "summary"}
    for p in expect_parts:
        if p not in sums:
            raise kit.Inconclusive("harness result %s lacks part %s" % (path, p))
    for r in recs:
        if r.get("kind") != "mismatch":
            continue
        key = bytes(r.get("key") or [])
        ctx.violation(_sig(r["part"], r["what"], key, r["got"], r.get("class")),
                      "%s of key %r: real code %s, specification %s" % (
                          r["what"], key, "PANICKED" if r["got"] == [-3] else r["got"], r["want"]),
                      {"part": r["part"], "key_bytes": r.get("key"), "what": r["what"],
                       "real": r["got"], "spec": r["want"]})
    return sums


def _key_class(kb):
    if len(kb) == 0:
        return "empty-key"
    if 123 in kb:
        return "brace-key"
    return "plain-key"


def _route_sig(rec, stable_bad):
    """Signature of a routing decision that is not the owner of the key's slot (table filled, cluster unchanged)."""
    if rec.get("got") == "panic":
        return "route/panic/" + _key_class(rec["key"])     # chooseHost panicked on the key
    if (rec["lay"], tuple(rec["key"])) in stable_bad:
        return "route/" + _key_class(rec["key"])          # wrong whatever the refresh does: an input class
    if rec["phase"] in ("update", "free-running"):
        return "route/refresh-window"                     # between the first and the last write of a refresh
    if rec["phase"] == "inflight":
        return "route/refresh-in-flight"
    if rec["after"].startswith("fail"):
        return "route/after-failed-refresh"
    return "route/" + _key_class(rec["key"])


def _route_tlc(ctx, pool):
    """The TLC runs of step 4 (started early, they run beside the other TLC runs of the check)."""
    return {
        "mc": pool.submit(ctx.mc, "redis", "SlotRoute", "MC_SlotRoute.cfg", workers=4, timeout=300),
        "wipe": pool.submit(ctx.mc, "redis", "SlotRoute", "MC_SlotRoute_wipe.cfg", workers=2, timeout=300, count=False,
                            expect_violated=["RoutedByOwner"]),
        "emptykey": pool.submit(ctx.mc, "redis", "SlotRoute", "MC_SlotRoute_emptykey.cfg", workers=2, timeout=300,
                                count=False, expect_violated=["RoutedByOwner"]),
        "gen": pool.submit(ctx.mc, "redis", "SlotRouteGen", "Gen_SlotRoute.cfg", workers=1, timeout=300, count=False),
    }


def _route(ctx, brace_file, futs, pool):
    """Step 4: the routing decision under refreshes of an unchanged layout. Returns the future of the trace validation."""
    futs["mc"].result()
    futs["wipe"].result()
    futs["emptykey"].result()
    ctx.cov["route_anti_vacuity"] = {"WipeFirst=TRUE": "violates RoutedByOwner", "EmptyKeyAny=TRUE": "violates RoutedByOwner"}

    r = futs["gen"].result()
    layouts = [p for (t, p) in r.prints if t == "LAYOUT"]
    rkeys = [p for (t, p) in r.prints if t == "RKEYS"]
    states = {}
    for (t, p) in r.prints:
        if t != "STATE":
            continue
        p["assigned"] = sorted(p["assigned"])
        k = (p["lay"], p["phase"], tuple(p["assigned"]), p["filled"])
        if k in states and states[k] != p:
            raise kit.Inconclusive("emission: state %s has two different expectations" % (k,))
        states[k] = p
    if len(layouts) != 2 or len(rkeys) != 1 or not states:
        raise kit.Inconclusive("route emission incomplete: %d layouts, %d key lists, %d states"
                               % (len(layouts), len(rkeys), len(states)))
    keys = rkeys[0]
    if not any(len(k["k"]) == 0 for k in keys):
        raise kit.Inconclusive("the empty key is not among the routed keys")
    for lay in layouts:
        if not any(s["window"] for s in states.values() if s["lay"] == lay["name"]):
            raise kit.Inconclusive("model: the mid-update window of layout %s is not reachable" % lay["name"])
    rfile = os.path.join(ctx.work, "route.json")
    with open(rfile, "w") as f:
        json.dump({"layouts": layouts, "keys": keys, "states": list(states.values())}, f)

    cycles = 8 if ctx.thorough else 3
    free = 2000 if ctx.thorough else 200
    res = os.path.join(ctx.work, "route.ndjson")
    trace = os.path.join(ctx.work, "route-recorded.json")
    for pth in (res, trace):
        if os.path.exists(pth):
            os.remove(pth)
    rc, so, se = ctx.harness(["c12-route", "-in", rfile, "-brace", brace_file, "-cycles", str(cycles), "-free", str(free),
                              "-out", res, "-trace", trace], timeout=300, allow_fail=True)
    recs = kit.read_ndjson(res) if os.path.exists(res) else []
    mis = [x for x in recs if x.get("kind") == "routemis"]
    stalls = [x for x in recs if x.get("kind") == "stall"]
    sums = {(x["part"], x["lay"]): x for x in recs if x.get("kind") == "summary"}

    # keys that are misrouted while the table is complete and no refresh is running: an input class, not a window
    stable_bad = set((x["lay"], tuple(x["key"])) for x in mis
                     if x["filled"] and x["phase"] == "idle" and x["after"] == "done")
    divergence = []
    for x in mis:
        x["assigned"] = x.get("assigned") or []
        if not x["filled"] and x["got"] != "panic":
            divergence.append(x)       # before the first fill the property does not say where a key goes
            continue
        key = bytes(x["key"])
        ctx.violation(_route_sig(x, stable_bad),
                      "layout %s, %s%s (masters written so far: %s): %s of key %r (slot %d) was routed to %s, the owner of "
                      "the slot is %s%s" % (
                          x["lay"], x["phase"], " after " + x["after"] if x["phase"] in ("idle", "boot") else "",
                          ",".join(x["assigned"]) or "-", x["cmd"], key, x["slot"],
                          "a random seed host (%s)" % x["got_addr"] if x["got"] == "seed" else
                          "nowhere: chooseHost PANICKED (%s)" % x["got_addr"] if x["got"] == "panic" else
                          "%s (%s)" % (x["got"], x["got_addr"]),
                          x["want"] if x["filled"] else "not known yet (first fill; the model says: %s)" % x["want"], " [%d decisions]" % x["n"] if x.get("n") else ""),
                      {"part": x["part"], "layout": x["lay"], "phase": x["phase"], "after": x["after"],
                       "assigned": x["assigned"], "key_bytes": x["key"], "slot": x["slot"], "cmd": x["cmd"],
                       "real": x["got"], "real_addr": x["got_addr"], "spec": x["want"], "cycle": x["cycle"]})
    if not ctx.violations:
        if rc != 0:
            raise kit.Inconclusive("harness c12-route exited %d: %s" % (rc, (se or so)[-2000:]))
        if stalls:
            raise kit.Inconclusive("c12-route could not drive the refresh: %s" % stalls[0].get("error"))
        if divergence:
            x = divergence[0]
            raise kit.Inconclusive("before the first fill the real code differs from the model: %s key %r -> %s, model %s"
                                   % (x["phase"], bytes(x["key"]), x["got"], x["want"]))
    # mandatory strata: every phase of a refresh of a complete table was observed on the real code
    n_dec = 0
    strata_seen = {}
    for lay in layouts:
        name, n = lay["name"], len(lay["nodes"])
        sm = sums.get(("route", name))
        if sm is None:
            if ctx.violations:
                continue
            raise kit.Inconclusive("c12-route wrote no summary for layout %s" % name)
        st = sm.get("strata") or {}
        need = ["boot-after-start/first-fill", "boot-after-fail-error/first-fill", "inflight/first-fill", "inflight/filled",
                "idle-after-done/filled", "idle-after-fail-error/filled", "idle-after-fail-malformed/filled"]
        need += ["update-%d-of-%d/filled" % (k, n) for k in range(1, n + 1)]
        missing = [x for x in need if not st.get(x)]
        if missing and not ctx.violations:
            raise kit.Inconclusive("layout %s: mandatory strata not observed on the real code: %s" % (name, missing))
        strata_seen[name] = st
        n_dec += sm["n"]
        for stratum in st:
            for i, k in enumerate(keys):
                ctx.case(key="route/%s/%s/%d" % (name, stratum, i),
                         nontrivial=stratum.startswith("update") or stratum.startswith("inflight") or len(k["k"]) == 0)
        ctx.case(n=max(0, sm["n"] - len(st) * len(keys)), nontrivial=False)
        for part in ("route-brace", "route-free"):
            sp = sums.get((part, name))
            if sp:
                ctx.case(n=sp["n"], nontrivial=False)
                ctx.case(key="%s/%s" % (part, name))
                n_dec += sp["n"]
            elif not ctx.violations:
                raise kit.Inconclusive("c12-route wrote no %s summary for layout %s" % (part, name))
    ctx.cov["route"] = {"layouts": [l["name"] for l in layouts], "keys": len(keys), "model_states": len(states),
                        "successful_refreshes_per_layout": cycles, "free_running_refreshes_per_layout": free,
                        "decisions_on_real_code": n_dec, "strata": strata_seen,
                        "free_running": {l["name"]: (sums.get(("route-free", l["name"])) or {}).get("note", "") for l in layouts}}
    ctx.sample({"route": {"layout": layouts[0]["name"], "phase": "update", "key": "", "slot": 0,
                          "owner": next(s for s in states.values() if s["lay"] == layouts[0]["name"] and s["filled"])["own"][0]}})

    # code -> spec: the recorded events validated by TLC (beside the validation of step 3: own work directory)
    if not os.path.exists(trace):
        if ctx.violations:
            return None
        raise kit.Inconclusive("c12-route wrote no trace")
    with open(trace) as f:
        events = json.load(f)
    ctx2 = copy.copy(ctx)          # shares coverage, violations, known findings; separate trace.json / scratch
    ctx2.work = os.path.join(ctx.work, "route-trace")
    os.makedirs(ctx2.work, exist_ok=True)
    return pool.submit(_route_validate, ctx2, events, stable_bad)


def _route_validate(ctx, events, stable_bad):
    n_refresh = sum(1 for e in events if e["op"] == "send")
    rt = ctx.validate_traces("redis", "SlotRouteTrace", "Trace_SlotRoute.cfg", events, n_refresh, timeout=300)
    ctx.cov["states"] += rt.distinct
    ctx.cov["transitions"] += rt.generated
    if not rt.ok:
        if rt.reject is None:
            if ctx.violations:
                return
            raise kit.Inconclusive("SlotRouteTrace failed without a rejection: %s" % (rt.error or rt.violated))
        idx = rt.reject[0] - 1
        e = events[idx] if 0 <= idx < len(events) else None
        # where the refresh was when the event was recorded
        lay, phase, after, filled, assigned = None, "boot", "start", False, []
        for x in events[:max(idx, 0)]:
            if x["op"] == "init":
                lay, phase, after, filled, assigned = x["lay"], "boot", "start", False, []
            elif x["op"] == "send":
                phase, assigned = "inflight", []
            elif x["op"] == "assign":
                phase = "update"
                assigned.append(x["n"])
            elif x["op"] == "done":
                phase, after, filled = "idle", "done", True
            elif x["op"] == "fail":
                phase, after = ("idle" if filled else "boot"), "fail"
        if e is not None and e["op"] == "route" and filled:
            rec = {"lay": lay, "key": e["kb"], "phase": phase, "after": after, "got": e["node"]}
            ctx.violation(_route_sig(rec, stable_bad),
                          "TLC rejects the recorded routing decision: layout %s, %s (masters written so far: %s), key %r "
                          "was routed to %s" % (lay, phase, ",".join(assigned) or "-", bytes(e["kb"]), e["node"]),
                          {"index": idx, "event": e, "layout": lay, "phase": phase, "assigned": assigned})
        elif not ctx.violations:
            raise kit.Inconclusive("SlotRouteTrace rejects event %d (%s): the model does not describe the real refresh" % (idx, e))


def run(ctx):
    ctx.build()
    ctx.assumptions += [
        "the three line application of TLC's emitted step table in the harness (crc = R8[crc XOR b<<8]) is trusted",
        "keys longer than 3 bytes are covered by induction on the step function (checked for all states x bytes), "
        "sampled directly up to 64 KiB",
        "brace placement is exhaustive up to length 7 (quick) / 8 (thorough) over a 4 letter alphabet; the scan only "
        "distinguishes '{', '}' and other bytes",
        "end-to-end routing by the computed slot is checked in C03; here the routing function (chooseHost) and the table "
        "refresh (doSlotsRefresh) of a real upstream are driven directly",
        "the refresh is paused after the slots of each master have been written (hook upstream.doSlotsRefresh.assigned) and "
        "while the CLUSTER NODES reply is withheld; finer interleavings inside the update of one master are only covered by "
        "the free running stratum",
        "before the first successful refresh the property does not say where a key goes (random seed host): not judged",
    ]
    # the exhaustive / emitting TLC runs do not depend on one another: started together (the machine is shared and
    # a JVM start dominates each of them), collected in the order of the steps
    pool = ThreadPoolExecutor(max_workers=10)
    f_slot = pool.submit(ctx.mc, "redis", "Slot", "MC_Slot.cfg", workers=4, timeout=300)
    f_tab = pool.submit(ctx.mc, "redis", "SlotGen", "Gen_SlotTab.cfg", workers=2, timeout=300, count=False)
    cfg = "Gen_SlotKeys_thorough.cfg" if ctx.thorough else "Gen_SlotKeys_quick.cfg"
    f_keys = pool.submit(ctx.mc, "redis", "SlotGen", cfg, workers=4, timeout=600)
    f_route = _route_tlc(ctx, pool)
    f_full = pool.submit(ctx.mc, "redis", "Slot", "MC_SlotFull.cfg", workers=8, timeout=900) if ctx.thorough else None
    try:
        _run(ctx, pool, f_slot, f_tab, f_keys, f_route, f_full)
    finally:
        pool.shutdown(wait=True)


def _run(ctx, pool, f_slot, f_tab, f_keys, f_route, f_full):
    # 1. exhaustive CRC step equivalence
    f_slot.result()

    # 2a. tables out of TLC
    r = f_tab.result()
    tabs = [p for (t, p) in r.prints if t == "TAB"]
    chunks = {p["c"]: p["r"] for (t, p) in r.prints if t == "R8"}
    if len(tabs) != 1 or len(tabs[0]) != 256 or sorted(chunks) != list(range(256)) \
            or any(len(c) != 256 for c in chunks.values()):
        raise kit.Inconclusive("table emission incomplete: %d TAB, %d R8 chunks" % (len(tabs), len(chunks)))
    r8 = []
    for c in range(256):
        r8 += chunks[c]
    tfile = os.path.join(ctx.work, "tables.json")
    with open(tfile, "w") as f:
        json.dump({"tab": tabs[0], "r8": r8}, f)
    # the reference step is a bijection on 16 bit values for a fixed byte (sanity of the emitted table)
    if len(set(r8)) != 65536:
        raise kit.Inconclusive("emitted step table is not a permutation of 0..65535")

    res1 = os.path.join(ctx.work, "tables.ndjson")
    ctx.harness(["c12-tables", "-tab", tfile, "-out", res1], timeout=600)
    sums = _collect(ctx, res1, ["table", "len0", "len1", "len2", "len3"])
    if "distinct_states=65536" not in sums["len2"].get("note", "") and not ctx.violations:
        raise kit.Inconclusive("two byte keys did not reach every CRC state: %s" % sums["len2"].get("note"))
    for p in ("table", "len0", "len1", "len2", "len3"):
        ctx.case(n=sums[p]["n"], nontrivial=False)
    ctx.case(key="crc16tab == Tab (256 entries)")
    ctx.case(key="all keys of length 1 (= table entries)")
    ctx.case(key="all keys of length 2 (reach every CRC state)")
    ctx.case(key="all 2^24 keys of length 3 (every state x next byte of the real fold)")
    ctx.cov["traces_validated_against_impl"] += 256 + 1 + 256 + 65536 + (1 << 24)
    ctx.cov["exhaustive"] = True
    ctx.cov["crc_step"] = {"tlc_values_checked": 65536, "real_fold_pairs_executed": 1 << 24,
                           "full_product_in_tlc": bool(ctx.thorough)}

    # 2b. brace keys
    r = f_keys.result()
    keys = [p for (t, p) in r.prints if t == "KEY"]
    maxlen = 8 if ctx.thorough else 7
    want = sum(4 ** i for i in range(maxlen + 1))
    if len(keys) != want or r.distinct != want:
        raise kit.Inconclusive("brace key emission incomplete: %d of %d" % (len(keys), want))
    kfile = os.path.join(ctx.work, "keys.ndjson")
    kit.write_ndjson(kfile, keys)
    res2 = os.path.join(ctx.work, "keys.ndjson.out")
    ctx.harness(["c12-keys", "-in", kfile, "-out", res2], timeout=600)
    sums2 = _collect(ctx, res2, ["brace"])
    if sums2["brace"]["n"] != want:
        raise kit.Inconclusive("harness replayed %d of %d brace keys" % (sums2["brace"]["n"], want))
    for k in keys:
        ctx.case(key="k" + bytes(k["k"]).decode("latin1"), nontrivial=len(k["t"]) != len(k["k"]) or 123 in k["k"])
    ctx.cov["traces_validated_against_impl"] += want
    ctx.cov["brace_keys"] = {"max_len": maxlen, "keys": want, "note": sums2["brace"].get("note", "")}
    for k in keys:
        if len(k["t"]) != len(k["k"]) and len(k["k"]) >= 5:
            ctx.sample({"key": bytes(k["k"]).decode("latin1"), "tag": bytes(k["t"]).decode("latin1"), "slot": k["s"]})
            break

    # 4. the routing decision while the table is refreshed (unchanged layout)
    f_rtrace = _route(ctx, kfile, f_route, pool)

    # 2c / 3. random keys: long ones against the step table, short ones recorded for TLC
    n_long = 6000 if ctx.thorough else 1500
    n_short = 400 if ctx.thorough else 250
    res3 = os.path.join(ctx.work, "random.ndjson")
    trace = os.path.join(ctx.work, "recorded.json")
    ctx.harness(["c12-random", "-tab", tfile, "-n", str(n_long), "-short", str(n_short), "-out", res3, "-trace", trace],
                timeout=600)
    sums3 = _collect(ctx, res3, ["long", "short-recorded"])
    ctx.case(n=n_long, nontrivial=False)
    ctx.case(key="seeded random keys up to 64 KiB (seed %d)" % ctx.seed)
    with open(trace) as f:
        events = json.load(f)
    if len(events) != n_short:
        raise kit.Inconclusive("recorded %d short keys, wanted %d" % (len(events), n_short))
    rt = ctx.validate_traces("redis", "SlotTrace", "Trace_Slot.cfg", events, len(events), timeout=300)
    ctx.cov["states"] += rt.distinct
    ctx.cov["transitions"] += rt.generated
    if not rt.ok:
        if rt.reject is None:
            raise kit.Inconclusive("SlotTrace failed without a rejection: %s" % (rt.error or rt.violated))
        idx = rt.reject[0] - 1
        e = events[idx] if 0 <= idx < len(events) else None
        ctx.violation("slot/panic/" + _key_class(e["k"]) if e and (e["s"] == -3 or e["c"] == -3) else
                      "slot/empty-key" if e and len(e["k"]) == 0 and e["s"] != 0 else "slot/recorded-key",
                      "TLC rejects what the real code computed for key %r: tag %r crc %s slot %s" % (
                          bytes(e["k"]) if e else None, bytes(e["t"]) if e else None,
                          e and e["c"], e and e["s"]),
                      {"index": idx, "record": e})
    for e in events:
        ctx.case(key="r" + bytes(e["k"]).decode("latin1"), nontrivial=len(e["t"]) != len(e["k"]))
    ctx.sample({"recorded": events[1] if len(events) > 1 else None})
    ctx.cov["random_keys"] = {"long": n_long, "long_note": sums3["long"].get("note", ""), "short_validated_by_tlc": n_short}
    ctx.cov["rule"] = ("cases: the CRC step for all 65536 values of s XOR (b<<8) in TLC and all 2^24 three byte keys on the real "
                       "fold (counted as 4 distinct classes); every key of length <= %d over {'{','}','a','b'} (distinct by key; "
                       "non-trivial = contains '{'); seeded random keys (distinct by key; non-trivial = has a hash tag); routing: "
                       "layout x observed state of the refresh x key (non-trivial = refresh running, or the empty key)" % maxlen)
    # collect the runs started beside the steps above
    if f_rtrace is not None:
        f_rtrace.result()
    if f_full is not None:
        f_full.result()
