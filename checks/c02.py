"""C02 - every request is answered exactly once, even when backends fail.

spec/redis/Upstream.tla (one backend connection: senders, writer, reader, Start tail, Stop, backend, reset)
 1. exhaustive TLC run of the repaired design (safety + liveness under fairness);
 2. the three pinned-code variants (Fix* = FALSE) must each still yield their counterexample
    (the loss windows stay reachable in the model: anti-vacuity);
 3. spec -> code: TLC simulation emits behaviours (UpstreamGen.tla); each is forced on the real
    goroutines of a real Redis processor through the verifhook gates, the client's queue lengths,
    latches and completion counts are compared with the model after every step, and at the end every
    request must have got exactly one reply on its (open) downstream connection;
 4. code -> spec: free-running pipelines with faults (checks/pipeline driver), boundary trace validated
    by TLC against PipelineObs.tla.
"""
import json
import os

import kit
from checks import pipeline

LEVEL = "model_checking"


def gen_behaviours(ctx, cfg, num, depth, seed):
    r = ctx.tlc("redis", "UpstreamGen", cfg, mode="sim", workers=1, sim_num=num, sim_depth=depth,
                seed=seed, deadlock=False, timeout=300)
    if r.timeout or (r.error and "@@BEH" not in r.stdout):
        raise kit.Inconclusive("behaviour generation failed: " + r.error[:500])
    behs = [p for (tag, p) in r.prints if tag == "BEH"]
    return behs


def run(ctx):
    ctx.build()
    ctx.assumptions += [
        "channel capacities scaled from 1024 to QCap=1..2 in the exhaustive model",
        "one backend connection per model instance; redirection resends are covered by C04",
        "kernel TCP behaviour on loopback (RST after SO_LINGER 0) is trusted",
    ]
    # 1. exhaustive, repaired design
    cfg = "MC_Upstream_fixed.cfg" if ctx.thorough else "MC_Upstream_fixed_quick.cfg"
    r = ctx.mc("redis", "Upstream", cfg, workers=8, timeout=1500, coverage=not ctx.thorough)
    if r.coverage:
        ctx.check_vacuity(r, "Upstream", ignore=("WriterFiltered",))  # exercised by MC_Upstream_banned_*.cfg
    # 2. the loss windows of the pinned code are still reachable in the model
    for variant in ("handoff", "send", "reader"):
        ctx.mc("redis", "Upstream", "MC_Upstream_%s.cfg" % variant, workers=4, timeout=300,
               expect_violated=["NoLostRequest", "NoStuckSender", "TEMPORAL"], count=False)
    # 2b. a request answered by the filter chain itself (command disabled in compress mode) behind buffered requests
    ctx.mc("redis", "Upstream", "MC_Upstream_banned_fixed.cfg", workers=6, timeout=600)
    ctx.mc("redis", "Upstream", "MC_Upstream_banned_pinned.cfg", workers=4, timeout=300,
           expect_violated=["NoLostRequest", "TEMPORAL"], count=False)
    # 3. forced replay of TLC behaviours
    num = 400 if ctx.thorough else 45
    behs = gen_behaviours(ctx, "Gen_Upstream.cfg", num, 160, ctx.seed)
    if len(behs) < num // 2:
        raise kit.Inconclusive("only %d behaviours emitted" % len(behs))
    bfile = os.path.join(ctx.work, "behaviours.ndjson")
    kit.write_ndjson(bfile, behs)
    rfile = os.path.join(ctx.work, "replay.ndjson")
    rc, so, se = ctx.harness(["c02-replay", "-in", bfile, "-out", rfile, "-attempts", "3" if ctx.thorough else "2"],
                             timeout=3000, allow_fail=True)
    results = kit.read_ndjson(rfile) if os.path.exists(rfile) else []
    if rc != 0:
        crashed = len(results)
        if "close of closed channel" in se:
            beh = behs[crashed] if crashed < len(behs) else None
            ctx.violation("double-completion", "a request was completed twice: the processor panicked (close of closed channel)",
                          {"behaviour": beh, "stderr": se[-2000:]})
        else:
            raise kit.Inconclusive("c02-replay exited %d: %s" % (rc, se[-1500:]))
    exact = 0
    for res, beh in zip(results, behs):
        if res.get("err"):
            ctx.notes.append("replay %d: %s" % (res["id"], res["err"]))
            continue
        key = [(s["a"], s["r"]) for s in beh]
        ctx.case(key=key, nontrivial=any(s["a"] in ("BackendReset", "CallStop") for s in beh))
        if res["exact"]:
            exact += 1
            ctx.cov["traces_validated_against_impl"] += 1
        wins = "+".join(sorted(res.get("windows") or [])) or "no-window"
        if res.get("lost"):
            ctx.violation("lost-request/" + wins,
                          "request(s) %s never answered on an open connection (windows: %s)" % (res["lost"], wins),
                          {"behaviour": beh, "result": res})
        if res.get("double") or any(res.get("extra", {}).values()):
            ctx.violation("double-reply/" + wins, "request answered more than once: %s %s" % (res.get("double"), res.get("extra")),
                          {"behaviour": beh, "result": res})
        if res.get("stopperHung"):
            ctx.violation("client-stop-hangs/" + wins, "client.Stop (host removal) did not return", {"behaviour": beh, "result": res})
    good = [r for r in results if not r.get("err")]
    ctx.cov["replay"] = {"behaviours": len(behs), "replayed": len(good), "followed_exactly": exact,
                         "diverged_at_a_go_select": len(good) - exact}
    if behs:
        ctx.sample({"behaviour": [(s["a"], s["r"]) for s in behs[0]], "result": results[0] if results else None})
    if len(good) < len(behs) * 0.8 or exact < len(good) * 0.3:
        raise kit.Inconclusive("replay driver unhealthy: %d behaviours, %d replayed, %d exact" % (len(behs), len(good), exact))
    # 3b. full queues: 1024 requests written and unanswered, 1024 pending, senders blocked behind them; then a fault
    qfile = os.path.join(ctx.work, "fullqueue.ndjson")
    ctx.harness(["c02-fullqueue", "-out", qfile], timeout=600)
    for r in kit.read_ndjson(qfile):
        if r.get("err"):
            ctx.notes.append("fullqueue: " + r["err"])
            continue
        ctx.case(key=["fullqueue", r["fault"]], nontrivial=r["nodeSaw"] >= 1024, n=r["sent"])
        if r["nodeSaw"] < 1024:
            ctx.notes.append("fullqueue/%s: the backend saw only %d requests" % (r["fault"], r["nodeSaw"]))
        if r["unanswered"] > 0:
            ctx.violation("lost-request/full-queues/" + r["fault"],
                          "%d of %d requests on open connections never answered after '%s' with full backend queues (%s)" % (
                              r["unanswered"], r["sent"], r["fault"], r.get("firstLost")), r)
    # 3c. split requests whose children fail (several / all of them, for different reasons): one reply, no crash
    mfile = os.path.join(ctx.work, "multifail.ndjson")
    rc, so, se = ctx.harness(["c02-multifail", "-out", mfile], timeout=600, allow_fail=True)
    recs = kit.read_ndjson(mfile) if os.path.exists(mfile) else []
    if rc != 0:
        if "close of closed channel" in se:
            ctx.violation("double-completion/split-request-children-fail",
                          "a split request was completed twice when several of its children failed: the processor panicked "
                          "(close of closed channel) after %d scenarios" % len(recs), {"stderr": se[-2500:], "completed": recs[-2:]})
        else:
            raise kit.Inconclusive("c02-multifail exited %d: %s" % (rc, se[-1500:]))
    for r in recs:
        ctx.case(key=["multifail", r["case"], r["cmd"]], nontrivial=True)
        if not r["ok"]:
            ctx.violation("split-request/%s" % r["case"], "%s %s: %s (replies %s)" % (r["case"], r["cmd"], r["why"], r["replies"]), r)
    # 4. free-running pipelines with faults, boundary trace validated against PipelineObs
    pipeline.run_pipelines(ctx, faults=True, label="c02")
    ctx.cov["rule"] = ("behaviours = TLC simulation of UpstreamGen (seeded); distinct by action sequence; non-trivial = contains a "
                       "connection reset or a Stop; each is forced on the real goroutines and judged by 'every request gets exactly one reply'")
