"""C02 - every request is answered exactly once, even when backends fail.

spec/redis/Upstream.tla (one backend connection: senders, writer, reader, Start tail, Stop, backend, reset; requests
redirected by -ASK and the writer's ASKING hand-over; the write buffer), spec/redis/UpstreamGen.tla (behaviour emitter,
stratified over the fault point), spec/redis/UpstreamSplit.tla (a split request whose children are answered by different
goroutines), cfg files MC_Upstream_*.cfg, Gen_Upstream*.cfg (incl. Gen_Upstream_banned.cfg, Gen_Upstream_cex_*.cfg),
MC_UpstreamSplit_*.cfg, Gen_UpstreamSplit.cfg
 1. exhaustive TLC runs of the repaired design (safety + liveness under fairness), with and without a request that
    carries the asking mark;
 2. every broken variant must still yield its counterexample (anti-vacuity): the three pinned loss windows (Fix* = FALSE),
    the unflushed buffer behind a filtered request, the ASKING hand-over that answers the placeholder instead of the
    request in hand (AskAnswersInHand = FALSE), the child counter decremented and tested in two steps
    (AtomicDecTest = FALSE), the sender that drains once quit is closed instead of stopped (DrainAfterStopped = FALSE: a
    request gets the reply of another, OwnReply / PairingFIFO), the failed flush behind a filter-answered request that answers
    it again (FilteredFailAnswers = TRUE); in the quick tier the variants that have a counterexample stratum (3c) are shown
    to violate by that generation run, the thorough tier model checks them as well;
 3. spec -> code: TLC simulation emits behaviours (UpstreamGen.tla) stratified over the point at which the fault strikes;
    a mandatory stratum per named window is drawn from them every run; each behaviour is forced on the real goroutines of
    a real Redis processor through the verifhook gates (several worker processes), the client's queue lengths, latches and
    completion counts are compared with the model after every step, and at the end every request must have got exactly
    one reply on its (open) downstream connection - the value of its own key or an error (every key holds its own name) -
    and the stopping call must have returned; requests named b* are commands the compress filter answers itself (GETRANGE,
    compression enabled); a worker process that dies with 'close of closed channel' is a double completion;
 3c. counterexample strata: violating behaviours of the broken variants (Gen_Upstream_cex_*.cfg, EmitViolating) replayed as
    schedules on the real code, which leaves them where the variant deviates unless it has become that variant;
 3b-3e. scenarios at the real queue capacity (1024): full queues, a request held at the ASKING hand-over by a full
    processing queue, split requests whose children fail, split requests whose last children are answered at the same
    instant by different goroutines (vectors from UpstreamSplit.tla), more small requests outstanding on one backend
    connection than its processing queue holds with a responsive backend and no fault (c02-smallreqs; model: BufCap < QCap,
    NoStuckWriter, MC_Upstream_bufcap_*.cfg);
 4. code -> spec: free-running pipelines with faults (checks/pipeline driver), boundary trace validated
    by TLC against PipelineObs.tla.
"""
import json
import os
import random
import re
import threading
import time

import kit
from checks import pipeline

LEVEL = "model_checking"

# named windows of Upstream.tla, most specific first (the first one a violating behaviour passed through names the signature)
WINDOWS = ["W_FilteredFlushOnDeadConn", "W_AskHandoffQuit", "W_ReaderWaitsForHandoff", "W_ReaderHoldsReplyAtQuit", "W_EnqueueAfterDrain",
           "W_WriterHandoffQuit", "W_SenderEnqueuedAtQuit", "W_CheckedThenQuit", "W_AskHandoffBlocked", "W_SenderBlockedOnDeadQueue"]
# counterexample strata: behaviours of the broken variants of Upstream.tla (the anti-vacuity configurations) that violate a
# safety property there, replayed on the real code as schedules. The real code leaves such a schedule where the broken
# variant deviates (the replay diverges, everything is released, the property predicate judges the run) - unless the code
# has become that variant. cfg -> what the variant is
CEX = {"Gen_Upstream_cex_drainonquit.cfg": "a sender drains the queues once quit is closed (DrainAfterStopped = FALSE)",
       "Gen_Upstream_cex_filteredfail.cfg": "a failed flush behind a filter-answered request answers it again (FilteredFailAnswers = TRUE)",
       "Gen_Upstream_cex_reader.cfg": "the reader does not watch quit while it waits for the hand-over (FixReader = FALSE)",
       "Gen_Upstream_cex_handoff.cfg": "the writer drops the request in hand when quit wins the hand-over (FixHandoff = FALSE)",
       "Gen_Upstream_cex_askbroken.cfg": "the writer answers the placeholder at the ASKING hand-over (AskAnswersInHand = FALSE)"}
# windows that depend on the scaled queue capacity of the model: the real queues (1024) are neither full nor blocking in a
# replay of three requests; they are exercised at the real capacity by c02-fullqueue / c02-askfull
SCALED_ONLY = {"W_AskHandoffBlocked", "W_SenderBlockedOnDeadQueue"}
MANDATORY = [w for w in WINDOWS if w not in SCALED_ONLY]


# at most this many TLC processes of this check at a time (other checks run beside us); the generators go first
# VERIF_C02_PARALLEL (default 6): TLC processes at a time (each with at most 3 workers in the quick tier, 4 in the thorough
# tier) and worker processes of the forced replay (these mostly wait)
PAR = max(2, int(os.environ.get("VERIF_C02_PARALLEL", "6")))
TLC_SLOTS = threading.BoundedSemaphore(PAR)


def limited(fn, *a, **kw):
    with TLC_SLOTS:
        return fn(*a, **kw)


class Bg(threading.Thread):
    """run fn in the background; join() re-raises what it raised"""

    def __init__(self, fn, *a, **kw):
        super().__init__(daemon=True)
        self.fn, self.a, self.kw = fn, a, kw
        self.result, self.exc = None, None
        self.start()

    def run(self):
        try:
            self.result = self.fn(*self.a, **self.kw)
        except BaseException as e:  # noqa: re-raised by wait()
            self.exc = e

    def wait(self):
        self.join()
        if self.exc is not None:
            raise self.exc
        return self.result


def gen_behaviours(ctx, cfg, num, depth, seed):
    r = limited(ctx.tlc, "redis", "UpstreamGen", cfg, mode="sim", workers=1, sim_num=num, sim_depth=depth,
                seed=seed, deadlock=False, timeout=300)
    if r.timeout or (r.error and "@@BEH" not in r.stdout):
        raise kit.Inconclusive("behaviour generation failed: " + r.error[:500])
    return [p for (tag, p) in r.prints if tag == "BEH" and isinstance(p, dict)]


def beh_key(b):
    return json.dumps([(s["a"], s["r"]) for s in b["steps"]])


def beh_windows(b):
    w = set()
    for s in b["steps"]:
        w.update(s.get("win") or [])
    return w


def select_behaviours(ctx, behs, per_window, per_point, total):
    """mandatory strata: per_window behaviours through every named window, per_point behaviours per fault point, the rest
    at random; deterministic in (seed, tier)"""
    rnd = random.Random(ctx.seed)
    uniq, seen = [], set()
    for b in behs:
        k = beh_key(b)
        if k not in seen:
            seen.add(k)
            uniq.append(b)
    order = list(range(len(uniq)))
    rnd.shuffle(order)
    wins = [beh_windows(b) for b in uniq]
    chosen, chosen_set, label = [], set(), {}
    missing = []

    def take(i, why):
        if i not in chosen_set:
            chosen_set.add(i)
            chosen.append(i)
            label[i] = why

    for w in WINDOWS:
        have = [i for i in order if w in wins[i]]
        if not have and w in MANDATORY:
            missing.append(w)
        got = sum(1 for i in chosen if w in wins[i])
        for i in have:
            if got >= per_window:
                break
            if i not in chosen_set:
                take(i, w)
                got += 1
    if missing:
        raise kit.Inconclusive("no generated behaviour passes through the windows %s" % missing)
    points = sorted({b["at"] for b in uniq})
    for p in points:
        got = sum(1 for i in chosen if uniq[i]["at"] == p)
        for i in order:
            if got >= per_point:
                break
            if uniq[i]["at"] == p and i not in chosen_set:
                take(i, "at:" + p)
                got += 1
    for i in order:
        if len(chosen) >= total:
            break
        take(i, "fill")
    out = []
    for i in chosen:
        b = dict(uniq[i])
        b["stratum"] = label[i]
        b["windows"] = sorted(wins[i])
        out.append(b)
    return out, len(uniq)


def primary_window(windows, prefer=None):
    if prefer and prefer in windows:
        return prefer
    for w in WINDOWS:
        if w in windows:
            # one class, one name: the reader holds a decoded reply that it cannot pair while the connection quits
            return "W_ReaderWaitsForHandoff" if w == "W_ReaderHoldsReplyAtQuit" else w
    return "no-window"


def own_children(match):
    """pids of direct children of this process whose command line contains `match` (never pkill: other checks run beside us)"""
    me, out = os.getpid(), []
    for d in os.listdir("/proc"):
        if not d.isdigit():
            continue
        try:
            with open("/proc/%s/stat" % d) as f:
                ppid = int(f.read().rsplit(")", 1)[1].split()[1])
            if ppid != me:
                continue
            with open("/proc/%s/cmdline" % d, "rb") as f:
                cmd = f.read().replace(b"\0", b" ").decode("utf-8", "replace")
            if match in cmd:
                out.append(int(d))
        except (OSError, ValueError, IndexError):
            continue
    return out


def kill_own(match):
    import signal
    for pid in own_children(match):
        try:
            os.kill(pid, signal.SIGKILL)
        except OSError:
            pass


def finish_pipeline(ctx, job, label):
    """the free-running driver is shared with C01/C20 and has no deadline of its own: a regression that wedges a backend
    connection can leave it waiting for ever. Violations observed by the other stages stand; the driver is given a grace
    period and is then killed (our own child only)."""
    grace = 8 if ctx.violations else (3000 if ctx.thorough else 300)
    job.join(grace)
    if job.is_alive():
        kill_own("pipe-%s.ndjson" % label)
        job.join(30)
        if ctx.violations:
            ctx.notes.append("the free-running pipeline driver did not finish within %d s after the other stages and was stopped" % grace)
            return
        raise kit.Inconclusive("the free-running pipeline driver did not finish within %d s and was stopped" % grace)
    try:
        job.wait()
    except kit.Inconclusive:
        if not ctx.violations:
            raise
        ctx.notes.append("pipeline stage inconclusive after violations")


def replay_sharded(ctx, behs, shards, attempts, tag="", fewer_from=0):
    """forced replay in `shards` worker processes (the hook scheduler is process wide); returns results by behaviour index"""
    bfile = os.path.join(ctx.work, "behaviours%s.ndjson" % tag)
    kit.write_ndjson(bfile, [b["steps"] for b in behs])
    jobs = []
    for k in range(shards):
        rfile = os.path.join(ctx.work, "replay%s-%d.ndjson" % (tag, k))
        jobs.append((rfile, Bg(ctx.harness, ["c02-replay", "-in", bfile, "-out", rfile, "-attempts", str(attempts),
                                             "-shard", str(k), "-of", str(shards), "-stopafter", "1", "-fewerfrom", str(fewer_from)],
                               timeout=1500, allow_fail=True)))
    t0 = time.time()
    results, crashes = {}, []
    for rfile, job in jobs:
        rc, so, se = job.wait()
        recs = kit.read_ndjson(rfile) if os.path.exists(rfile) else []
        started = None
        for r in recs:
            if r.get("started"):
                started = r["id"]
                continue
            results[r["id"]] = r
            started = None
        if rc != 0:
            crashes.append((rc, se, started))
    kit.log("[go] c02-replay%s: %d behaviours in %d worker processes, %.1fs" % (tag, len(behs), shards, time.time() - t0))
    return results, crashes


def run(ctx):
    ctx.build()
    ctx.assumptions += [
        "channel capacities scaled from 1024 to QCap=1..2 in the exhaustive model (the scenarios c02-fullqueue and c02-askfull run at the real capacity)",
        "one backend connection per model instance; a request redirected by -ASK enters it with the asking mark; other resends are covered by C04",
        "kernel TCP behaviour on loopback (RST after SO_LINGER 0) is trusted",
        "the write buffer (4096 bytes) holds fewer requests than the processing queue has entries (BufCap < QCap in the exhaustive runs with an asking request)",
    ]
    # 3. behaviours for the forced replay: generated first, the replay is the longest chain of this check
    num = 6000 if ctx.thorough else 1200
    gen_jobs = [Bg(gen_behaviours, ctx, "Gen_Upstream.cfg", num, 160, ctx.seed),
                Bg(gen_behaviours, ctx, "Gen_Upstream_ask.cfg", num, 160, ctx.seed + 1),
                Bg(gen_behaviours, ctx, "Gen_Upstream_banned.cfg", num // 2, 160, ctx.seed + 2)]
    cex_jobs = {cfg: Bg(gen_behaviours, ctx, cfg, 2000 if ctx.thorough else 300, 160, ctx.seed + 3) for cfg in sorted(CEX)}
    # 3b-3e. scenarios at the real queue capacity, beside the model checking
    scen_jobs = start_scenarios(ctx)
    # 4. (runs beside everything else) free-running pipelines with faults, trace validated against PipelineObs
    pipe_job = Bg(pipeline.run_pipelines, ctx, faults=True, label="c02")
    try:
        run_stages(ctx, gen_jobs, cex_jobs, scen_jobs, pipe_job, num)
    finally:
        if pipe_job.is_alive():   # never leave the shared driver behind (it has no deadline of its own)
            kill_own("pipe-c02.ndjson")


def select_cex(ctx, cex_jobs, per_variant):
    rnd = random.Random(ctx.seed)
    out = []
    for cfg in sorted(cex_jobs):
        behs = cex_jobs[cfg].wait()
        if not behs:
            raise kit.Inconclusive("the broken variant %s emitted no violating behaviour" % cfg)
        uniq, seen = [], set()
        for b in behs:
            k = beh_key(b)
            if k not in seen:
                seen.add(k)
                uniq.append(b)
        uniq.sort(key=lambda b: (len(b["steps"]), beh_key(b)))   # short counterexamples first, a seeded sample of them
        pool = uniq[:max(per_variant * 4, 8)]
        rnd.shuffle(pool)
        for b in pool[:per_variant]:
            b = dict(b)
            b["stratum"] = "cex:" + cfg[len("Gen_Upstream_cex_"):-len(".cfg")]
            b["windows"] = sorted(beh_windows(b))
            out.append(b)
    return out


def run_stages(ctx, gen_jobs, cex_jobs, scen_jobs, pipe_job, num):
    # 1. exhaustive, repaired design; 2. the broken variants still yield their counterexamples
    lost = ["NoLostRequest", "NoStuckSender", "TEMPORAL"]
    mcs = [("Upstream", "MC_Upstream_fixed.cfg" if ctx.thorough else "MC_Upstream_fixed_quick.cfg", None, 4 if ctx.thorough else 3, not ctx.thorough)]
    # quick tier: a broken variant whose counterexample stratum is generated below (CEX: TLC must find violating behaviours of
    # it, see select_cex) is not model checked a second time; the thorough tier runs its exhaustive configuration as well
    redundant = not ctx.thorough
    for variant in ("handoff", "send", "reader"):
        if variant == "send" or not redundant:
            mcs.append(("Upstream", "MC_Upstream_%s.cfg" % variant, lost, 2, False))
    # a request answered by the filter chain itself (command disabled in compress mode) behind buffered requests
    mcs.append(("Upstream", "MC_Upstream_banned_fixed.cfg", None, 3, False))
    mcs.append(("Upstream", "MC_Upstream_banned_pinned.cfg", lost, 2, False))
    # a request with the asking mark: the ASKING hand-over
    if ctx.thorough:
        mcs.append(("Upstream", "MC_Upstream_ask_fixed.cfg", None, 3, False))
        mcs.append(("Upstream", "MC_Upstream_ask3_stop.cfg", None, 4, False))   # three requests: the full processing queue at the ASKING hand-over
    else:
        mcs.append(("Upstream", "MC_Upstream_ask_stop.cfg", None, 3, False))   # (the reset half, MC_Upstream_ask_reset.cfg, is part of the thorough MC_Upstream_ask_fixed.cfg)
    if not redundant:
        mcs.append(("Upstream", "MC_Upstream_ask_broken.cfg", lost, 2, False))
        # a sender that drains on quit instead of stopped: a request gets the reply of another
        mcs.append(("Upstream", "MC_Upstream_drainonquit.cfg", ["PairingFIFO", "OwnReply"], 2, False))
        mcs.append(("Upstream", "MC_Upstream_drainonquit3.cfg", ["PairingFIFO", "OwnReply"], 3, False))
        # a failed flush behind a filter-answered request that answers the request again
        mcs.append(("Upstream", "MC_Upstream_filteredfail.cfg", ["AtMostOnce"], 2, False))
    # the write buffer against the processing queue: no fault, the writer must not block for ever with nothing on the wire
    if ctx.thorough:
        mcs.append(("Upstream", "MC_Upstream_bufcap_fixed.cfg", None, 3, False))
        mcs.append(("Upstream", "MC_Upstream_bufcap_broken.cfg", ["NoLostRequest", "NoStuckWriter", "TEMPORAL"], 3, False))
    mcs.append(("Upstream", "MC_Upstream_bufcap_fixed_quick.cfg", None, 2, False))
    mcs.append(("Upstream", "MC_Upstream_bufcap_broken_quick.cfg", ["NoLostRequest", "NoStuckWriter", "TEMPORAL"], 2, False))
    # a split request: the last children answered by different goroutines
    if ctx.thorough:   # quick: Gen_UpstreamSplit.cfg is the same exhaustive run with the same invariants (3e)
        mcs.append(("UpstreamSplit", "MC_UpstreamSplit_fixed.cfg", None, 2, False))
    mcs.append(("UpstreamSplit", "MC_UpstreamSplit_broken.cfg", ["ParentAtMostOnce"], 2, False))
    # the clean runs are the long ones: they go first, the counterexample runs (which stop at the first violation) and the
    # generators of the counterexample strata fill the remaining slots
    mcs.sort(key=lambda x: (x[2] is not None))
    mc_jobs = [(m, cfg, exp, Bg(limited, ctx.mc, "redis", m, cfg, workers=wk, timeout=1500, coverage=cov, expect_violated=exp, count=False))
               for (m, cfg, exp, wk, cov) in mcs]
    behs = []
    for j in gen_jobs:
        behs += j.wait()
    if len(behs) < num // 2:
        raise kit.Inconclusive("only %d behaviours emitted" % len(behs))
    chosen, n_uniq = select_behaviours(ctx, behs, per_window=40 if ctx.thorough else 6, per_point=12 if ctx.thorough else 2,
                                       total=500 if ctx.thorough else 64)
    # PAR worker processes at a time: the strata first, then the counterexample schedules (2 attempts each: the real code
    # leaves them by design)
    def both():
        first = replay_sharded(ctx, chosen, PAR, 3)
        cex = select_cex(ctx, cex_jobs, 30 if ctx.thorough else 5)
        return first, cex, replay_sharded(ctx, cex, PAR, 2, "-cex")
    replay_job = Bg(both)

    for m, cfg, exp, job in mc_jobs:
        r = job.wait()
        if exp is None:
            ctx.cov["states"] += r.distinct
            ctx.cov["transitions"] += r.generated
        if r.coverage:
            ctx.check_vacuity(r, m, ignore=("WriterFiltered", "WriterFilteredFlush", "WriterAsk"))  # exercised by MC_Upstream_banned_*.cfg / MC_Upstream_ask_*.cfg
    first, cex, second = replay_job.wait()
    judge_replays(ctx, chosen, n_uniq, *first)
    judge_replays(ctx, cex, None, *second)
    judge_scenarios(ctx, scen_jobs)
    finish_pipeline(ctx, pipe_job, "c02")
    ctx.cov["rule"] = ("behaviours = TLC simulation of UpstreamGen (seeded), stratified over the fault point; a mandatory stratum per named "
                       "window is drawn every run; distinct by action sequence; non-trivial = contains a connection reset or a Stop; each is "
                       "forced on the real goroutines and judged by 'every request gets exactly one reply'")


def judge_replays(ctx, behs, n_uniq, results, crashes):
    cex = n_uniq is None   # counterexample strata: divergence is the expected outcome on a tree that is not the broken variant
    for rc, se, started in crashes:
        beh = behs[started - 1] if started and started <= len(behs) else None
        if "close of closed channel" in se:
            # the worker process died in the behaviour it had announced: a second completion closes a closed channel
            # named after the goroutine that completed the request the second time (first frame of the panic below SetResponse):
            # the replay may have left the model's path at a Go select before the crash, the stack is what happened
            frames = [(t, f) for (t, f) in re.findall(r"proc/redis\.\(\*(\w+)\)\.(\w+)", se[se.find("panic:"):]) if f != "SetResponse"]
            who = "%s.%s" % frames[0] if frames else "unattributed"
            wins = primary_window(beh["windows"], prefer="W_FilteredFlushOnDeadConn") if beh else "no-window"
            ctx.violation("double-completion/" + who,
                          "a request was completed twice by %s: the processor panicked (close of closed channel) in a behaviour of stratum %s "
                          "(windows of the behaviour: %s)" % (who, beh["stratum"] if beh else "?", "+".join(beh["windows"]) if beh else wins),
                          {"behaviour": beh, "stderr": se[-2000:]})
        else:
            raise kit.Inconclusive("c02-replay exited %d: %s" % (rc, se[-1500:]))
    exact = good = skipped = 0
    strata = {}
    for idx, beh in enumerate(behs, start=1):
        res = results.get(idx)
        if res is None:
            continue
        if res.get("skipped"):
            skipped += 1
            continue
        if res.get("err"):
            ctx.notes.append("replay %d: %s" % (idx, res["err"]))
            continue
        good += 1
        for n in res.get("notes") or []:
            ctx.notes.append("replay %d: %s" % (idx, n))
        key = [(s["a"], s["r"]) for s in beh["steps"]]
        ctx.case(key=key, nontrivial=any(s["a"] in ("BackendReset", "CallStop") for s in beh["steps"]))
        if res["exact"]:
            exact += 1
            ctx.cov["traces_validated_against_impl"] += 1
            for w in beh["windows"]:
                strata[w] = strata.get(w, 0) + 1
        seen = res.get("windows") or []
        win = primary_window(seen)
        art = {"behaviour": beh, "result": res}
        if res.get("lost"):
            ctx.violation("lost-request/" + win,
                          "request(s) %s never answered on an open connection (windows passed: %s; fault point %s)" % (
                              res["lost"], "+".join(seen) or "none", beh["at"]), art)
        if res.get("misdirected"):
            mwin = primary_window(seen, prefer="W_SenderEnqueuedAtQuit")
            ctx.violation("misdirected-reply/" + mwin,
                          "request(s) %s got a reply that is neither an error nor the value of their own key: %s (windows passed: %s; "
                          "fault point %s)" % (res["misdirected"], {r: res["replies"].get(r) for r in res["misdirected"]},
                                               "+".join(seen) or "none", beh["at"]), art)
        if res.get("double") or any(res.get("extra", {}).values()):
            ctx.violation("double-reply/" + win, "request answered more than once: %s %s" % (res.get("double"), res.get("extra")), art)
        if res.get("stopperHung"):
            ctx.violation("client-stop-hangs/" + win,
                          "client.Stop (host removal) did not return: the backend connection never finished its drain "
                          "(windows passed: %s; fault point %s)" % ("+".join(seen) or "none", beh["at"]), art)
    if cex:
        per = {}
        for idx, beh in enumerate(behs, start=1):
            r = results.get(idx) or {}
            d = per.setdefault(beh["stratum"], {"behaviours": 0, "followed_to_the_violation": 0})
            d["behaviours"] += 1
            d["followed_to_the_violation"] += 1 if r.get("exact") else 0
        ctx.cov["replay_counterexamples"] = {"variants": CEX, "per_variant": per, "replayed": good, "not_run_after_a_violation": skipped}
        if not ctx.violations and good < len(behs) * 0.8:
            raise kit.Inconclusive("counterexample replay unhealthy: %d behaviours, %d replayed" % (len(behs), good))
        return
    ctx.cov["replay"] = {"behaviours_generated_distinct": n_uniq, "behaviours": len(behs), "replayed": good, "followed_exactly": exact,
                         "diverged_at_a_go_select": good - exact, "not_run_after_a_violation": skipped,
                         "followed_exactly_per_window": strata,
                         "mandatory_strata": {w: sum(1 for b in behs if w in b["windows"]) for w in WINDOWS}}
    if behs and results:
        ctx.sample({"behaviour": [(s["a"], s["r"]) for s in behs[0]["steps"]], "stratum": behs[0]["stratum"], "result": results.get(1)})
    if ctx.violations:
        return
    if good < len(behs) * 0.8 or exact < good * 0.3:
        raise kit.Inconclusive("replay driver unhealthy: %d behaviours, %d replayed, %d exact" % (len(behs), good, exact))
    thin = [w for w in MANDATORY if strata.get(w, 0) < 1]
    if thin:
        ctx.notes.append("no behaviour of the strata %s was followed exactly (Go select picked the other branch every time)" % thin)


# --------------------------------------------------------------------------- scenarios at the real capacity

def split_vectors(ctx):
    """vectors of UpstreamSplit.tla: every reachable way in which the last children of a split request are answered at the
    same instant (exhaustive run, one line per state of the window)"""
    r = limited(ctx.tlc, "redis", "UpstreamSplit", "Gen_UpstreamSplit.cfg", workers=2, timeout=300)
    if r.timeout or r.error or r.violated:
        raise kit.Inconclusive("UpstreamSplit vector generation failed: %s %s" % (r.error[:500], r.violated))
    vecs, seen = [], set()
    for tag, p in r.prints:
        if tag == "SPLIT" and isinstance(p, dict):
            k = json.dumps(p, sort_keys=True)
            if k not in seen:
                seen.add(k)
                vecs.append(p)
    vecs.sort(key=lambda v: json.dumps(v, sort_keys=True))
    if len(vecs) < 4:
        raise kit.Inconclusive("UpstreamSplit emitted only %d vectors" % len(vecs))
    return vecs


def concurrent_children(ctx):
    """3e. the last children of a split request answered at the same instant by different goroutines"""
    vecs = split_vectors(ctx)
    replies = [v for v in vecs if "drain" not in v["modes"]]
    drains = [v for v in vecs if "drain" in v["modes"]]
    if not ctx.thorough:
        rnd = random.Random(ctx.seed)
        rnd.shuffle(drains)
        drains = drains[:8]
    chosen = replies + drains
    vfile = os.path.join(ctx.work, "split-vectors.ndjson")
    kit.write_ndjson(vfile, chosen)
    cfile = os.path.join(ctx.work, "concurrent.ndjson")
    rc, so, se = ctx.harness(["c02-concurrent", "-in", vfile, "-out", cfile, "-rounds", "2000" if ctx.thorough else "200",
                              "-drainrounds", "100" if ctx.thorough else "20"], timeout=1200, allow_fail=True)
    return len(vecs), chosen, cfile, rc, se


def start_scenarios(ctx):
    jobs = {}
    qfile = os.path.join(ctx.work, "fullqueue.ndjson")
    jobs["fullqueue"] = (qfile, Bg(ctx.harness, ["c02-fullqueue", "-out", qfile], timeout=600))
    mfile = os.path.join(ctx.work, "multifail.ndjson")
    jobs["multifail"] = (mfile, Bg(ctx.harness, ["c02-multifail", "-out", mfile], timeout=600, allow_fail=True))
    afile = os.path.join(ctx.work, "askfull.ndjson")
    jobs["askfull"] = (afile, Bg(ctx.harness, ["c02-askfull", "-out", afile], timeout=600))
    jobs["concurrent"] = (None, Bg(concurrent_children, ctx))
    sfile = os.path.join(ctx.work, "smallreqs.ndjson")
    jobs["smallreqs"] = (sfile, Bg(ctx.harness, ["c02-smallreqs", "-out", sfile], timeout=600))
    return jobs


def judge_scenarios(ctx, jobs):
    # 3b. full queues: 1024 requests written and unanswered, 1024 pending, senders blocked behind them; then a fault
    qfile, job = jobs["fullqueue"]
    job.wait()
    for r in kit.read_ndjson(qfile):
        if r.get("err"):
            ctx.notes.append("fullqueue: " + r["err"])
            continue
        ctx.case(key=["fullqueue", r["fault"]], nontrivial=r["nodeSaw"] >= 1024, n=r["sent"])
        if r["nodeSaw"] < 1024:
            ctx.notes.append("fullqueue/%s: the backend saw only %d requests" % (r["fault"], r["nodeSaw"]))
        if r["unanswered"] > 0:
            ctx.violation("lost-request/full-queues/" + r["fault"],
                          "%d of %d requests on open connections never answered after '%s' with full backend queues (%s)" % (
                              r["unanswered"], r["sent"], r["fault"], r.get("firstLost")), r)
    # 3c. split requests whose children fail (several / all of them, for different reasons): one reply, no crash
    mfile, job = jobs["multifail"]
    rc, so, se = job.wait()
    recs = kit.read_ndjson(mfile) if os.path.exists(mfile) else []
    if rc != 0:
        if "close of closed channel" in se:
            ctx.violation("double-completion/split-request-children-fail",
                          "a split request was completed twice when several of its children failed: the processor panicked "
                          "(close of closed channel) after %d scenarios" % len(recs), {"stderr": se[-2500:], "completed": recs[-2:]})
        else:
            raise kit.Inconclusive("c02-multifail exited %d: %s" % (rc, se[-1500:]))
    for r in recs:
        ctx.case(key=["multifail", r["case"], r["cmd"]], nontrivial=True)
        if not r["ok"]:
            ctx.violation("split-request/%s" % r["case"], "%s %s: %s (replies %s)" % (r["case"], r["cmd"], r["why"], r["replies"]), r)
    # 3d. a redirected request held at the ASKING hand-over by a full processing queue (1024 unanswered requests), then a fault
    afile, job = jobs["askfull"]
    job.wait()
    for r in kit.read_ndjson(afile):
        if r.get("err"):
            ctx.notes.append("askfull/%s: %s" % (r["fault"], r["err"]))
            continue
        ctx.case(key=["askfull", r["fault"]], nontrivial=r["held"], n=r["sent"] + 1)
        if not r["held"]:
            ctx.notes.append("askfull/%s: the writer was not held at the ASKING hand-over (took the request: %s)" % (r["fault"], r["writerTook"]))
        if not r["askAnswered"]:
            ctx.violation("lost-request/ask-handover-full-queue/" + r["fault"],
                          "a request redirected by -ASK, held by the backend writer at the ASKING hand-over (processing queue full: %d "
                          "unanswered requests), was never answered on its open connection after '%s'" % (r["nodeSaw"], r["fault"]), r)
        if r["unanswered"] > 0:
            ctx.violation("lost-request/full-queues/" + r["fault"],
                          "%d of %d requests on open connections never answered after '%s' with a full processing queue (%s)" % (
                              r["unanswered"], r["sent"], r["fault"], r.get("firstLost")), r)
    # 3e. the last children of a split request answered at the same instant by different goroutines
    _, job = jobs["concurrent"]
    n_vecs, chosen, cfile, rc, se = job.wait()
    recs = kit.read_ndjson(cfile) if os.path.exists(cfile) else []
    if rc != 0:
        if "close of closed channel" in se:
            ctx.violation("double-completion/concurrent-children",
                          "a split request was completed twice when its last children were answered at the same instant: the processor "
                          "panicked (close of closed channel) after %d vectors" % len(recs), {"stderr": se[-2500:], "completed": recs[-2:]})
        else:
            raise kit.Inconclusive("c02-concurrent exited %d: %s" % (rc, se[-1500:]))
    rounds = aligned = 0
    for r in recs:
        v = r["vector"]
        rounds += r["requests"]
        aligned += r["aligned"]
        if r.get("err"):
            ctx.notes.append("concurrent %s: %s" % (json.dumps(v), r["err"]))
        ctx.case(key=["concurrent", v], nontrivial=r["aligned"] > 0, n=r["requests"])
        how = "children on connections %s answered by %s, children %s at the same instant" % (v["place"], v["modes"], v["group"])
        if r["double"]:
            ctx.violation("double-completion/concurrent-children",
                          "'%s' was completed a second time (%s; request %d of this vector; the second caller was stopped in front "
                          "of the close that panics)" % (r.get("doubleCmd"), how, r["requests"]), r)
        if r["lost"]:
            ctx.violation("lost-request/concurrent-children", "%s (%s)" % (r.get("firstBad"), how), r)
        if r["extra"]:
            ctx.violation("double-reply/concurrent-children", "%s (%s)" % (r.get("firstBad"), how), r)
    ctx.cov["concurrent_children"] = {"vectors_of_UpstreamSplit": n_vecs, "vectors_run": len(recs), "split_requests": rounds,
                                      "lined_up_inside_SetResponse": aligned}
    if recs and not ctx.violations and aligned < rounds * 0.5:
        ctx.notes.append("concurrent children: only %d of %d requests lined up" % (aligned, rounds))
    # 3f. more small requests outstanding on one backend connection than its processing queue has entries; responsive backend, no fault
    sfile, job = jobs["smallreqs"]
    job.wait()
    for r in kit.read_ndjson(sfile):
        if r.get("err"):
            ctx.notes.append("smallreqs/%s: %s" % (r["case"], r["err"]))
            continue
        ctx.case(key=["smallreqs", r["case"]], nontrivial=r["children"] > 1024, n=r["children"])
        if r["unanswered"] > 0:
            ctx.violation("lost-request/small-requests-exceed-queue",
                          "%d of %d request(s) never answered although the backend is responsive and nothing failed: %s - %d small backend "
                          "requests for one connection, more than its processing queue holds (1024); the writer must never block at a "
                          "hand-over with nothing on the wire (Upstream.tla NoStuckWriter, BufCap < QCap)" % (
                              r["unanswered"], r["requests"], r.get("firstBad"), r["children"]), r)
        if r["wrong"] > 0:
            ctx.violation("reply-mismatch/small-requests-exceed-queue", "%s" % r.get("firstBad"), r)
