"""C20 - connection and request statistics are conserved.

Specifications: spec/proc/Listener.tla (connection counters and the active gauge move with the registry under its
lock; ConnStatsConserved, GaugeNonNegative; the pinned variant without the Stop accounting must fail) and
spec/redis/ReqStats.tla (downstream total at dispatch, completion hook; one upstream total and one more hook per
send incl. resends; per-command counters; Conserved at quiescence, NeverAhead always), both checked exhaustively.
Code: the counters are read through the public stats package after histories that end in quiescence:
 - listener connection histories from the Listener model (accepts, closes, limit rejections, drain, stop with open
   connections) on a real listener (harness c09, sub-command c09-lstats);
 - Redis pipelines with and without backend faults, redirections, connection-limit rejections, unsupported and
   invalid requests, ending normally or with the service stopped while connections are open;
 - TCP relays with dial failures, host removal with open relays, limit rejections and stop with open connections.
Equations: active gauge = 0, total connections = destroyed connections (downstream and upstream); total requests =
success + failure (downstream and upstream); per command total = success + error; no gauge below zero.
"""
import os

import kit
from checks import c09, pipeline

LEVEL = "model_checking"


def equations(stats, label, stopped):
    """returns a list of (signature, text) for violated conservation equations"""
    bad = []
    g = lambda k: stats.get(k, 0)
    for side in ("downstream", "upstream"):
        if g(side + ".cx_active") != 0:
            bad.append(("stats/%s-cx-active-nonzero/%s" % (side, label), "%s.cx_active = %d at quiescence" % (side, g(side + ".cx_active"))))
        if g(side + ".cx_total") != g(side + ".cx_destroy_total"):
            bad.append(("stats/%s-cx-total-vs-destroyed/%s" % (side, label),
                        "%s: cx_total %d != cx_destroy_total %d" % (side, g(side + ".cx_total"), g(side + ".cx_destroy_total"))))
        if g(side + ".rq_total") != g(side + ".rq_success_total") + g(side + ".rq_failure_total"):
            bad.append(("stats/%s-rq-total-vs-outcomes/%s" % (side, label), "%s: rq_total %d != success %d + failure %d" % (
                side, g(side + ".rq_total"), g(side + ".rq_success_total"), g(side + ".rq_failure_total"))))
    cmds = set(k.split(".")[1] for k in stats if k.startswith("redis.") and k.count(".") == 2)
    for c in sorted(cmds):
        t, s, e = g("redis.%s.total" % c), g("redis.%s.success" % c), g("redis.%s.error" % c)
        if t != s + e:
            bad.append(("stats/command-total-vs-outcomes/%s" % label, "redis.%s: total %d != success %d + error %d" % (c, t, s, e)))
    for k, v in stats.items():
        if v < 0:
            bad.append(("stats/gauge-negative/%s" % label, "%s = %d" % (k, v)))
    return bad


def run(ctx):
    ctx.build()
    ctx.build("c09")
    ctx.assumptions += ["counters are read after the history has reached quiescence (no connection or request in flight); histograms are not part of the statement"]
    r = ctx.mc("proc", "Listener", "MC_Listener_fixed.cfg", workers=8, timeout=900)
    ctx.mc("proc", "Listener", "MC_Listener_nostats.cfg", workers=4, timeout=300, expect_violated=["ConnStatsConserved"], count=False)
    ctx.mc("redis", "ReqStats", "MC_ReqStats.cfg", workers=4, timeout=300)
    # listener histories
    recs = c09.listener_stats(ctx, n=150 if ctx.thorough else 16)
    for x in recs:
        if x.get("err"):
            ctx.notes.append("lstats: " + str(x["err"]))
            continue
        ctx.case(key=["lstats", x.get("actions"), x.get("limit")], nontrivial=bool(x.get("openAtStop")) or bool(x.get("refused")))
        for f in x.get("findings") or []:
            ctx.violation(f["sig"], f["what"], x)
        if not x.get("findings"):
            ctx.cov["traces_validated_against_impl"] += 1
    # redis pipelines
    for label, faults, stopopen in (("redis-normal", False, False), ("redis-faults", True, False), ("redis-stop-open", False, True),
                                    ("redis-faults-stop-open", True, True)):
        results = pipeline.run_pipelines(ctx, faults=faults, label=label, stopopen=stopopen,
                                         runs=(30 if ctx.thorough else 4), conns=5, reqs=40)
        for res in results:
            st = res.get("statsAfterStop") or res.get("stats") or {}
            for sig, text in equations(st, label, bool(res.get("statsAfterStop"))):
                ctx.violation(sig, text, {"run": {k: v for k, v in res.items() if k not in ("stats",)}, "stats": st})
    # tcp
    tfile = os.path.join(ctx.work, "tcp.ndjson")
    ctx.harness(["c20-tcp", "-out", tfile, "-runs", "120" if ctx.thorough else "16"], timeout=1800)
    for res in kit.read_ndjson(tfile):
        if res.get("err"):
            ctx.notes.append("tcp: " + res["err"])
            continue
        ctx.case(key=["tcp", res["actions"]], nontrivial=True)
        bad = equations(res["stats"], "tcp/" + res["actions"][-1], True)
        for sig, text in bad:
            ctx.violation(sig, text, res)
        if not bad:
            ctx.cov["traces_validated_against_impl"] += 1
    ctx.cov["rule"] = ("one case per history (listener connection history / Redis pipeline run / TCP relay history), distinct by its action sequence or seed; "
                       "non-trivial when it contains a rejection, a fault or a stop with open connections")
