"""C20 - connection and request statistics are conserved.

Specifications: spec/proc/Listener.tla (connection counters and the active gauge move with the registry under its
lock; ConnStatsConserved, GaugeNonNegative; the pinned variant without the Stop accounting must fail) and
spec/redis/ReqStats.tla (downstream total at dispatch, completion hook; one upstream total and one more hook per
send incl. resends; per-command counters; the slots refresher's own requests; service stop: the quit latch is closed
first, every backend client is told to quit at once and drains what it holds, then sessions, refresher and clients are
waited for - with what goroutines already on their way still do while the latch is closed: the refresher that took a
pending trigger, a backend reader with a redirection or a reply in hand, a session reader with a decoded request;
Conserved at quiescence, NeverAhead always, the stop always gets through; the variant that registers the completion hook
after the quit check must fail), both checked exhaustively;
spec/redis/ReqStatsGen.tla (Gen_ReqStats_{any,fwd,mix}.cfg) emits the behaviours that are replayed.
Code: the counters are read through the public stats package after histories that end in quiescence:
 - listener connection histories from the Listener model (accepts, closes, limit rejections, drain, stop with open
   connections) on a real listener (harness c09, sub-command c09-lstats);
 - ReqStats behaviours (local/forwarded requests, redirections, backend failures, refresh rounds, stop with requests
   and refresh rounds outstanding, drains, and the sends / replies of goroutines held over the close of the quit latch)
   forced on a real Redis processor against gated cluster nodes (harness c20-reqstats; gates
   upstream.loopRefreshSlots.picked, client.loopRead.paired, session.loopRead.decoded);
   mandatory strata every run; the nine ghost counters of the module are compared as well (drift is a note);
 - Redis pipelines with and without backend faults, redirections, connection-limit rejections, unsupported and
   invalid requests, ending normally or with the service stopped while connections are open;
 - TCP relays with dial failures, host removal with open relays, limit rejections and stop with open connections.
Equations: active gauge = 0, total connections = destroyed connections (downstream and upstream); total requests =
success + failure (downstream and upstream); per command total = success + error; no gauge below zero.
"""
import concurrent.futures as cf
import json
import os

import kit
from checks import c09, pipeline

LEVEL = "model_checking"


def equations(stats, label, stopped):
    """returns a list of (signature, text) for violated conservation equations"""
    bad = []
    g = lambda k: stats.get(k, 0)
    for side in ("downstream", "upstream"):
        if g(side + ".cx_active") != 0:
            bad.append(("stats/%s-cx-active-nonzero/%s" % (side, label), "%s.cx_active = %d at quiescence" % (side, g(side + ".cx_active"))))
        if g(side + ".cx_total") != g(side + ".cx_destroy_total"):
            bad.append(("stats/%s-cx-total-vs-destroyed/%s" % (side, label),
                        "%s: cx_total %d != cx_destroy_total %d" % (side, g(side + ".cx_total"), g(side + ".cx_destroy_total"))))
        if g(side + ".rq_total") != g(side + ".rq_success_total") + g(side + ".rq_failure_total"):
            bad.append(("stats/%s-rq-total-vs-outcomes/%s" % (side, label), "%s: rq_total %d != success %d + failure %d" % (
                side, g(side + ".rq_total"), g(side + ".rq_success_total"), g(side + ".rq_failure_total"))))
    cmds = set(k.split(".")[1] for k in stats if k.startswith("redis.") and k.count(".") == 2)
    for c in sorted(cmds):
        t, s, e = g("redis.%s.total" % c), g("redis.%s.success" % c), g("redis.%s.error" % c)
        if t != s + e:
            bad.append(("stats/command-total-vs-outcomes/%s" % label, "redis.%s: total %d != success %d + error %d" % (c, t, s, e)))
    for k, v in stats.items():
        if v < 0:
            bad.append(("stats/gauge-negative/%s" % label, "%s = %d" % (k, v)))
    return bad


# strata of ReqStats behaviours; the mandatory ones are replayed in every run (each names a mechanism of the module whose
# action TLC reaches in the exhaustive run: check_vacuity on MC_ReqStats*.cfg)
MANDATORY = ("refresh-after-quit", "stop-right-after-start", "redirect-after-quit", "redirect-after-quit/second-hop",
             "dispatch-after-quit", "local-dispatch-after-quit", "several-sends-after-quit",
             "reply-in-hand-at-quit/ok", "reply-in-hand-at-quit/fail", "drained-at-quit", "refresh-drained-at-quit",
             "refresh-reply-in-hand-at-quit", "redirect-while-serving", "refresh-failed")

AFTER_QUIT_SENDS = (("ResendAfterQuit", "redirect"), ("RefreshSendAfterQuit", "refresh"), ("DispatchForwardAfterQuit", "dispatch"))


def strata_of(beh):
    steps = beh["steps"]
    acts = [s["a"] for s in steps]
    out = set()
    if "RefreshSendAfterQuit" in acts:
        out.add("refresh-after-quit")
        if not any(a.startswith("Dispatch") for a in acts) and "RefreshSend" not in acts:
            out.add("stop-right-after-start")
    if "ResendAfterQuit" in acts:
        out.add("redirect-after-quit")
        for s in steps:
            if s["a"] == "ResendAfterQuit" and any(t["a"] == "Resend" and t["r"] == s["r"] for t in steps):
                out.add("redirect-after-quit/second-hop")
    if "DispatchForwardAfterQuit" in acts:
        out.add("dispatch-after-quit")
    if "DispatchLocalAfterQuit" in acts:
        out.add("local-dispatch-after-quit")
    if sum(1 for a, _ in AFTER_QUIT_SENDS if a in acts) >= 2:
        out.add("several-sends-after-quit")
    for s in steps:
        if s["a"] == "CompleteAfterQuit":
            out.add("reply-in-hand-at-quit/ok" if s["ok"] else "reply-in-hand-at-quit/fail")
        if s["a"] == "RefreshDone" and not s["ok"]:
            out.add("refresh-failed")
    if "Drain" in acts:
        out.add("drained-at-quit")
    if "RefreshDrain" in acts:
        out.add("refresh-drained-at-quit")
    if "RefreshDoneAfterQuit" in acts:
        out.add("refresh-reply-in-hand-at-quit")
    if "Resend" in acts:
        out.add("redirect-while-serving")
    if "DispatchLocal" in acts:
        out.add("local")
    return sorted(out)


def window_of(beh):
    acts = set(s["a"] for s in beh["steps"])
    w = [n for a, n in AFTER_QUIT_SENDS if a in acts]
    return ("+".join(w) + "-after-quit") if w else "no-send-after-quit"


def reqstats_generate(ctx, cfg):
    per = 1500 if ctx.thorough else 500
    r = ctx.tlc("redis", "ReqStatsGen", cfg, mode="sim", workers=1, sim_num=per, sim_depth=80, seed=ctx.seed,
                deadlock=False, timeout=300)
    if r.timeout or (r.error and "@@BEH" not in r.stdout):
        raise kit.Inconclusive("behaviour generation failed (%s): %s" % (cfg, r.error[:500]))
    return [p for (tag, p) in r.prints if tag == "BEH"]


def reqstats_replay(ctx, pools):
    """spec -> code: ReqStats behaviours on a real Redis processor, statistics read after the stop"""
    import random
    behs, seen = [], set()
    for pool in pools:
        for b in pool:
            k = json.dumps(b["steps"], sort_keys=True)
            if k in seen:
                continue
            seen.add(k)
            b["strata"] = strata_of(b)
            behs.append(b)
    rnd = random.Random(ctx.seed)
    rnd.shuffle(behs)
    chosen, ids = [], set()
    per_stratum = 6 if ctx.thorough else 2
    for st in MANDATORY:
        have = [b for b in behs if st in b["strata"]]
        if not have:
            raise kit.Inconclusive("no ReqStats behaviour of the mandatory stratum %s was emitted" % st)
        have.sort(key=lambda b: len(b["steps"]))           # the shortest ones first: cheap and easy to read
        for b in have[:per_stratum]:
            if id(b) not in ids:
                ids.add(id(b))
                chosen.append(b)
    total = 500 if ctx.thorough else 40
    for b in behs:
        if len(chosen) >= total:
            break
        if id(b) not in ids:
            ids.add(id(b))
            chosen.append(b)
    for i, b in enumerate(chosen):
        b["id"] = i + 1
    bfile = os.path.join(ctx.work, "reqstats-behaviours.ndjson")
    rfile = os.path.join(ctx.work, "reqstats-results.ndjson")
    kit.write_ndjson(bfile, chosen)
    rc, so, se = ctx.harness(["c20-reqstats", "-in", bfile, "-out", rfile], timeout=1500, allow_fail=True)
    results = {r["id"]: r for r in (kit.read_ndjson(rfile) if os.path.exists(rfile) else [])}
    good = exact = drift = 0
    covered = set()
    for b in chosen:
        res = results.get(b["id"])
        if res is None:
            continue
        key = [(s["a"], s["r"], s["ok"]) for s in b["steps"]]
        if res.get("err") or res.get("notCompleted"):
            ctx.notes.append("reqstats %d: %s" % (b["id"], res.get("err") or ("not quiescent: %s" % res.get("notCompleted"))))
            continue
        good += 1
        ctx.case(key=["reqstats", key], nontrivial=True)
        if res.get("double"):
            ctx.notes.append("reqstats %d: request completed twice: %s" % (b["id"], res["double"]))
        if res["exact"]:
            exact += 1
            covered.update(b["strata"])
        bad = equations(res["stats"], "reqstats/" + window_of(b), True)
        for sig, text in bad:
            ctx.violation(sig, text + " after the ReqStats behaviour " + " ".join("%s(%s)" % (s["a"], s["r"]) for s in b["steps"]),
                          {"behaviour": b, "result": res})
        if not bad and res["exact"]:
            ctx.cov["traces_validated_against_impl"] += 1
            got = dict((k, (res.get("got") or {}).get(k, 0)) for k in b["expect"])
            if got != b["expect"]:
                drift += 1
                ctx.notes.append("reqstats %d: counters differ from the module's ghost counters: %s vs %s" % (b["id"], got, b["expect"]))
    ctx.cov["reqstats_replay"] = {"emitted_distinct": len(behs), "chosen": len(chosen), "replayed": good, "followed_exactly": exact,
                                  "ghost_counter_drift": drift, "strata_followed": sorted(covered),
                                  "mandatory": list(MANDATORY)}
    if chosen:
        b0 = chosen[0]
        ctx.sample({"reqstats_behaviour": [(s["a"], s["r"], s["ok"]) for s in b0["steps"]], "expect": b0["expect"],
                    "result": {k: v for k, v in (results.get(b0["id"]) or {}).items() if k in ("got", "exact", "exitedSeen", "completions")}})
    if ctx.violations:
        return
    if rc != 0:
        raise kit.Inconclusive("c20-reqstats exited %d: %s" % (rc, se[-1500:]))
    if good < len(chosen) * 0.8 or exact < good * 0.6:
        raise kit.Inconclusive("ReqStats replay driver unhealthy: %d behaviours, %d replayed, %d followed exactly; %s" % (
            len(chosen), good, exact, "; ".join(ctx.notes[-3:])))
    missing = [st for st in MANDATORY if st not in covered]
    if missing:
        raise kit.Inconclusive("mandatory ReqStats strata not followed on the real code: %s" % missing)


def run(ctx):
    ctx.build()
    ctx.build("c09")
    ctx.assumptions += ["counters are read after the history has reached quiescence (no connection or request in flight); histograms are not part of the statement"]
    # the exhaustive runs and the behaviour emission are independent of each other: side by side
    with cf.ThreadPoolExecutor(max_workers=5) as ex:
        jobs = [
            ex.submit(ctx.mc, "proc", "Listener", "MC_Listener_fixed.cfg", workers=4, timeout=900),
            ex.submit(ctx.mc, "proc", "Listener", "MC_Listener_nostats.cfg", workers=2, timeout=300,
                      expect_violated=["ConnStatsConserved"], count=False),
            ex.submit(ctx.mc, "redis", "ReqStats", "MC_ReqStats.cfg" if ctx.thorough else "MC_ReqStats_quick.cfg", workers=4,
                      timeout=600, coverage=True),
            # anti-vacuity: with the completion hook registered after the quit check a send after the close of the latch is
            # never counted as failed (once through the requests alone, once through the refresher alone)
            ex.submit(ctx.mc, "redis", "ReqStats", "MC_ReqStats_latehook.cfg", workers=1, timeout=300,
                      expect_violated=["Conserved"], count=False),
            ex.submit(ctx.mc, "redis", "ReqStats", "MC_ReqStats_latehook_refresh.cfg", workers=1, timeout=300,
                      expect_violated=["Conserved"], count=False),
        ]
        gens = [ex.submit(reqstats_generate, ctx, cfg) for cfg in ("Gen_ReqStats_fwd.cfg", "Gen_ReqStats_any.cfg", "Gen_ReqStats_mix.cfg")]
        done = [j.result() for j in jobs]
        pools = [g.result() for g in gens]
    ctx.check_vacuity(done[2], "ReqStats")   # every window (sends, replies and drains around the stop) is reachable
    reqstats_replay(ctx, pools)
    # listener histories
    recs = c09.listener_stats(ctx, n=150 if ctx.thorough else 16)
    for x in recs:
        if x.get("err"):
            ctx.notes.append("lstats: " + str(x["err"]))
            continue
        ctx.case(key=["lstats", x.get("actions"), x.get("limit")], nontrivial=bool(x.get("openAtStop")) or bool(x.get("refused")))
        for f in x.get("findings") or []:
            ctx.violation(f["sig"], f["what"], x)
        if not x.get("findings"):
            ctx.cov["traces_validated_against_impl"] += 1
    # redis pipelines
    for label, faults, stopopen in (("redis-normal", False, False), ("redis-faults", True, False), ("redis-stop-open", False, True),
                                    ("redis-faults-stop-open", True, True)):
        results = pipeline.run_pipelines(ctx, faults=faults, label=label, stopopen=stopopen,
                                         runs=(30 if ctx.thorough else 4), conns=5, reqs=40)
        for res in results:
            st = res.get("statsAfterStop") or res.get("stats") or {}
            # a snapshot taken while the service runs is only quiescent for the upstream when no slots refresh round is in
            # progress: the refresher's own "cluster nodes" request is counted in upstream.rq_total while it is in flight
            refreshing = (not res.get("statsAfterStop")) and st.get("upstream.slots_refresh.total", 0) != (
                st.get("upstream.slots_refresh.success_total", 0) + st.get("upstream.slots_refresh.failure_total", 0))
            for sig, text in equations(st, label, bool(res.get("statsAfterStop"))):
                if refreshing and sig.startswith("stats/upstream-rq-total-vs-outcomes"):
                    ctx.notes.append("%s run %s: snapshot taken during a slots refresh round, upstream request equation not judged (%s)" % (
                        label, res.get("run"), text))
                    continue
                ctx.violation(sig, text, {"run": {k: v for k, v in res.items() if k not in ("stats",)}, "stats": st})
    # tcp
    tfile = os.path.join(ctx.work, "tcp.ndjson")
    ctx.harness(["c20-tcp", "-out", tfile, "-runs", "120" if ctx.thorough else "16"], timeout=1800)
    for res in kit.read_ndjson(tfile):
        if res.get("err"):
            ctx.notes.append("tcp: " + res["err"])
            continue
        ctx.case(key=["tcp", res["actions"]], nontrivial=True)
        bad = equations(res["stats"], "tcp/" + res["actions"][-1], True)
        for sig, text in bad:
            ctx.violation(sig, text, res)
        if not bad:
            ctx.cov["traces_validated_against_impl"] += 1
    ctx.cov["rule"] = ("one case per history (listener connection history / Redis pipeline run / TCP relay history), distinct by its action sequence or seed; "
                       "non-trivial when it contains a rejection, a fault or a stop with open connections")
