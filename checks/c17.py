"""C17 - hot restart hand-over is ordered, acknowledged and robust to bad frames.

spec/hotrestart/Frame.tla     the documented frame format (type byte, 16 bit big-endian length, payload; one read
                              unit of at most 4096 bytes), Accept / Expected, and a transcription of readMessage
spec/hotrestart/Handover.tla  the old process (accept loop, read / step / reply, terminate = reply then SIGTERM,
                              exit), children (requests, malformed frames, drop at any point, later child)
 1. Frame: exhaustive TLC run over the boundary partition (format properties + the transcribed readMessage with
    the exact length check); the pinned length check must still yield its counterexamples (anti-vacuity).
 2. spec -> code: every unit emitted by FrameGen is replayed through the real readMessage / sendMessage over a
    real unix socket pair (SOCK_STREAM, what the code uses, and SOCK_SEQPACKET); panic, accepted-with-other-
    content, malformed-accepted and well-formed-rejected are violations.
 3. Handover: exhaustive TLC run (safety + LaterChildCompletes under fairness); the variant whose serving loop
    does not return at end-of-stream must violate (anti-vacuity).
 4. spec -> code: every behaviour emitted by HandoverGen is replayed on the real hotrestart.Restarter (public
    API, recording Instance, re-exec'ed process, the harness is the child); calls / replies / process death are
    compared with the behaviour; afterwards a later child must complete the whole hand-over.
 5. code -> spec: the observed events of the replays are validated by TLC against HandoverTrace.tla.
"""
import collections
import json
import os
import random
import signal
import subprocess
import threading

import kit

LEVEL = "model_checking"

READ_SIZE = 4096


class StageTimeout(Exception):
    """a whole harness call ran into its outer timeout (its process group has been killed)"""


def harness_pg(ctx, args, timeout):
    """Run out/bin/c17 <args> in its own process group with an outer timeout.  On expiry the whole group is killed
    (the re-exec'ed parent workers and real samaritan processes included) and StageTimeout is raised.  The waits
    inside the harness have their own, much shorter deadlines; this is the last line of defence."""
    env = kit.goenv()
    env.update({"VERIF_SEED": str(ctx.seed), "VERIF_TIER": ctx.tier})
    p = subprocess.Popen([os.path.join(kit.BIN_DIR, "c17")] + list(args), stdout=subprocess.PIPE, stderr=subprocess.PIPE,
                         text=True, errors="replace", env=env, cwd=kit.ROOT, start_new_session=True)
    try:
        so, se = p.communicate(timeout=timeout)
    except subprocess.TimeoutExpired:
        try:
            os.killpg(p.pid, signal.SIGKILL)
        except ProcessLookupError:
            pass
        try:
            so, se = p.communicate(timeout=10)
        except Exception:
            so, se = "", ""
        raise StageTimeout("%s did not finish within %ds (process group killed)" % (args[0], timeout))
    # after a normal exit nothing of the group is left: the driver stops or kills its workers itself, and a worker
    # whose command pipe is closed exits on its own within 2 s (parent.go)
    if se.strip():
        with open(os.path.join(ctx.work, "harness.stderr"), "a") as f:
            f.write("== %s\n%s\n" % (" ".join(args), se[-20000:]))
    return p.returncode, so, se


# --------------------------------------------------------------------------- frames

def gen_vectors(ctx):
    r = ctx.tlc("hotrestart", "FrameGen", "Gen_Frame.cfg", mode="mc", workers=1, timeout=180)
    if r.timeout or not r.ok:
        raise kit.Inconclusive("vector generation failed: " + (r.error or str(r.violated))[:500])
    vec, n = [], 0
    for tag, o in r.prints:
        items = [o] if tag == "VEC" else o
        kind = {"VEC": "vec", "RT": "rt", "DEFINED": "defined", "TAIL": "tail"}.get(tag)
        if kind is None:
            continue
        for x in items:
            x = dict(x, kind=kind, id=n)
            n += 1
            vec.append(x)
    if sum(1 for v in vec if v["kind"] == "vec") != r.distinct:
        raise kit.Inconclusive("emitted %d units, TLC enumerated %d" % (sum(1 for v in vec if v["kind"] == "vec"), r.distinct))
    return vec


def unit_text(v):
    if v["kind"] == "vec":
        return "unit type=%d header-bytes=%d declared=%d carried=%d (%d bytes on the wire, %d read)" % (
            v["type"], v["hdr"], v["declared"], v["carried"], v["size"], v["seen"])
    if v["kind"] == "rt":
        return "message type=%d Len=%d sent by sendMessage" % (v["type"], v["len"])
    return "message %s built by its constructor" % v["name"]


def judge_frame(v, r):
    """-> list of (signature, text) for one replayed vector; [] = the code did what the format demands."""
    out = []
    exp = v["expect"]
    if v["kind"] != "vec":
        se = r.get("sendErr", "")
        if se.startswith("panic"):
            sig = "frame/send-panic-length-overflow" if v.get("len", 0) >= 65533 else "frame/send-panic"
            out.append((sig, "sendMessage panicked (%s) for a %s" % (se, unit_text(v))))
            return out
        if r.get("wireOK") is False:
            out.append(("frame/wire-image-differs", "%s: %s" % (unit_text(v), r.get("wire"))))
        if r.get("ctorOK") is False:
            out.append(("frame/constructor-differs", "%s gives %s, specified type=%d payload=%r" % (
                unit_text(v), r.get("ctor"), v["type"], v["payload"])))
    seen = v.get("seen", min(READ_SIZE, 3 + v.get("len", 0)))
    declared = v.get("declared", v.get("len", 0))
    seen_payload = max(0, seen - 3)
    oc = r["outcome"]
    if oc == "panic":
        sig = "frame/panic-full-datagram" if seen == READ_SIZE else "frame/panic"
        out.append((sig, "readMessage panicked (%s) on a %s" % (r.get("panic"), unit_text(v))))
    elif exp["res"] == "reject" and oc == "accept":
        got = "accepted as type=%d len=%d" % (r["type"], r["len"])
        if declared == seen_payload + 1:
            extra = "" if r["dataOK"] else ", payload byte %d = %d was never sent" % (r["badAt"], r["badByte"])
            out.append(("frame/declared-len-plus-one", "%s declares one byte more than it carries and is %s%s" % (unit_text(v), got, extra)))
        elif declared < seen_payload:
            out.append(("frame/trailing-bytes-accepted", "%s carries %d byte(s) more than it declares and is %s" % (
                unit_text(v), seen_payload - declared, got)))
        else:
            out.append(("frame/malformed-accepted/" + v.get("cls", "rt"), "%s is %s" % (unit_text(v), got)))
    elif exp["res"] == "accept" and oc == "reject":
        out.append(("frame/well-formed-rejected", "%s rejected: %s" % (unit_text(v), r.get("err"))))
    elif exp["res"] == "accept" and oc == "accept":
        if r["type"] != exp["type"] or r["len"] != exp["len"] or not r["dataOK"]:
            out.append(("frame/accepted-with-other-content", "%s read as type=%d len=%d dataOK=%s (first bad byte %d)" % (
                unit_text(v), r["type"], r["len"], r["dataOK"], r["badAt"])))
    return out


def with_batches(vec):
    """two batch lines after the vectors: >= 40 accepted units with different payloads whose received messages are kept
    and compared only after the whole batch (one connection; four connections with parallel readers)"""
    good, seen = [], set()
    for v in vec:
        if v["kind"] == "vec" and v["expect"]["res"] == "accept" and 1 <= v["declared"] <= 513 and v["size"] <= READ_SIZE:
            k = (v["declared"], v["fill"])
            if k not in seen:
                seen.add(k)
                good.append(v["id"])
    good = good[:48]
    n = len(vec)
    return vec + [{"kind": "batch", "id": n, "mode": "one", "ids": good, "expect": {"res": "accept"}},
                  {"kind": "batch", "id": n + 1, "mode": "parallel", "ids": good, "expect": {"res": "accept"}}], len(good)


def run_frames(ctx, vec, net):
    vec, nbatch = with_batches(vec)
    if nbatch < 40:
        raise kit.Inconclusive("only %d distinct accepted units for the batch replay" % nbatch)
    vfile = os.path.join(ctx.work, "vectors.ndjson")
    kit.write_ndjson(vfile, vec)
    rfile = os.path.join(ctx.work, "frames-%s.ndjson" % net)
    rc, so, se = harness_pg(ctx, ["c17-frames", "-in", vfile, "-out", rfile, "-net", net], 180 if ctx.thorough else 60)
    res = kit.read_ndjson(rfile) if os.path.exists(rfile) else []
    if rc != 0 or len(res) != len(vec):
        # the harness recovers panics of the functions under test; dying is an infrastructure problem
        raise kit.Inconclusive("c17-frames (%s) exited %d after %d of %d vectors: %s" % (net, rc, len(res), len(vec), se[-1500:]))
    infra = [r for r in res if r["outcome"] == "infra"]
    if len(infra) > len(vec) // 50:
        raise kit.Inconclusive("c17-frames (%s): %d vectors could not be run: %s" % (net, len(infra), infra[0].get("infra")))
    found = collections.OrderedDict()
    stats = collections.Counter()
    for v, r in zip(vec, res):
        if r["outcome"] == "infra":
            ctx.notes.append("frame vector %d (%s): %s" % (v["id"], net, r.get("infra")))
            continue
        if v["kind"] == "batch":
            ctx.case(key=("batch", net, v["mode"]), nontrivial=True)
            ctx.cov["traces_validated_against_impl"] += 1
            ctx.cov.setdefault("frame_batches", {})[net + "/" + v["mode"]] = {"frames": r.get("batchN"), "changed_afterwards": r.get("corrupted", 0)}
            if r.get("corrupted"):
                found.setdefault("frame/payload-changed-after-later-read", []).append({
                    "socket": net, "vector": v, "result": r,
                    "what": "%d of %d messages that were received correctly no longer equal the frame that was sent once the later frames "
                            "of the batch (%s) had been read: %s" % (r["corrupted"], r["batchN"], v["mode"], r.get("firstBad"))})
            continue
        if v["kind"] == "tail":
            # observation only: frames beyond the read size are outside the model's one-frame-one-read-unit assumption
            obs = {"socket": net, "first_read": r["outcome"], "second_read": r.get("second"),
                   "second_type": r.get("secondType"), "second_len": r.get("secondLen"), "inner_type": v["inner"]["type"]}
            ctx.cov.setdefault("stream_tail_probe", []).append(obs)
            if r.get("second") == "accept":
                ctx.notes.append("OBSERVATION (not judged) on %s: an oversized frame (type %d, declared = carried = %d) is rejected, and the "
                                 "NEXT read on the same connection returns its bytes from offset %d on as a message of type %d len %d" % (
                                     net, v["type"], v["declared"], READ_SIZE, r["secondType"], r["secondLen"]))
            continue
        key = (net, v["kind"], v["type"], v.get("hdr"), v.get("declared", v.get("len")), v.get("carried"), v.get("name"))
        ctx.case(key=key, nontrivial=not (v["kind"] == "vec" and v["cls"] == "well-formed" and v["declared"] < 4))
        ctx.cov["traces_validated_against_impl"] += 1
        stats["%s %s expect=%s got=%s" % (v["kind"], v.get("cls", ""), v["expect"]["res"], r["outcome"])] += 1
        for sig, text in judge_frame(v, r):
            found.setdefault(sig, []).append({"socket": net, "vector": v, "result": r, "what": text})
    for sig, lst in found.items():
        ex = min(lst, key=lambda x: (x["vector"].get("size", 1 << 20), x["vector"]["id"]))
        ctx.violation(sig, "%s [%d vector(s) of this class on %s]" % (ex["what"], len(lst), net),
                      {"smallest": ex, "count": len(lst), "more": [x["what"] for x in lst[1:6]]})
    ctx.cov.setdefault("frames", {})[net] = dict(stats)
    return found


# --------------------------------------------------------------------------- sequences

def gen_behaviours(ctx, cfg, src):
    r = ctx.tlc("hotrestart", "HandoverGen", cfg, mode="mc", workers=1, timeout=300)
    if r.timeout or not r.ok:
        raise kit.Inconclusive("behaviour generation %s failed: %s" % (cfg, (r.error or str(r.violated))[:500]))
    behs = [{"src": src, "beh": p} for (tag, p) in r.prints if tag == "BEH"]
    if not behs:
        raise kit.Inconclusive("no behaviours emitted by " + cfg)
    return behs


def bad_pool(vec):
    """malformed units usable inside a sequence (1..4096 bytes), classes interleaved round-robin."""
    groups = collections.OrderedDict()
    for v in vec:
        if v["kind"] == "vec" and v["expect"]["res"] == "reject" and 1 <= v["size"] <= READ_SIZE:
            groups.setdefault((v["cls"], v["seen"] == READ_SIZE), []).append(v)
    pool, i = [], 0
    while any(groups.values()):
        for k in list(groups):
            if groups[k]:
                pool.append(groups[k].pop(0))
        i += 1
    return pool


def judge_seq(b, r):
    """-> list of (signature, text)."""
    out = []
    kinds = collections.Counter(i["k"] for i in r["issues"])
    detail = "; ".join(i["d"] for i in r["issues"][:4])
    script = " ".join("%s%s%s" % (e["a"], e["c"] or "", ("(" + e["x"] + ")") if e["x"] else "") for e in b["beh"]
                      if e["a"] in ("connect", "send", "sendbad", "recv", "drop", "exit", "eof", "refused", "pause", "acceptfault"))
    bad = r.get("bad") or []
    badtxt = ""
    if bad:
        badtxt = " malformed unit(s): " + ", ".join("%s type=%d declared=%d carried=%d" % (x["cls"], x["type"], x["declared"], x["carried"]) for x in bad)
    ov = r.get("overtaken")
    if ov:
        out.append(("handover/later-request-overtakes-running-step",
                    "child %d wrote %s while the step %s of its previous request was still running (the recording Instance held it for %s): "
                    "%s showed up before %s was finished and acknowledged - steps are not performed in the order requested | script: %s" % (
                        ov["child"], ov["later"], ov["inProgress"], ov["within"], ov["saw"], ov["inProgress"], script)))
        return out
    bl = r.get("blocked")
    if bl:
        # a hang / a lost request of the real code: the statement says every requested step is performed and
        # acknowledged and a later child completes, so this is a violation, not an infrastructure problem
        got_no = "Instance call" if bl["waited"] == "step" else bl["waited"]
        if bl["waited"].startswith("connection"):
            got_no = "reply: the write failed, the " + bl["waited"]
        cause = bl.get("cause", "drop")
        if cause == "pause":
            out.append(("handover/request-after-pause-not-answered",
                        "child %d stayed silent for %s on its open connection (the real child sends terminate minutes after drain), then "
                        "sent %s and got no %s within %s; the old process was alive and had performed %s so far | script: %s%s" % (
                            bl["child"], bl.get("pause"), bl["step"], got_no, bl["deadline"], bl["performed"], script, badtxt)))
        elif cause == "accept-fault":
            out.append(("handover/no-answer-after-transient-accept-failure",
                        "accept on the control socket failed once (no file descriptor left in the old process while a child was connecting, "
                        "released 60 ms later); child %d (%s) then sent %s and got no %s within %s; the old process was alive and had "
                        "performed %s so far | script: %s%s" % (
                            bl["child"], bl["where"], bl["step"], got_no, bl["deadline"], bl["performed"], script, badtxt)))
        else:
            out.append(("handover/later-child-blocked-after-drop",
                        "child %d (%s) sent %s after child(ren) %s had hung up and got no %s within %s; the old process was alive and "
                        "had performed %s so far | script: %s%s" % (
                            bl["child"], bl["where"], bl["step"], bl["dropped"], got_no,
                            bl["deadline"], bl["performed"], script, badtxt)))
        return out
    if r["parentDied"]:
        sig = "seq/parent-died-on-malformed-frame" if bad else "seq/parent-died"
        out.append((sig, "the old process died: %s | script: %s%s" % (r.get("parentLog", "")[:300], script, badtxt)))
        return out
    calls = list(r["calls"])
    if r["mode"] == "real" and r.get("coalescedTerms"):
        # two adjacent terminates with a real signal: the second SIGTERM may be merged with the first by the OS;
        # the exact count is judged in the run with the recording kill variable
        exp = list(r["expCalls"])
        for _ in range(r["coalescedTerms"]):
            k = len(exp) - 1 - exp[::-1].index("term") if "term" in exp else None
            if k is not None:
                del exp[k]
        calls_differ = calls != exp or "term" not in calls
    else:
        calls_differ = calls != r["expCalls"]
    calls_bad = calls_differ or kinds["unexpected-call"] or kinds["other-call"] or kinds["missing-call"]
    aborted = bool(r["issues"])     # the driver stops a behaviour at the first deviation
    calls_bad = (calls_differ and not aborted) or kinds["unexpected-call"] or kinds["other-call"] or kinds["missing-call"]
    replies_bad = (r["replies"] != r["expReplies"] and not aborted) or kinds["extra-reply"] or kinds["missing-reply"] or kinds["bad-frame-answered"]
    if calls_bad or replies_bad:
        if bad:
            out.append(("seq/malformed-frame-acted-upon",
                        "steps %s (requested %s), replies %s (expected %s) | script: %s%s | %s" % (
                            r["calls"], r["expCalls"], r["replies"], r["expReplies"], script, badtxt, detail)))
        else:
            if calls_bad:
                out.append(("seq/steps-differ-from-requests", "steps performed %s, requested %s | script: %s | %s" % (
                    r["calls"], r["expCalls"], script, detail)))
            if replies_bad:
                unk = any(e["a"] == "send" and e["x"] == "unknown" for e in b["beh"])
                flat_e = [x for k in sorted(r["expReplies"]) for x in r["expReplies"][k]]
                flat_o = [x for k in sorted(r["replies"]) for x in r["replies"][k]]
                only_unknown = unk and all((a == c) or a == "unknownReply" or c == "unknownReply" for a, c in zip(flat_e, flat_o)) and len(flat_e) == len(flat_o)
                out.append(("seq/unknown-not-answered-unknown" if only_unknown else "seq/reply-does-not-match-request",
                            "replies %s, expected %s (unknown type bytes used: %s) | script: %s | %s" % (
                                r["replies"], r["expReplies"], r.get("unknown"), script, detail)))
    ep = r["epilogue"]
    if ep["ran"] and not ep["done"]:
        out.append(("seq/later-child-cannot-complete", "after [%s]%s a later child got steps %s, replies %s: %s" % (
            script, badtxt, ep["calls"], ep["replies"], ep.get("why"))))
    return out


def seq_files(ctx, label):
    return (os.path.join(ctx.work, "behaviours-%s.ndjson" % label), os.path.join(ctx.work, "seq-%s.ndjson" % label),
            os.path.join(ctx.work, "seqtrace-%s.ndjson" % label))


def seq_args(ctx, behs, pool, mode, label, extra=()):
    bfile, rfile, tfile = seq_files(ctx, label)
    kit.write_ndjson(bfile, behs)
    pfile = os.path.join(ctx.work, "badpool-%s.ndjson" % label)
    kit.write_ndjson(pfile, pool)
    args = ["c17-seq", "-in", bfile, "-out", rfile, "-trace", tfile, "-bad", pfile, "-kill", mode,
            "-log", os.path.join(ctx.work, "parent-%s.log" % label)] + list(extra)
    return args


class Background:
    """a c17-seq run that goes on while the other stages run (long pauses cost wall clock, not CPU)"""

    def __init__(self, ctx, behs, pool, mode, label, extra, timeout):
        self.behs, self.mode, self.label = behs, mode, label
        self.args = seq_args(ctx, behs, pool, mode, label, extra)
        self.out = None
        self.exc = None

        def work():
            try:
                self.out = harness_pg(ctx, self.args, timeout)
            except BaseException as e:    # StageTimeout included; re-raised by join()
                self.exc = e
        self.t = threading.Thread(target=work, daemon=True)
        self.t.start()

    def join(self, ctx):
        self.t.join()
        return run_sequences(ctx, self.behs, None, self.mode, self.label, done=(self.out, self.exc))


def run_sequences(ctx, behs, pool, mode, label, extra=(), done=None):
    bfile, rfile, tfile = seq_files(ctx, label)
    try:
        if done is not None:
            if done[1] is not None:
                raise done[1]
            rc, so, se = done[0]
        else:
            args = seq_args(ctx, behs, pool, mode, label, extra)
            if mode == "real" and label == "real":
                args.append("-api")
            rc, so, se = harness_pg(ctx, args, 900 if ctx.thorough else 60)
    except StageTimeout:
        # the driver writes every record unbuffered: what it saw before the timeout is on disk and is judged
        partial = []
        try:
            partial = kit.read_ndjson(rfile) if os.path.exists(rfile) else []
        except Exception:
            pass
        byid0 = {b["id"]: b for b in behs}
        for r in partial:
            if r.get("blocked") and r["id"] in byid0:
                sig, text = judge_seq(byid0[r["id"]], r)[0]
                ctx.violation(sig, text, {"behaviour": byid0[r["id"]], "result": r})
        raise
    res = kit.read_ndjson(rfile) if os.path.exists(rfile) else []
    api = [r for r in res if r["src"] == "api"]
    stopped = [r for r in res if r["src"] == "stopped"]
    res = [r for r in res if r["src"] not in ("api", "stopped")]
    if stopped:
        ctx.notes.append("c17-seq (%s) stopped after %d of %d behaviours: %s" % (label, len(res), len(behs), stopped[0]["stopped"]["why"]))
        ctx.cov.setdefault("stopped_early", {})[label] = stopped[0]["stopped"]
    if rc != 0 or (len(res) != len(behs) and not stopped):
        raise kit.Inconclusive("c17-seq (%s) exited %d after %d of %d behaviours: %s" % (label, rc, len(res), len(behs), se[-1500:]))
    infra = [r for r in res if r.get("infra") or any(i["k"] in ("connect-failed", "send-failed") for i in r["issues"]) and not r["parentDied"]]
    if len(infra) > max(3, len(behs) // 100):
        raise kit.Inconclusive("c17-seq (%s): %d behaviours could not be driven: %s" % (label, len(infra), json.dumps(infra[0])[:600]))
    byid = {b["id"]: b for b in behs}
    found = collections.OrderedDict()
    clean = 0
    cleanids = set()
    for r in res:
        b = byid[r["id"]]
        if r in infra:
            ctx.notes.append("behaviour %d (%s): %s" % (r["id"], label, r.get("infra") or r["issues"][0]["d"]))
            continue
        script = [(e["a"], e["c"], e["x"]) for e in b["beh"] if e["a"] in ("connect", "send", "sendbad", "recv", "drop", "exit", "eof", "refused", "pause", "acceptfault")]
        faulty = any(e["a"] in ("drop", "sendbad", "exit", "pause", "acceptfault") for e in b["beh"][:-2]) or sum(1 for e in b["beh"] if e["a"] == "send") >= 2
        ctx.case(key=("seq", mode, script), nontrivial=faulty)
        ctx.cov["traces_validated_against_impl"] += 1
        v = judge_seq(b, r)
        if not v and not r["issues"]:
            clean += 1
            cleanids.add(r["id"])
        for sig, text in v:
            found.setdefault(sig, []).append({"behaviour": b, "result": r, "what": text})
        for i in r["issues"]:
            if i["k"] in ("shutdown-hangs", "no-eof", "served-after-exit", "bad-frame-not-consumed", "behaviour-deadline", "api-hangs"):
                ctx.notes.append("behaviour %d (%s): %s: %s" % (r["id"], label, i["k"], i["d"]))
    for a in api:
        if a.get("infra"):
            raise kit.Inconclusive("the package's child-side run could not be made: " + a["infra"])
        ctx.case(key=("api", a["calls"]), nontrivial=True)
        ctx.cov["api_child_side"] = {"calls": a["calls"], "expected": a["expCalls"]}
        if a["calls"] != a["expCalls"] or a["issues"] or a["parentDied"]:
            found.setdefault("seq/package-child-side", []).append({
                "behaviour": {"beh": "hotrestart.New(child with ParentID) then ShutdownParentLocalConf, ShutdownParentAdmin, DrainParentListeners, TerminateParent"},
                "result": a, "what": "the parent performed %s, requested %s; %s" % (a["calls"], a["expCalls"], a["issues"])})
    for sig, lst in found.items():
        ex = min(lst, key=lambda x: (len(x["behaviour"]["beh"]), x["result"]["id"]))
        ctx.violation(sig, "%s [%d behaviour(s), %s]" % (ex["what"], len(lst), label),
                      {"shortest": ex, "count": len(lst), "more": [x["what"] for x in lst[1:4]]})
    traces = kit.read_ndjson(tfile) if os.path.exists(tfile) else []
    kinds = {r["id"]: sorted(set(i["k"] for i in r["issues"])) for r in res}
    for t in traces:
        t["clean"] = t["id"] in cleanids
        t["kinds"] = kinds.get(t["id"], [])
    ctx.cov.setdefault("sequences", {})[label] = {"behaviours": len(behs), "as_modelled": clean,
                                                 "ms": sum(r.get("ms", 0) for r in res)}
    return found, traces, bool(stopped)


def validate(ctx, traces, cap):
    """code -> spec: observed events of the clean runs must be a behaviour of Handover (one TLC run, runs
    separated by reset events); a run the driver found deviating is cross-checked separately."""
    rnd = random.Random(ctx.seed)
    clean = [t for t in traces if t["clean"] and t["tr"]]
    dirty = [t for t in traces if not t["clean"] and t["tr"]]
    rnd.shuffle(clean)
    events, used = [], 0
    index = []  # (first event index (1-based), trace)
    for t in clean:
        if len(events) + len(t["tr"]) + 1 > cap:
            break
        if events:
            events.append({"a": "reset", "c": 0, "x": ""})
        index.append((len(events) + 1, t))
        events += [{"a": a, "c": c, "x": x} for a, c, x in t["tr"]]
        used += 1
    if events:
        r = ctx.validate_traces("hotrestart", "HandoverTrace", "Trace_Handover.cfg", events, used, timeout=900, heap="8g")
        ctx.cov["states"] += r.distinct
        ctx.cov["transitions"] += r.generated
        ctx.cov["trace_validation"] = {"runs": used, "events": len(events), "accepted": bool(r.ok), "of_clean_runs": len(clean)}
        if not r.ok:
            if not r.reject:
                raise kit.Inconclusive("trace validation ended without a verdict: %s %s" % (r.violated, r.error[:300]))
            at = r.reject[0]
            t = [t for (i0, t) in index if i0 <= at][-1]
            sig = "seq/trace-violates-" + (r.violated[0] if r.violated and r.violated[0] != "POSTCONDITION" else "spec")
            ctx.violation(sig, "the events observed on the real Restarter for behaviour %d (%s) are not a behaviour of Handover.tla: "
                          "stuck at event %s %s" % (t["id"], t["src"], at, r.reject[1]), {"trace": t, "tlc": r.violated})
    dirty = [t for t in dirty if set(t.get("kinds", [])) & {"bad-frame-answered", "unexpected-call", "extra-reply"}]
    if dirty:
        # a run in which the driver saw the parent act on a malformed unit: TLC must refuse its events too
        t = min(dirty, key=lambda t: len(t["tr"]))
        ev = [{"a": a, "c": c, "x": x} for a, c, x in t["tr"]]
        r = ctx.validate_traces("hotrestart", "HandoverTrace", "Trace_Handover.cfg", ev, 0, timeout=300)
        ctx.cov["trace_cross_check"] = {"behaviour": t["id"], "src": t["src"], "tlc_accepts": bool(r.ok),
                                        "rejected_at": r.reject[0] if r.reject else None,
                                        "event": r.reject[1][:120] if r.reject else None}


# --------------------------------------------------------------------------- the real binary

def requests_of(b):
    return [e["x"] for e in b["beh"] if e["a"] == "send"]


def e2e_expectation(b):
    """per request of a one-child behaviour: (request, reply, abstract parent state after it)."""
    out, par = [], {"admin": True, "conf": True, "accepting": True, "terminated": False}
    cur = None
    for e in b["beh"]:
        if e["a"] == "send":
            cur = {"req": e["x"], "reply": None, "par": dict(par)}
            out.append(cur)
        elif e["a"] in ("step", "kill"):
            par = dict(e["p"])
            cur["par"] = dict(par)
        elif e["a"] == "recv":
            cur["reply"] = e["x"]
    return out


def build_samaritan():
    binp = os.path.join(kit.BIN_DIR, "samaritan-c17")
    p = subprocess.run(["go", "build", "-o", binp, "./cmd/samaritan"], cwd=kit.REPO, env=kit.goenv(),
                       stdout=subprocess.PIPE, stderr=subprocess.STDOUT, text=True)
    if p.returncode != 0:
        raise kit.Inconclusive("cannot build cmd/samaritan: " + p.stdout[-1500:])
    return binp


class AdminBusy:
    """the adminbusy end-to-end run costs the 2 s grace period of admin.Server.Stop: it runs beside the other stages"""

    def __init__(self, ctx, behs):
        self.beh = next((b for b in behs if b["src"] == "seq" and requests_of(b) == ["admin", "drain", "term"]
                         and not any(e["a"] == "sendbad" for e in b["beh"])), None)
        self.out = self.exc = None
        if self.beh is None:
            raise kit.Inconclusive("no behaviour admin, drain, term for the adminbusy run")
        self.run = {"id": 0, "kind": "adminbusy", "reqs": requests_of(self.beh)}
        infile = os.path.join(ctx.work, "e2e-busy-runs.ndjson")
        kit.write_ndjson(infile, [self.run])
        self.rfile = os.path.join(ctx.work, "e2e-busy.ndjson")
        args = ["c17-e2e", "-bin", os.path.join(kit.BIN_DIR, "samaritan-c17"), "-in", infile, "-out", self.rfile, "-work", ctx.work]

        def work():
            try:
                self.out = harness_pg(ctx, args, 60)
            except BaseException as e:
                self.exc = e
        self.t = threading.Thread(target=work, daemon=True)
        self.t.start()

    def join(self):
        self.t.join()
        if self.exc is not None:
            raise self.exc
        res = kit.read_ndjson(self.rfile) if os.path.exists(self.rfile) else []
        if self.out[0] != 0 or len(res) != 1:
            raise kit.Inconclusive("c17-e2e (adminbusy) exited %d: %s" % (self.out[0], self.out[2][-800:]))
        return self.run, res[0], self.beh


def run_e2e(ctx, behs, busy):
    binp = os.path.join(kit.BIN_DIR, "samaritan-c17")
    rnd = random.Random(ctx.seed + 17)
    cand = []
    for b in behs:
        rq = requests_of(b)
        if b["src"] != "seq" or not rq or any(e["a"] == "sendbad" for e in b["beh"]):
            continue
        if len(set(rq)) != len(rq) or ("term" in rq and rq[-1] != "term"):
            continue   # each step once (the real instance guards admin/drain with sync.Once), terminate last
        cand.append(b)
    fixed = [["admin", "drain", "term"], ["conf", "admin", "drain"], ["conf", "admin", "drain", "term"]]
    picked = [b for b in cand if requests_of(b) in fixed]
    rest = [b for b in cand if requests_of(b) not in fixed]
    rnd.shuffle(rest)
    picked += rest[:(10 if ctx.thorough else 1)]
    runs = [{"id": i, "kind": "scripted", "reqs": requests_of(b)} for i, b in enumerate(picked)]
    runs.append({"id": len(runs), "kind": "realchild"})
    infile = os.path.join(ctx.work, "e2e-runs.ndjson")
    kit.write_ndjson(infile, runs)
    rfile = os.path.join(ctx.work, "e2e.ndjson")
    rc, so, se = harness_pg(ctx, ["c17-e2e", "-bin", binp, "-in", infile, "-out", rfile, "-work", ctx.work], 300 if ctx.thorough else 60)
    res = kit.read_ndjson(rfile) if os.path.exists(rfile) else []
    if rc != 0 or len(res) != len(runs):
        raise kit.Inconclusive("c17-e2e exited %d after %d of %d runs: %s" % (rc, len(res), len(runs), se[-1000:]))
    # the same hand-over while an admin API client is in the middle of a request (health check, metrics scrape):
    # started earlier, beside the other stages
    brun, bres, bbeh = busy.join()
    brun = dict(brun, id=len(picked))
    picked.append(bbeh)
    runs.append(brun)
    res.append(bres)
    infra = [r for r in res if r.get("infra")]
    if infra:
        raise kit.Inconclusive("c17-e2e: %s" % infra[0]["infra"])
    found = collections.OrderedDict()
    ok = 0
    for run, r in zip(runs, res):
        ctx.case(key=("e2e", run["kind"], run.get("reqs")), nontrivial=True)
        ctx.cov["traces_validated_against_impl"] += 1
        bad = []
        if run["kind"] in ("scripted", "adminbusy"):
            exp = e2e_expectation(picked[run["id"]])
            for i, x in enumerate(exp):
                if i >= len(r["obs"]):
                    bad.append(("e2e/step-effect-differs", "request %d (%s) could not be sent: the old process was gone" % (i + 1, x["req"])))
                    break
                o, par = r["obs"][i], x["par"]
                gone = par["terminated"]     # the signalled process shuts everything down and exits
                want = {"reply": x["reply"], "adminUp": par["admin"] and not gone, "accepting": par["accepting"] and not gone,
                        "estAlive": not gone, "alive": not gone}
                got = {k: o[k] for k in want}
                if run["kind"] == "adminbusy" and x["req"] == "admin" and got == want and o.get("lingering") != "closed":
                    bad.append(("e2e/admin-connection-survives-stop",
                                "the request to stop the admin API was acknowledged (%s) and the admin port no longer listens, but the admin "
                                "connection that had a request in progress is still served by the old process 0.7 s later: %s" % (
                                    o["reply"], o.get("lingering"))))
                    break
                if got != want:
                    if run["kind"] == "adminbusy" and x["req"] == "admin" and not o["alive"]:
                        bad.append(("e2e/admin-stop-with-open-connection-kills-old-process",
                                    "the real samaritan process dies at the request to stop the admin API when an admin API client has a "
                                    "request in flight (TCP connection to the admin port with a partial GET, then requests %s): %s; %s" % (
                                        run["reqs"], o.get("exit"), r.get("crash", "")[:300])))
                    elif x["req"] == "conf" and not o["alive"]:
                        bad.append(("e2e/local-conf-request-kills-old-process",
                                    "the real samaritan process dies when it gets the request to stop the local configuration store "
                                    "(requests %s): %s; %s" % (run["reqs"], o.get("exit"), r.get("crash", "")[:300])))
                    else:
                        bad.append(("e2e/step-effect-differs", "after request %d (%s) of %s the real process shows %s, the model says %s; %s" % (
                            i + 1, x["req"], run["reqs"], got, want, r.get("crash", "")[:200])))
                    break
                # "signal: terminated": SIGTERM arrived before main had installed its handler (hand-over in the first
                # milliseconds of the old process' life; seen only on an overloaded machine) - the process is gone either way
                if par["terminated"] and o.get("exit") not in ("exit 0", "signal: terminated"):
                    bad.append(("e2e/step-effect-differs", "after terminate the old process ended with %s" % o.get("exit")))
        else:
            want = {"parentSteps": ["admin", "drain", "term"], "estDuring": True, "newServed": True, "parentExit": "exit 0", "childAlive": True}
            got = {k: r.get(k) for k in want}
            if got != want or r.get("crash"):
                bad.append(("e2e/real-child-handover", "two real samaritan processes: observed %s, expected %s; %s" % (got, want, r.get("crash", "")[:200])))
        if not bad:
            ok += 1
        for sig, text in bad:
            found.setdefault(sig, []).append({"run": run, "result": r, "what": text})
    for sig, lst in found.items():
        ctx.violation(sig, "%s [%d run(s)]" % (lst[0]["what"], len(lst)), {"first": lst[0], "count": len(lst)})
    ctx.cov["e2e"] = {"runs": len(runs), "as_modelled": ok, "scripted": [r["reqs"] for r in runs if r["kind"] == "scripted"]}
    ctx.sample({"e2e_run": res[0]})


# --------------------------------------------------------------------------- long pauses

def is_pipelined(b):
    un = 0
    for e in b["beh"]:
        if e["a"] == "send":
            if un > 0:
                return True
            un += 1
        elif e["a"] == "recv":
            un -= 1
    return False


def behind_step(b):
    """the request whose step is running when the pipelined request is written"""
    last, un = None, 0
    for e in b["beh"]:
        if e["a"] == "send":
            if un > 0:
                return last
            un, last = un + 1, e["x"]
        elif e["a"] == "recv":
            un -= 1
    return None


def child_script(b):
    return [e["x"] if e["a"] == "send" else e["a"] for e in b["beh"] if e["a"] in ("send", "sendbad", "pause")]


def start_long_pauses(ctx, rnd):
    allp = [b for b in gen_behaviours(ctx, "Gen_Handover_pause.cfg", "pause")
            if any(e["a"] == "pause" for e in b["beh"]) and not any(e["a"] == "sendbad" for e in b["beh"])]
    realchild = [b for b in allp if child_script(b) == ["admin", "drain", "pause", "term"]]   # samaritan.go:110-132
    first = [b for b in allp if child_script(b) == ["pause", "admin"]]
    if not realchild or not first:
        raise kit.Inconclusive("the pause stratum lacks the child-side sequence of samaritan.go")
    rest = [b for b in allp if b not in realchild and b not in first]
    rnd.shuffle(rest)
    if ctx.thorough:
        plan = [("pause11", "11s", realchild[:1] + first[:1] + rest[:2], 240),
                ("pause30", "30s", realchild[:1] + rest[2:3], 240),
                ("pause65", "65s", realchild[:1], 240)]
    else:
        plan = [("pause11", "11s", realchild[:1], 60)]
    out = []
    n = 0
    for label, dur, behs, tmo in plan:
        behs = [dict(b, id=1000000 + n + i) for i, b in enumerate(behs)]
        n += len(behs)
        out.append(Background(ctx, behs, [], "real", label, ["-pause", dur], tmo))
    ctx.sample({"long_pause_behaviour": child_script(realchild[0]), "pauses": [p[1] for p in plan]})
    return out


# --------------------------------------------------------------------------- main

def run(ctx):
    try:
        run_stages(ctx)
    except StageTimeout as e:
        # outer timeout of a harness call: an infrastructure matter unless the real code already showed violations
        if not ctx.violations and not ctx.known_hits:
            raise kit.Inconclusive(str(e))
        ctx.notes.append("stopped: %s; the violations recorded before stand" % e)
        if not ctx.cov["rule"]:
            ctx.cov["rule"] = "run cut short by a harness timeout after violations had been recorded; see notes"


def run_stages(ctx):
    ctx.build()
    rnd = random.Random(ctx.seed)
    ctx.assumptions += [
        "one frame = one read unit: the stream socket neither coalesces two frames into one read nor splits one (the real child "
        "waits for each reply before the next request; the driver waits until a malformed unit has been consumed)",
        "lengths are partitioned at the boundaries {0,1,2,3,255,256,258,513,4092,4093,4094,4095,65535} x {n-1,n,n+1}; type bytes 0..10 and 255",
        "payload content is a fill pattern (never a zero byte); the handlers ignore the payload",
        "the kernel's unix socket semantics are trusted (queued data stays readable after the writer closes; SIGTERM delivery to the own process)",
        "the recording Instance stands for the real instance of cmd/samaritan in the sequence replays; the real instance (admin API, "
        "listeners, process exit) is exercised by the end-to-end runs on the real binary only for a seeded handful of request sequences",
        "a rejected frame is recognised by the Restarter's log line 'Read msg from child failed: incomplete data|invalid header'",
    ]
    W = 8 if ctx.thorough else 4

    # 0. time: a child that is silent on its open connection for longer than any plausible idle limit and then sends
    # its next request (the real child sends terminate minutes after drain).  Real pauses cost wall clock, so these
    # few sequences run in the background, in their own processes, while everything else goes on.
    background = start_long_pauses(ctx, rnd)
    build_samaritan()

    # 1. the format and the transcribed readMessage
    ctx.mc("hotrestart", "Frame", "MC_Frame.cfg", workers=4, timeout=180)
    r = ctx.mc("hotrestart", "Frame", "MC_Frame_pinned.cfg", workers=1, timeout=180, expect_violated=["ImplConforms"],
               count=False, extra=["-continue"])
    if "ImplNeverPanics" not in r.violated:
        raise kit.Inconclusive("the transcribed pinned readMessage does not panic in the model: %s" % r.violated)
    if ctx.thorough:
        ctx.mc("hotrestart", "Frame", "MC_Frame_onechar.cfg", workers=1, timeout=180, count=False)
    # the receive side as a sequence of reads: messages held by the caller stay what was sent; a message that points
    # into a reused receive buffer must violate
    ctx.mc("hotrestart", "FrameSeq", "MC_FrameSeq.cfg", workers=1, timeout=120)
    ctx.mc("hotrestart", "FrameSeq", "MC_FrameSeq_alias.cfg", workers=1, timeout=120, expect_violated=["ResultsStable"], count=False)

    # 2. vectors through the real functions
    vec = gen_vectors(ctx)
    ctx.sample({"frame_vector": next(v for v in vec if v["kind"] == "vec" and v["cls"] == "declared-plus-one")})
    for net in ("unix", "unixpacket"):
        run_frames(ctx, vec, net)

    # 3. the hand-over model
    if ctx.thorough:
        r = ctx.mc("hotrestart", "Handover", "MC_Handover.cfg", workers=W, timeout=900)
        ctx.mc("hotrestart", "Handover", "MC_Handover_safety5.cfg", workers=W, timeout=900)
        ctx.mc("hotrestart", "Handover", "MC_Handover_env.cfg", workers=W, timeout=900)
    else:
        r = ctx.mc("hotrestart", "Handover", "MC_Handover_quick.cfg", workers=W, timeout=300, coverage=True)
        ctx.check_vacuity(r, "Handover", ignore=("ChildPause", "ParentIdleClose", "AcceptFault", "BgStep", "BgReply"))
        r = ctx.mc("hotrestart", "Handover", "MC_Handover_env_quick.cfg", workers=W, timeout=300, coverage=True)
        ctx.check_vacuity(r, "Handover", ignore=("ParentIdleClose", "BgStep", "BgReply"))
    # the defect variants must still yield their counterexamples (anti-vacuity)
    ctx.mc("hotrestart", "Handover", "MC_Handover_noeof.cfg", workers=1, timeout=180,
           expect_violated=["NoStuckChild", "TEMPORAL"], count=False)
    ctx.mc("hotrestart", "Handover", "MC_Handover_idlelimit.cfg", workers=1, timeout=180,
           expect_violated=["AckMatches"], count=False)
    ctx.mc("hotrestart", "Handover", "MC_Handover_acceptexit.cfg", workers=1, timeout=180,
           expect_violated=["NoStuckChild", "TEMPORAL"], count=False)
    ctx.mc("hotrestart", "Handover", "MC_Handover_asyncdrain.cfg", workers=1, timeout=180,
           expect_violated=["StepOncePerRequestInOrder", "AckMatches", "AckAfterStep"], count=False)

    # 4. behaviours on the real Restarter
    q = "" if ctx.thorough else "_quick"
    behs = gen_behaviours(ctx, "Gen_Handover_seq%s.cfg" % q, "seq") + gen_behaviours(ctx, "Gen_Handover_drop%s.cfg" % q, "drop")
    behs += gen_behaviours(ctx, "Gen_Handover_overlap%s.cfg" % q, "overlap")
    # environment stratum: one transient accept failure at the moment a child connects (costs ~0.2 s each: a seeded choice)
    fault = [b for b in gen_behaviours(ctx, "Gen_Handover_fault.cfg", "fault") if any(e["a"] == "acceptfault" for e in b["beh"])]
    rnd.shuffle(fault)
    behs += fault[:(200 if ctx.thorough else 12)]
    # pipelined children: the next request is written while the parent is inside the (slow) step of the previous one
    pipe = [b for b in gen_behaviours(ctx, "Gen_Handover_pipe.cfg", "pipe") if is_pipelined(b) and not any(e["a"] == "sendbad" for e in b["beh"])]
    rnd.shuffle(pipe)
    pipe.sort(key=lambda b: 0 if behind_step(b) == "drain" else 1)      # a drain that takes time first
    behs += pipe[:(150 if ctx.thorough else 12)]
    for i, b in enumerate(behs):
        b["id"] = i
    ctx.sample({"behaviour": [(e["a"], e["c"], e["x"]) for e in next(b for b in behs if b["src"] == "drop" and len(b["beh"]) > 14)["beh"]]})
    busy = AdminBusy(ctx, behs)
    pool = bad_pool(vec)
    _, traces, stopped = run_sequences(ctx, behs, pool, "real", "real", extra=["-burst", "6"])
    # exact count of terminate signals: the package's kill variable records instead of signalling
    withterm = [b for b in behs if any(e["a"] == "kill" for e in b["beh"])]
    traces2 = []
    if stopped:
        ctx.notes.append("the run with the recording kill variable was skipped: the real-signal run stopped early on blocked children")
    else:
        _, traces2, _ = run_sequences(ctx, withterm, pool, "hook", "hook")

    # the long-pause runs started at the beginning are over by now (or are waited for)
    traces3 = []
    for bg in background:
        _, tr, _ = bg.join(ctx)
        traces3 += tr
    ctx.cov["long_pauses"] = [{"label": bg.label, "behaviours": len(bg.behs)} for bg in background]

    # 5. observed events against the specification
    # real SIGTERM is observed asynchronously, so for behaviours with a terminate the run with the recording kill
    # variable (exact order) is the one that is validated
    hasterm = set(b["id"] for b in withterm)
    validate(ctx, traces3 + [t for t in traces if t["id"] not in hasterm] + traces2, 260000 if ctx.thorough else 30000)

    # 6. the steps on the real binary (real instance: admin API, listeners, process exit) and a real child
    run_e2e(ctx, behs, busy)

    ctx.cov["exhaustive"] = False
    ctx.cov["exhaustive_within_bounds"] = True
    ctx.cov["rule"] = (
        "frames: every unit of FrameGen's boundary partition (type x declared x carried, plus cut headers, sender-side messages and the "
        "nine defined messages), replayed on SOCK_STREAM and SOCK_SEQPACKET; distinct by (socket, kind, type, header bytes, declared, carried); "
        "trivial = well-formed unit with a payload under 4 bytes. sequences: every maximal behaviour of HandoverGen (all request sequences "
        "over admin/conf/drain/term/unknown/malformed up to the bound, drop of the served connection at every point, exit of the signalled "
        "parent, second child afterwards / overlapping), replayed with real SIGTERM and, for behaviours with a terminate, again with the "
        "package's kill variable recording; distinct by child-visible script; non-trivial = contains a drop, a malformed unit, an exit or "
        "at least two requests. Judged by: recorded Instance calls = requested steps once each in order, replies match, unknown -> unknown, "
        "no reply and no step for a malformed unit, process alive, a later child completes admin/conf/drain/term. "
        "e2e: behaviours of one child with each request at most once (seeded choice + the child-side sequence of samaritan.go) on the real "
        "cmd/samaritan binary, observed admin port / listening socket / established connection / process exit compared with the abstract "
        "parent state of Handover.tla after every request; one run with a real second samaritan as the child.")
