"""C01 - replies come back in request order, exactly one per request.

spec/redis/Pipeline.tla (sessions, split requests, one FIFO per backend node, nodes answering in any order)
 1. exhaustive TLC run: ReplyOrder, OnlyComplete, NeverAhead + AllAnswered (liveness);
    spec/redis/PipelineObs.tla (observational spec) is model-checked for its own invariants;
 2. spec -> code: TLC simulation emits behaviours (order of client sends with the nodes each request touches,
    order of backend replies); each is replayed on a real Redis processor with gated simulated nodes that release
    their replies exactly in the behaviour's order; every reply is compared with the k-th request;
 3. code -> spec: free-running random pipelines (random reply pacing across nodes, random fragmentation of the
    request bytes, scheduler perturbation at the verifhook points), boundary trace validated by TLC against
    PipelineObs (no error replies allowed: stable cluster);
 4. request contents that could desynchronise the reply stream (CR LF in command names, keys, values; invalid
    request shapes): exactly one reply each, then the sentinel's PONG.
"""
import os

import kit
from checks import pipeline

LEVEL = "model_checking"


def run(ctx):
    ctx.build()
    ctx.assumptions += [
        "exhaustive model: 2 connections x 2 requests, 2-3 nodes, session queue capacity 1-2 (code: 32)",
        "byte fragmentation is exercised by the random driver and by C10, not by the exhaustive model",
    ]
    r = ctx.mc("redis", "Pipeline", "MC_Pipeline.cfg" if ctx.thorough else "MC_Pipeline_quick.cfg", workers=8, timeout=1500,
               coverage=not ctx.thorough)
    if r.coverage:
        ctx.check_vacuity(r, "Pipeline")
    ctx.mc("redis", "PipelineObs", "MC_PipelineObs.cfg", workers=4, timeout=300)
    # anti-vacuity of ParentOnce: a variant in which a failing child completes the parent at once must complete a
    # split request twice
    ctx.mc("redis", "Pipeline", "MC_Pipeline_errcompletes.cfg", workers=4, timeout=300, expect_violated=["ParentOnce"], count=False)
    # 2. TLC-chosen reply orders
    num = 250 if ctx.thorough else 30
    g = ctx.tlc("redis", "PipelineGen", "Gen_Pipeline.cfg", mode="sim", workers=1, sim_num=num, sim_depth=300,
                seed=ctx.seed, deadlock=False, timeout=300)
    behs = [p for (tag, p) in g.prints if tag == "BEH"]
    if len(behs) < num // 2:
        raise kit.Inconclusive("only %d behaviours emitted: %s" % (len(behs), g.error[:300]))
    bfile = os.path.join(ctx.work, "behaviours.ndjson")
    kit.write_ndjson(bfile, behs)
    rfile = os.path.join(ctx.work, "replay.ndjson")
    ctx.harness(["c01-replay", "-in", bfile, "-out", rfile], timeout=3000)
    results = kit.read_ndjson(rfile)
    good = followed = 0
    for res, beh in zip(results, behs):
        if res.get("err"):
            ctx.notes.append("replay %d: %s" % (res["id"], res["err"]))
            continue
        good += 1
        multi = any(len(s["tg"]) > 1 for s in beh)
        ctx.case(key=[(s["a"], s["c"], s["k"], s["tg"], s["n"]) for s in beh], nontrivial=multi)
        art = {"behaviour": beh, "result": res}
        for m in res.get("mismatches") or []:
            ctx.violation("reply-mismatch/tlc-order", "conn %s request %s: got %s want %s" % (m["c"], m["k"], m["got"], m["want"]), art)
        for m in res.get("lost") or []:
            ctx.violation("lost-request/tlc-order", "conn %s request %s never answered: %s" % (m["c"], m["k"], m["got"]), art)
        for m in res.get("extra") or []:
            ctx.violation("extra-reply/tlc-order", "conn %s got more replies than requests: %s" % (m["c"], m["got"]), art)
        if res["followed"]:
            followed += 1
            if not (res.get("mismatches") or res.get("lost") or res.get("extra")):
                ctx.cov["traces_validated_against_impl"] += 1
    ctx.cov["replay"] = {"behaviours": len(behs), "replayed": good, "followed": followed}
    if good < len(behs) * 0.8 or followed < good * 0.5:
        raise kit.Inconclusive("replay driver unhealthy: %d behaviours, %d replayed, %d followed" % (len(behs), good, followed))
    if results:
        ctx.sample({"behaviour": behs[0][:12], "result": results[0]})
    # 3. random pipelines, no faults: no error reply allowed
    pipeline.run_pipelines(ctx, faults=False, label="c01")
    # 4. injection
    ifile = os.path.join(ctx.work, "inject.ndjson")
    ctx.harness(["c01-inject", "-out", ifile], timeout=300)
    for r in kit.read_ndjson(ifile):
        ctx.case(key=["inject", r["name"]], nontrivial=True)
        if not r["ok"]:
            ctx.violation("reply-count/" + r["name"], "%s: %s; replies %s" % (r["name"], r["why"], r["replies"]), r)
    # 5. a locally answered (banned) command pipelined behind forwarded ones
    bfile2 = os.path.join(ctx.work, "bannedpipe.ndjson")
    ctx.harness(["c01-bannedpipe", "-out", bfile2], timeout=300)
    for r in kit.read_ndjson(bfile2):
        ctx.case(key=["bannedpipe", r["case"]], nontrivial=True)
        if not r["ok"]:
            ctx.violation("reply-count/banned-pipe/" + r["case"], "%s: %d replies for %d pipelined requests: %s" % (r["case"], len(r["replies"] or []), r["want"], r["replies"]), r)
    ctx.cov["rule"] = ("behaviours = TLC simulation of PipelineGen (seeded), distinct by event sequence, non-trivial = contains a request "
                       "split over two nodes; random pipelines counted per request; injection cases by name")
