"""C01 - replies come back in request order, exactly one per request.

spec/redis/Pipeline.tla (sessions, split requests, one FIFO per backend node, nodes answering in any order)
 1. exhaustive TLC run: ReplyOrder, OnlyComplete, NeverAhead + AllAnswered (liveness);
    spec/redis/PipelineObs.tla (observational spec) is model-checked for its own invariants;
 2. spec -> code: TLC simulation emits behaviours (order of client sends with the nodes each request touches,
    order of backend replies); each is replayed on a real Redis processor with gated simulated nodes that release
    their replies exactly in the behaviour's order; every reply is compared with the k-th request;
 3. code -> spec: free-running random pipelines (random reply pacing across nodes, random fragmentation of the
    request bytes, scheduler perturbation at the verifhook points), boundary trace validated by TLC against
    PipelineObs (no error replies allowed: stable cluster);
 4. request contents that could desynchronise the reply stream (CR LF in command names, keys, values; invalid
    request shapes): exactly one reply each, then the sentinel's PONG;
 5. every reply the proxy builds itself (spec/redis/LocalReply.tla): locally answered commands (PING [message], QUIT,
    SELECT, INFO, TIME, HOTKEY), error replies (unsupported command, invalid request, invalid cursor, disabled in
    compress mode - the latter built by the backend writer) and forwarded requests, with client-controlled bytes (CR,
    LF, CR LF + a complete RESP value, NUL, type bytes, quotes) at every position, array and inline form, on a plain
    and on a compressing processor, pipelined behind pending forwarded requests and in front of a forwarded GET and a
    PING.  The reply construction is a model step whose output is the sequence of wire lines the client reads
    (constants ErrText / Echo / HotAs: the broken variants violate OneReplyEach); the exhaustive run of the code's
    variant prints one pipeline per terminal state = the vectors replayed on the real processor (c01-local), the
    returned byte stream is cut into values by a strict reply parser: exactly one value per request, the requests
    around the probe answered with their own values.

Spec modules owned: spec/redis/Pipeline.tla, PipelineGen.tla, LocalReply.tla and their cfg files.
"""
import concurrent.futures
import os

import kit
from checks import pipeline

LEVEL = "model_checking"


def run(ctx):
    ctx.build()
    # the locally built replies (model, vectors, replay) run beside the pipeline part
    pool = concurrent.futures.ThreadPoolExecutor(max_workers=3)
    side = [pool.submit(local_replies, ctx), pool.submit(pipeline_models, ctx), pool.submit(local_variants, ctx)]
    try:
        pipelines(ctx)
    finally:
        # violations observed on the real code stand over trouble elsewhere: collect everything first
        errs = []
        for f in side:
            try:
                f.result()
            except Exception as e:  # noqa: BLE001
                errs.append(e)
        pool.shutdown(wait=True)
    if errs:
        raise errs[0]
    ctx.cov["rule"] = ("behaviours = TLC simulation of PipelineGen (seeded), distinct by event sequence, non-trivial = contains a request "
                       "split over two nodes; random pipelines counted per request; injection cases by name; locally built replies: one "
                       "case per vector of LocalReply.tla (handler/position x payload class x form x processor x requests ahead), "
                       "non-trivial = the payload contains CR, LF, NUL, a type byte or a quote")


def pipeline_models(ctx):
    ctx.assumptions += [
        "exhaustive model: 2 connections x 2 requests, 2-3 nodes, session queue capacity 1-2 (code: 32)",
        "byte fragmentation is exercised by the random driver and by C10, not by the exhaustive model",
    ]
    r = ctx.mc("redis", "Pipeline", "MC_Pipeline.cfg" if ctx.thorough else "MC_Pipeline_quick.cfg", workers=4, timeout=1500,
               coverage=not ctx.thorough)
    if r.coverage:
        ctx.check_vacuity(r, "Pipeline")
    ctx.mc("redis", "PipelineObs", "MC_PipelineObs.cfg", workers=4, timeout=300)
    # anti-vacuity of ParentOnce: a variant in which a failing child completes the parent at once must complete a
    # split request twice
    ctx.mc("redis", "Pipeline", "MC_Pipeline_errcompletes.cfg", workers=1, timeout=300, expect_violated=["ParentOnce"], count=False)


def pipelines(ctx):
    # 2. TLC-chosen reply orders
    num = 250 if ctx.thorough else 30
    g = ctx.tlc("redis", "PipelineGen", "Gen_Pipeline.cfg", mode="sim", workers=1, sim_num=num, sim_depth=300,
                seed=ctx.seed, deadlock=False, timeout=300)
    behs = [p for (tag, p) in g.prints if tag == "BEH"]
    if len(behs) < num // 2:
        raise kit.Inconclusive("only %d behaviours emitted: %s" % (len(behs), g.error[:300]))
    bfile = os.path.join(ctx.work, "behaviours.ndjson")
    kit.write_ndjson(bfile, behs)
    rfile = os.path.join(ctx.work, "replay.ndjson")
    ctx.harness(["c01-replay", "-in", bfile, "-out", rfile], timeout=3000)
    results = kit.read_ndjson(rfile)
    good = followed = 0
    for res, beh in zip(results, behs):
        if res.get("err"):
            ctx.notes.append("replay %d: %s" % (res["id"], res["err"]))
            continue
        good += 1
        multi = any(len(s["tg"]) > 1 for s in beh)
        ctx.case(key=[(s["a"], s["c"], s["k"], s["tg"], s["n"]) for s in beh], nontrivial=multi)
        art = {"behaviour": beh, "result": res}
        for m in res.get("mismatches") or []:
            ctx.violation("reply-mismatch/tlc-order", "conn %s request %s: got %s want %s" % (m["c"], m["k"], m["got"], m["want"]), art)
        for m in res.get("lost") or []:
            ctx.violation("lost-request/tlc-order", "conn %s request %s never answered: %s" % (m["c"], m["k"], m["got"]), art)
        for m in res.get("extra") or []:
            ctx.violation("extra-reply/tlc-order", "conn %s got more replies than requests: %s" % (m["c"], m["got"]), art)
        if res["followed"]:
            followed += 1
            if not (res.get("mismatches") or res.get("lost") or res.get("extra")):
                ctx.cov["traces_validated_against_impl"] += 1
    ctx.cov["replay"] = {"behaviours": len(behs), "replayed": good, "followed": followed}
    if good < len(behs) * 0.8 or followed < good * 0.5:
        raise kit.Inconclusive("replay driver unhealthy: %d behaviours, %d replayed, %d followed" % (len(behs), good, followed))
    if results:
        ctx.sample({"behaviour": behs[0][:12], "result": results[0]})
    # 3. random pipelines, no faults: no error reply allowed
    pipeline.run_pipelines(ctx, faults=False, label="c01")
    # 4. injection
    ifile = os.path.join(ctx.work, "inject.ndjson")
    ctx.harness(["c01-inject", "-out", ifile], timeout=300)
    for r in kit.read_ndjson(ifile):
        ctx.case(key=["inject", r["name"]], nontrivial=True)
        if not r["ok"]:
            ctx.violation("reply-count/" + r["name"], "%s: %s; replies %s" % (r["name"], r["why"], r["replies"]), r)
    # 5. a locally answered (banned) command pipelined behind forwarded ones
    bfile2 = os.path.join(ctx.work, "bannedpipe.ndjson")
    ctx.harness(["c01-bannedpipe", "-out", bfile2], timeout=300)
    for r in kit.read_ndjson(bfile2):
        ctx.case(key=["bannedpipe", r["case"]], nontrivial=True)
        if not r["ok"]:
            ctx.violation("reply-count/banned-pipe/" + r["case"], "%s: %d replies for %d pipelined requests: %s" % (r["case"], len(r["replies"] or []), r["want"], r["replies"]), r)


# ---------------------------------------------------------------------------------------------- locally built replies

# classes that must be exercised in every run (prefix of the vector's ctx) and payload classes that must be among them
LOCAL_STRATA = ["local/ping", "local/quit", "local/select", "local/info", "local/time", "local/hotkey", "error/unsupported/name",
                "error/unsupported/arg", "error/arity", "error/cursor", "error/banned", "forward/", "stored/hotkey"]
LOCAL_PAYLOADS = ["crlf", "lf", "cr", "crlf+simple", "nul", "type-first"]


def local_variants(ctx):
    """LocalReply.tla: every broken construction policy violates the property, the windows are reachable."""
    runs = [("verbatim", ["OneReplyEach"]), ("pairs", ["OneReplyEach"]), ("echoline", ["OneReplyEach"]),
            ("echoline_inline", ["OneReplyEach"]), ("hotline", ["OneReplyEach"]), ("win_quoted", ["NotW_QuotedInLine"]),
            ("win_behind", ["NotW_BuiltBehindPending"]), ("win_writer", ["NotW_WriterBuiltLate"]), ("echobulk", None)]
    if not ctx.thorough:
        # the quick tier keeps one broken variant per construction policy and the window of the late (backend writer's) reply
        runs = [x for x in runs if x[0] in ("verbatim", "echoline", "hotline", "win_writer")]
    for cfg, exp in runs:
        ctx.mc("redis", "LocalReply", "MC_LocalReply_%s.cfg" % cfg, workers=1, timeout=300, heap="2g", expect_violated=exp, count=False)


def local_judge(v, r):
    """The property predicate on one replayed pipeline: (kind, text) or None. kind: count | mismatch | lost."""
    vals = r.get("vals") or []
    n = r["n"]
    want = r["want"]
    probes = [i for i, w in enumerate(want) if w == ""]
    shown = "sent %s, received %s" % (r.get("sent"), r.get("raw"))
    if r.get("garbage"):
        return "count", "after %d value(s) the reply stream is not RESP any more: %s; %s" % (len(vals), r["garbage"], shown)
    if len(vals) > n or (len(vals) == n and r.get("rest")):
        return "count", "%d requests, %d replies%s; %s" % (n, len(vals), " and more bytes" if r.get("rest") else "", shown)
    for i, (w, x) in enumerate(zip(want, vals)):
        if w and w != x:
            kind = "count" if x in want[i + 1:] or x in want[:i] else "mismatch"
            return kind, "request %d of %d (%s) was answered with %s, its own reply is %s; %s" % (i + 1, n, v["reqs"][i]["kind"], x, w, shown)
    if len(vals) < n:
        if r.get("closed") and v.get("mayclose") and probes and len(vals) > probes[-1]:
            return None     # QUIT was answered and the connection closed: allowed
        return "lost", "%d requests, %d replies (%s); %s" % (n, len(vals), "connection closed" if r.get("closed") else "none within the deadline", shown)
    return None


def local_replay(ctx, vecs, tag):
    vfile = os.path.join(ctx.work, "local-%s.ndjson" % tag)
    rfile = os.path.join(ctx.work, "local-%s-results.ndjson" % tag)
    kit.write_ndjson(vfile, vecs)
    ctx.harness(["c01-local", "-in", vfile, "-out", rfile, "-workers", "4"], timeout=1500)
    res = {r["id"]: r for r in kit.read_ndjson(rfile)}
    return [(v, res.get(i + 1)) for i, v in enumerate(vecs)]


def local_replies(ctx):
    r = ctx.mc("redis", "LocalReply", "MC_LocalReply_%s.cfg" % ("thorough" if ctx.thorough else "quick"), workers=2, timeout=1500, heap="3g")
    vecs = [p for (tag, p) in r.prints if tag == "VEC"]
    # CR LF first: the plainest evidence leads the list of violations of a signature
    vecs.sort(key=lambda v: (v["ctx"], not v["payload"].startswith("crlf"), v["payload"], v["proxy"], v["form"], v["pre"]))
    have = {(v["ctx"], v["payload"]) for v in vecs if v["form"] == "array"}
    missing = [(s, p) for s in LOCAL_STRATA for p in LOCAL_PAYLOADS if not any(c.startswith(s) and q == p for (c, q) in have)]
    if missing or len(vecs) < 1000:
        raise kit.Inconclusive("LocalReply.tla emitted %d vectors, mandatory strata missing: %s" % (len(vecs), missing))
    pairs = local_replay(ctx, vecs, "vectors")
    bad = ran = diverge = 0
    suspects = []
    seen = set()
    for v, res in pairs:
        if res is None or res.get("err"):
            bad += 1
            ctx.notes.append("local %s/%s: %s" % (v["ctx"], v["payload"], "no result" if res is None else res["err"]))
            continue
        if res.get("short") and res.get("timeout"):
            continue    # read with the shortened deadline: not a verdict
        if v["stored"] and not res.get("storedSeen"):
            ctx.notes.append("local %s/%s: the stored bytes did not show up in the summary before the pipeline" % (v["ctx"], v["payload"]))
        ran += 1
        seen.add((v["ctx"], v["payload"]))
        ctx.case(key=["local", v["ctx"], v["proxy"], v["payload"], v["form"], v["pre"]], nontrivial=v["payload"] != "plain")
        verdict = local_judge(v, res)
        if verdict is None:
            ctx.cov["traces_validated_against_impl"] += 1
            vals = res.get("vals") or []
            for i, (who, first) in enumerate(zip(v["who"], v["first"])):
                if who != "node" and i < len(vals) and vals[i][:1] != first:
                    diverge += 1
                    if diverge <= 5:
                        ctx.notes.append("LocalReply.tla describes the reply of %s %s as '%s', the code answered %s" % (v["ctx"], v["payload"], first, vals[i][:60]))
            continue
        kind, what = verdict
        if kind == "lost":
            suspects.append(v)      # timing / connection based: confirmed by a second run below
            continue
        local_violation(ctx, v, res, kind, what)
    # fewer replies than requests: the same pipelines once more, alone
    if suspects:
        for v, res in local_replay(ctx, suspects[:40], "confirm"):
            if res is None or res.get("err"):
                bad += 1
                continue
            verdict = local_judge(v, res)
            if verdict is not None:
                local_violation(ctx, v, res, "count" if verdict[0] == "lost" else verdict[0], verdict[1] + " (twice)")
            else:
                ctx.notes.append("local %s/%s: fewer replies than requests once, not when run again" % (v["ctx"], v["payload"]))
    ctx.cov["local_replies"] = {"vectors": len(vecs), "replayed": ran, "driver_errors": bad, "model_divergences": diverge,
                                "contexts": len({v["ctx"] for v in vecs}), "payload_classes": len({v["payload"] for v in vecs})}
    if pairs:
        ctx.sample({"local_reply_vector": pairs[len(pairs) // 2][0], "result": pairs[len(pairs) // 2][1]})
    unseen = [(s, p) for s in LOCAL_STRATA for p in LOCAL_PAYLOADS if not any(c.startswith(s) and q == p for (c, q) in seen)]
    if not ctx.violations and (bad > len(vecs) * 0.02 or unseen):
        raise kit.Inconclusive("c01-local unhealthy: %d vectors, %d replayed, %d driver errors, strata not exercised: %s" % (len(vecs), ran, bad, unseen[:6]))


def local_violation(ctx, v, res, kind, what):
    sig = ("reply-count/" if kind == "count" else "reply-mismatch/") + v["ctx"]
    ctx.violation(sig, "%s, payload class %s, %s form, %s processor, %d forwarded request(s) ahead: %s"
                  % (v["ctx"], v["payload"], v["form"], v["proxy"], v["pre"], what), {"vector": v, "result": res})
