package main

import (
	_ "verifharness/cases/c17"
	"verifharness/internal/cli"
)

func main() { cli.Main() }
