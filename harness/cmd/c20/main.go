package main

import (
	_ "verifharness/cases/c20"
	"verifharness/internal/cli"
)

func main() { cli.Main() }
