package main

import (
	_ "verifharness/cases/c01"
	"verifharness/internal/cli"
)

func main() { cli.Main() }
