package main

import (
	_ "verifharness/cases"
	"verifharness/internal/cli"
)

func main() { cli.Main() }
