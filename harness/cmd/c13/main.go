package main

import (
	_ "verifharness/cases/c13"
	"verifharness/internal/cli"
)

func main() { cli.Main() }
