package main

import (
	_ "verifharness/cases/c06"
	"verifharness/internal/cli"
)

func main() { cli.Main() }
