package main

import (
	_ "verifharness/cases/c05"
	"verifharness/internal/cli"
)

func main() {
	cli.Main()
}
