package main

import (
	_ "verifharness/cases/c02"
	"verifharness/internal/cli"
	"verifharness/internal/pipe"
)

func main() {
	pipe.Register()
	cli.Main()
}
