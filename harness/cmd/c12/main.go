package main

import (
	_ "verifharness/cases/c12"
	"verifharness/internal/cli"
)

func main() { cli.Main() }
