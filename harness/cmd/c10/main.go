package main

import (
	_ "verifharness/cases/c10"
	"verifharness/internal/cli"
)

func main() { cli.Main() }
