package main

import (
	_ "verifharness/cases/c11"
	"verifharness/internal/cli"
)

func main() { cli.Main() }
