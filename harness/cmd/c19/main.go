package main

import (
	_ "verifharness/cases/c19"
	"verifharness/internal/cli"
)

func main() { cli.Main() }
