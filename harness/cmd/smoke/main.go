package main

import (
	_ "verifharness/cases/smoke"
	"verifharness/internal/cli"
)

func main() { cli.Main() }
