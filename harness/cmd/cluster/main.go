package main

import (
	_ "verifharness/cases/cluster"
	"verifharness/internal/cli"
)

func main() { cli.Main() }
