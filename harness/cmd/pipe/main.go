package main

import (
	"verifharness/internal/cli"
	"verifharness/internal/pipe"
)

func main() {
	pipe.Register()
	cli.Main()
}
