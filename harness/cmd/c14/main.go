package main

import (
	_ "verifharness/cases/c14"
	"verifharness/internal/cli"
)

func main() { cli.Main() }
