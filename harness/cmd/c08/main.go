package main

import (
	_ "verifharness/cases/c08"
	"verifharness/internal/cli"
)

func main() {
	cli.Main()
}
