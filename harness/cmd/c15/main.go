package main

import (
	_ "verifharness/cases/c15"
	"verifharness/internal/cli"
)

func main() { cli.Main() }
