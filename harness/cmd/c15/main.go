package main

import (
	_ "verifharness/cases/c06" // c15-hc-e2e: the end-to-end fixture (scripted backends, held probes) lives there
	_ "verifharness/cases/c15"
	"verifharness/internal/cli"
)

func main() { cli.Main() }
