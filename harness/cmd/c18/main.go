package main

import (
	_ "verifharness/cases/c18"
	"verifharness/internal/cli"
)

func main() { cli.Main() }
