package main

import (
	_ "verifharness/cases/c09"
	"verifharness/internal/cli"
)

func main() {
	cli.Main()
}
