package main

import (
	_ "verifharness/cases/c07"
	"verifharness/internal/cli"
)

func main() { cli.Main() }
