package main

import (
	_ "verifharness/cases/c16"
	"verifharness/internal/cli"
)

func main() {
	cli.Main()
}
