package pipe

import (
	"bytes"
	"encoding/json"
	"flag"
	"fmt"
	"math/rand"
	"strings"
	"sync"
	"time"

	"github.com/samaritan-proxy/samaritan/host"

	"verifharness/internal/cli"
	"verifharness/internal/resp"
	"verifharness/internal/sched"
	"verifharness/internal/simredis"
	"verifharness/internal/sut"
)

// Register adds the pipe-run sub-command.
func Register() { cli.Register("pipe-run", pipeRun) }

// pipeEvent is one boundary event of the recorded trace (PipelineObsTrace.tla).
type pipeEvent struct {
	Ev   string `json:"ev"`
	C    int    `json:"c"`
	K    int    `json:"k,omitempty"`
	Kind string `json:"kind,omitempty"`
	TC   int    `json:"tc"`
	TK   int    `json:"tk"`
	Cls  string `json:"cls,omitempty"`
}

type pipeMismatch struct {
	C    int    `json:"c"`
	K    int    `json:"k"`
	Kind string `json:"kind"`
	Got  string `json:"got"`
	Want string `json:"want"`
	Why  string `json:"why"`
}

type pipeResult struct {
	Run            int              `json:"run"`
	Seed           int64            `json:"seed"`
	Conns          int              `json:"conns"`
	Sent           int              `json:"sent"`
	Received       int              `json:"received"`
	Errors         int              `json:"errors"` // error replies (allowed only with faults)
	Closed         int              `json:"closed"` // connections closed by the proxy before all replies arrived
	Mismatches     []pipeMismatch   `json:"mismatches"`
	Lost           []pipeMismatch   `json:"lost"`
	Extra          []pipeMismatch   `json:"extra"`
	Faults         []string         `json:"faults"`
	Stats          map[string]int64 `json:"stats"`
	StatsAfterStop map[string]int64 `json:"statsAfterStop,omitempty"`
	StopOpen       bool             `json:"stopOpen"`
	StopOK         bool             `json:"stopOK"`
	Redirects      int64            `json:"redirects"`
	Events         int              `json:"events"`
	Err            string           `json:"err,omitempty"`
}

type pipeReq struct {
	kind string
	args [][]byte
	want resp.Value
}

func pipeKey(c, k, j int) string { return fmt.Sprintf("c%dk%dj%d", c, k, j) }
func pipeVal(c, k, j int) string { return fmt.Sprintf("v:%d:%d:%d", c, k, j) }

// parseTag extracts (conn, idx) from a value "v:c:k:j".
func parseTag(b []byte) (int, int, bool) {
	var c, k, j int
	if n, _ := fmt.Sscanf(string(b), "v:%d:%d:%d", &c, &k, &j); n == 3 {
		return c, k, true
	}
	return 0, 0, false
}

func b(s string) []byte { return []byte(s) }

// inlineSafe: the request can be written as an inline command (space separated words)
func inlineSafe(args [][]byte) bool {
	for i, a := range args {
		if len(a) == 0 || bytes.ContainsAny(a, " \r\n\t\"'") {
			return false
		}
		if i == 0 && bytes.IndexByte([]byte("+-:$*"), a[0]) >= 0 {
			return false
		}
	}
	return len(args) > 0
}

func genReq(rnd *rand.Rand, c, k int) pipeReq {
	switch x := rnd.Intn(20); {
	case x < 7:
		return pipeReq{"get", [][]byte{b("GET"), b(pipeKey(c, k, 0))}, resp.BulkS(pipeVal(c, k, 0))}
	case x < 11:
		n := 2 + rnd.Intn(3)
		args := [][]byte{b("mget")}
		var want []resp.Value
		for j := 0; j < n; j++ {
			args = append(args, b(pipeKey(c, k, j)))
			want = append(want, resp.BulkS(pipeVal(c, k, j)))
		}
		return pipeReq{"mget", args, resp.Arr(want...)}
	case x < 13:
		return pipeReq{"set", [][]byte{b("set"), b(pipeKey(c, k, 9)), b("w" + pipeVal(c, k, 9))}, resp.Simple("OK")}
	case x < 14:
		return pipeReq{"mset", [][]byte{b("MSET"), b(pipeKey(c, k, 7)), b("x"), b(pipeKey(c, k, 8)), b("y")}, resp.Simple("OK")}
	case x < 16:
		return pipeReq{"exists", [][]byte{b("exists"), b(pipeKey(c, k, 0)), b(pipeKey(c, k, 1)), b("nokey" + pipeKey(c, k, 0))}, resp.Int(2)}
	case x < 17:
		return pipeReq{"del", [][]byte{b("del"), b("absent" + pipeKey(c, k, 0)), b("absent" + pipeKey(c, k, 1))}, resp.Int(0)}
	case x < 18:
		return pipeReq{"ping", [][]byte{b("PING")}, resp.Simple("PONG")}
	case x < 19:
		return pipeReq{"unsupported", [][]byte{b("KEYS"), b("*")}, resp.Err("ERR unsupported command 'KEYS'")}
	default:
		return pipeReq{"get", [][]byte{b("get"), b(pipeKey(c, k, 1))}, resp.BulkS(pipeVal(c, k, 1))}
	}
}

// classify maps a reply to (tc, tk, cls) for the observational spec.
func classify(v resp.Value) (int, int, string) {
	switch v.Kind {
	case '-':
		return 0, 0, "err"
	case '+':
		if string(v.Str) == "PONG" {
			return 0, 0, "pong"
		}
		return 0, 0, "ok"
	case ':':
		return 0, 0, "int"
	case '$':
		if c, k, ok := parseTag(v.Str); ok {
			return c, k, "val"
		}
		return 0, 0, "val"
	case '*':
		tc, tk := 0, 0
		cls := "vals"
		for _, e := range v.Arr {
			if e.Kind == '-' {
				cls = "vals_with_err"
				continue
			}
			if c, k, ok := parseTag(e.Str); ok {
				if tc == 0 {
					tc, tk = c, k
				} else if tc != c || tk != k {
					return -1, -1, "vals" // elements of different requests: never allowed
				}
			}
		}
		return tc, tk, cls
	}
	return 0, 0, "other"
}

type pipeOpts struct {
	conns, reqs, masters int
	seed                 int64
	faults, perturb      bool
	gate, fragment       bool
	connLimit            int
	stopOpen             bool // stop the service while the client connections are still open
}

func runPipelineOnce(run int, o pipeOpts, traceW *cli.NDJSONWriter) (res pipeResult) {
	res = pipeResult{Run: run, Seed: o.seed, Conns: o.conns}
	rnd := rand.New(rand.NewSource(o.seed))
	cl, err := simredis.NewCluster(o.masters, 0)
	if err != nil {
		res.Err = err.Error()
		return
	}
	defer cl.Close()
	// plans
	base := run * 1000
	plans := map[int][]pipeReq{}
	for c := base + 1; c <= base+o.conns; c++ {
		n := 1 + rnd.Intn(o.reqs)
		for k := 1; k <= n; k++ {
			plans[c] = append(plans[c], genReq(rnd, c, k))
			for j := 0; j < 5; j++ {
				cl.Preload(pipeKey(c, k, j), []byte(pipeVal(c, k, j)))
			}
		}
		// sentinel: the reply after the last request's reply must be PONG
		plans[c] = append(plans[c], pipeReq{"ping", [][]byte{b("ping")}, resp.Simple("PONG")})
	}
	var sc *sched.Sched
	if o.perturb {
		sc = sched.New(nil)
		sc.Perturb(o.seed, 0.2, 300*time.Microsecond, func(p string) bool {
			return strings.HasPrefix(p, "client.") || strings.HasPrefix(p, "session.")
		})
		sc.Install()
		defer sc.Uninstall()
	}
	px, err := sut.StartRedis(sut.RedisOpts{ConnLimit: uint32(o.connLimit)}, cl.Addrs())
	if err != nil {
		res.Err = "start: " + err.Error()
		return
	}
	if !sut.WaitRefresh(px.Name, 3*time.Second) {
		res.Err = "slot table not loaded"
		return
	}

	if o.faults {
		// the table is loaded: now some slots that hold request keys change their owner, so that the first requests
		// for them are redirected (MOVED) and trigger a refresh
		for i := 0; i < 3; i++ {
			c := base + 1 + rnd.Intn(o.conns)
			key := pipeKey(c, 1+rnd.Intn(len(plans[c])), rnd.Intn(3))
			slot := simredis.Slot([]byte(key))
			cl.MoveSlot(slot, (cl.Owner(slot)+1)%len(cl.Nodes))
			res.Faults = append(res.Faults, fmt.Sprintf("moveslot-before-traffic:%d", slot))
		}
	}
	var tmu sync.Mutex
	emit := func(e pipeEvent) {
		tmu.Lock()
		res.Events++
		if traceW != nil {
			traceW.Write(e)
		}
		tmu.Unlock()
	}
	var rmu sync.Mutex
	var wg sync.WaitGroup
	var openConns []*sut.Client
	stopFaults := make(chan struct{})
	var faultWg sync.WaitGroup

	if o.gate {
		// replies of different nodes are released in random order and with random delays
		for _, n := range cl.Nodes {
			n.SetGate(true)
		}
		faultWg.Add(1)
		go func() {
			defer faultWg.Done()
			r2 := rand.New(rand.NewSource(o.seed + 7))
			for {
				select {
				case <-stopFaults:
					for _, n := range cl.Nodes {
						n.SetGate(false)
					}
					return
				default:
				}
				n := cl.Nodes[r2.Intn(len(cl.Nodes))]
				if n.Release(1+r2.Intn(3)) == 0 {
					time.Sleep(50 * time.Microsecond)
				}
			}
		}()
	}
	if o.faults {
		faultWg.Add(1)
		go func() {
			defer faultWg.Done()
			r2 := rand.New(rand.NewSource(o.seed + 13))
			for {
				select {
				case <-stopFaults:
					return
				case <-time.After(time.Duration(1+r2.Intn(15)) * time.Millisecond):
				}
				n := cl.Nodes[r2.Intn(len(cl.Nodes))]
				var f string
				switch r2.Intn(7) {
				case 6:
					// layout change: a slot that holds request keys moves to another master (with its data);
					// requests routed by the stale table are redirected until the next refresh
					c := base + 1 + r2.Intn(o.conns)
					key := pipeKey(c, 1+r2.Intn(len(plans[c])), r2.Intn(3))
					slot := simredis.Slot([]byte(key))
					dst := (cl.Owner(slot) + 1) % len(cl.Nodes)
					f = fmt.Sprintf("moveslot:%d->%d", slot, dst)
					cl.MoveSlot(slot, dst)
				case 0:
					f = "reset:" + n.Addr
					n.ResetConns(true)
				case 1:
					f = "fin:" + n.Addr
					n.ResetConns(false)
				case 2:
					f = "restart:" + n.Addr
					n.Shutdown()
					time.Sleep(time.Duration(r2.Intn(5)) * time.Millisecond)
					n.Restart()
				case 3:
					f = "remove+add:" + n.Addr
					px.P.OnSvcHostRemove([]*host.Host{host.New(n.Addr)})
					time.Sleep(time.Duration(r2.Intn(3)) * time.Millisecond)
					px.P.OnSvcHostAdd([]*host.Host{host.New(n.Addr)})
				case 4:
					f = "replace-all"
					var hs []*host.Host
					for _, a := range cl.Addrs() {
						hs = append(hs, host.New(a))
					}
					px.P.OnSvcAllHostReplace(hs)
				case 5:
					f = "silent:" + n.Addr
					n.SetSilent(true)
					time.Sleep(time.Duration(1+r2.Intn(5)) * time.Millisecond)
					n.SetSilent(false)
					n.ResetConns(true) // swallowed commands are never answered: break the connection
				}
				rmu.Lock()
				res.Faults = append(res.Faults, f)
				rmu.Unlock()
			}
		}()
	}

	for c := base + 1; c <= base+o.conns; c++ {
		wg.Add(1)
		go func(c int) {
			defer wg.Done()
			r3 := rand.New(rand.NewSource(o.seed*1000 + int64(c)))
			cn, err := sut.Dial(px.Addr)
			if err != nil {
				rmu.Lock()
				res.Err = "dial: " + err.Error()
				rmu.Unlock()
				return
			}
			if o.stopOpen {
				rmu.Lock()
				openConns = append(openConns, cn)
				rmu.Unlock()
			} else {
				defer cn.Close()
			}
			plan := plans[c]
			// writer
			wdone := make(chan struct{})
			go func() {
				defer close(wdone)
				for k, rq := range plan {
					emit(pipeEvent{Ev: "send", C: c, K: k + 1, Kind: rq.kind})
					raw := resp.Bytes(resp.CmdB(rq.args...))
					if inlineSafe(rq.args) && r3.Intn(3) == 0 {
						// the inline form must be treated exactly like its array form
						raw = append(bytes.Join(rq.args, []byte(" ")), '\r', '\n')
					}
					if o.fragment {
						for len(raw) > 0 {
							n := 1 + r3.Intn(len(raw))
							if r3.Intn(3) == 0 && n > 3 {
								n = 1 + r3.Intn(3)
							}
							if cn.Send(raw[:n]) != nil {
								return
							}
							raw = raw[n:]
							if r3.Intn(4) == 0 {
								time.Sleep(time.Duration(r3.Intn(200)) * time.Microsecond)
							}
						}
					} else if cn.Send(raw) != nil {
						return
					}
					if r3.Intn(10) == 0 {
						time.Sleep(time.Duration(r3.Intn(500)) * time.Microsecond)
					}
				}
			}()
			// reader
			got := 0
			closed := false
			for k, rq := range plan {
				v, err := cn.Recv(6 * time.Second)
				if err != nil {
					rmu.Lock()
					if strings.Contains(err.Error(), "timeout") {
						res.Lost = append(res.Lost, pipeMismatch{C: c, K: k + 1, Kind: rq.kind, Why: "no reply: " + err.Error()})
					} else {
						// the proxy closed the connection (e.g. connection limit): nothing is owed on a closed connection
						res.Closed++
						closed = true
					}
					rmu.Unlock()
					break
				}
				got++
				tc, tk, cls := classify(v)
				emit(pipeEvent{Ev: "recv", C: c, TC: tc, TK: tk, Cls: cls})
				okReply := resp.Equal(v, rq.want)
				isErr := v.IsErr() || cls == "vals_with_err"
				rmu.Lock()
				res.Received++
				if isErr && rq.kind != "unsupported" {
					res.Errors++
				}
				if !okReply && !(o.faults && isErr && rq.kind != "ping") {
					res.Mismatches = append(res.Mismatches, pipeMismatch{C: c, K: k + 1, Kind: rq.kind, Got: v.String(), Want: rq.want.String(), Why: "k-th reply is not the result of the k-th request"})
				}
				rmu.Unlock()
			}
			<-wdone
			if got == len(plan) {
				// nothing more may arrive
				if v, err := cn.Recv(20 * time.Millisecond); err == nil {
					rmu.Lock()
					res.Extra = append(res.Extra, pipeMismatch{C: c, K: got + 1, Got: v.String(), Why: "more replies than requests"})
					rmu.Unlock()
					emit(pipeEvent{Ev: "recv", C: c, Cls: "extra"})
				}
			}
			if !closed {
				emit(pipeEvent{Ev: "end", C: c})
			}
			rmu.Lock()
			res.Sent += len(plan)
			rmu.Unlock()
		}(c)
	}
	wg.Wait()
	close(stopFaults)
	faultWg.Wait()
	res.Redirects = cl.Redirects
	// quiescence, then statistics and stop
	time.Sleep(20 * time.Millisecond)
	dl := time.Now().Add(2 * time.Second)
	for time.Now().Before(dl) {
		st := sut.ServiceStats(px.Name)
		if (o.stopOpen || st["downstream.cx_active"] == 0) && st["downstream.rq_total"] == st["downstream.rq_success_total"]+st["downstream.rq_failure_total"] {
			break
		}
		time.Sleep(5 * time.Millisecond)
	}
	res.Stats = sut.ServiceStats(px.Name)
	res.StopOpen = o.stopOpen
	res.StopOK = sut.StopWithin(px.P, 5*time.Second)
	if o.stopOpen {
		time.Sleep(20 * time.Millisecond)
		res.StatsAfterStop = sut.ServiceStats(px.Name)
		for _, cn := range openConns {
			cn.Close()
		}
	}
	return
}

func pipeRun(args []string) error {
	fs := flag.NewFlagSet("pipe-run", flag.ContinueOnError)
	runs := fs.Int("runs", 10, "number of runs")
	conns := fs.Int("conns", 4, "max connections per run")
	reqs := fs.Int("reqs", 30, "max requests per connection")
	masters := fs.Int("masters", 3, "masters")
	faults := fs.Bool("faults", false, "inject backend faults")
	perturb := fs.Bool("perturb", false, "random yields at hook points")
	gate := fs.Bool("gate", false, "random reply pacing across nodes")
	fragment := fs.Bool("fragment", false, "random fragmentation of request bytes")
	out := fs.String("out", "", "result file (ndjson)")
	traceFile := fs.String("trace", "", "boundary trace of all runs (ndjson; connection ids are run*1000+c)")
	stopOpen := fs.Bool("stopopen", false, "every second run stops the service while the client connections are still open")
	if err := fs.Parse(args); err != nil {
		return err
	}
	sut.FastRefresh()
	w, err := cli.NewNDJSONWriter(*out)
	if err != nil {
		return err
	}
	defer w.Close()
	seed := cli.Seed()
	rnd := rand.New(rand.NewSource(seed))
	var tw *cli.NDJSONWriter
	if *traceFile != "" {
		tw, err = cli.NewNDJSONWriter(*traceFile)
		if err != nil {
			return err
		}
		defer tw.Close()
	}
	for i := 1; i <= *runs; i++ {
		o := pipeOpts{conns: 1 + rnd.Intn(*conns), reqs: *reqs, masters: *masters, seed: seed*100000 + int64(i),
			faults: *faults, perturb: *perturb, gate: *gate && rnd.Intn(3) > 0, fragment: *fragment && rnd.Intn(2) == 0,
			stopOpen: *stopOpen && i%2 == 0}
		if *stopOpen && i%3 == 0 {
			o.connLimit = 1 + rnd.Intn(2) // connection-limit rejections are part of the history
		}
		res := runPipelineOnce(i, o, tw)
		if err := w.Write(res); err != nil {
			return err
		}
	}
	_ = json.Marshal
	return nil
}
