// Package sut starts the system under test (processors of the real samaritan
// code) through its public API.
package sut

import (
	"fmt"
	"net"
	"os"
	"strconv"
	"strings"
	"sync/atomic"
	"time"

	"github.com/samaritan-proxy/samaritan/host"
	"github.com/samaritan-proxy/samaritan/logger"
	"github.com/samaritan-proxy/samaritan/pb/common"
	"github.com/samaritan-proxy/samaritan/pb/config/protocol"
	pbredis "github.com/samaritan-proxy/samaritan/pb/config/protocol/redis"
	"github.com/samaritan-proxy/samaritan/pb/config/service"
	"github.com/samaritan-proxy/samaritan/proc"
	_ "github.com/samaritan-proxy/samaritan/proc/redis"
	predis "github.com/samaritan-proxy/samaritan/proc/redis"
	_ "github.com/samaritan-proxy/samaritan/proc/tcp"
	"github.com/samaritan-proxy/samaritan/stats"

	"verifharness/internal/resp"
)

var svcSeq int64

func init() {
	// keep the processors' logs out of the harness output
	if os.Getenv("VERIF_SUT_LOG") == "" {
		logger.SetLevel("FATAL")
	}
}

// UniqueName returns a fresh service name (stats are keyed by service name).
func UniqueName(prefix string) string {
	return fmt.Sprintf("%s_%d_%d", prefix, os.Getpid(), atomic.AddInt64(&svcSeq, 1))
}

// RedisOpts configures a Redis processor.
type RedisOpts struct {
	Name         string
	Port         int
	ReadStrategy pbredis.ReadStrategy
	Compression  *pbredis.Compression
	ConnLimit    uint32
	ConnectTO    time.Duration
}

// RedisConfig builds the service config.
func RedisConfig(o RedisOpts) *service.Config {
	to := o.ConnectTO
	if to == 0 {
		to = time.Second
	}
	cfg := &service.Config{
		Listener: &service.Listener{
			Address:         &common.Address{Ip: "127.0.0.1", Port: uint32(o.Port)},
			ConnectionLimit: o.ConnLimit,
		},
		ConnectTimeout: &to,
		Protocol:       protocol.Redis,
		ProtocolOptions: &service.Config_RedisOption{RedisOption: &protocol.RedisOption{
			ReadStrategy: o.ReadStrategy,
			Compression:  o.Compression,
		}},
	}
	return cfg
}

// Redis is a running Redis processor.
type Redis struct {
	P    proc.Proc
	Name string
	Addr string
	Cfg  *service.Config
}

// FastRefresh shortens the slot refresh timers (verif setter).
func FastRefresh() {
	predis.VerifSetSlotsRefreshTimers(200*time.Millisecond, 5*time.Millisecond)
}

// StartRedis starts a Redis processor with the given seed hosts.
func StartRedis(o RedisOpts, seeds []string) (*Redis, error) {
	if o.Name == "" {
		o.Name = UniqueName("redis")
	}
	if o.Port == 0 {
		o.Port = FreePort()
	}
	cfg := RedisConfig(o)
	hosts := make([]*host.Host, 0, len(seeds))
	for _, s := range seeds {
		hosts = append(hosts, host.New(s))
	}
	p, err := proc.New(o.Name, cfg, hosts)
	if err != nil {
		return nil, err
	}
	if err := p.Start(); err != nil {
		return nil, err
	}
	r := &Redis{P: p, Name: o.Name, Addr: fmt.Sprintf("127.0.0.1:%d", o.Port), Cfg: cfg}
	if !WaitListening(r.Addr, 5*time.Second) {
		return nil, fmt.Errorf("processor did not start listening on %s", r.Addr)
	}
	return r, nil
}

// WaitListening waits until addr accepts connections.
func WaitListening(addr string, d time.Duration) bool {
	dl := time.Now().Add(d)
	for time.Now().Before(dl) {
		c, err := net.DialTimeout("tcp", addr, 200*time.Millisecond)
		if err == nil {
			c.Close()
			return true
		}
		time.Sleep(2 * time.Millisecond)
	}
	return false
}

// StopWithin calls Stop and reports whether it returned within d.
func StopWithin(p proc.Proc, d time.Duration) bool {
	done := make(chan struct{})
	go func() {
		p.Stop()
		close(done)
	}()
	select {
	case <-done:
		return true
	case <-time.After(d):
		return false
	}
}

// Client is a scripted downstream client.
type Client struct {
	C  net.Conn
	R  *resp.Reader
	ID int
}

// Dial connects to the proxy.
func Dial(addr string) (*Client, error) {
	c, err := net.DialTimeout("tcp", addr, 2*time.Second)
	if err != nil {
		return nil, err
	}
	return &Client{C: c, R: resp.NewReader(c)}, nil
}

func (c *Client) Close() { c.C.Close() }

// Send writes raw bytes.
func (c *Client) Send(b []byte) error {
	c.C.SetWriteDeadline(time.Now().Add(10 * time.Second))
	_, err := c.C.Write(b)
	return err
}

// SendCmd writes one command.
func (c *Client) SendCmd(args ...string) error { return c.Send(resp.Bytes(resp.Cmd(args...))) }

// Recv reads one reply within d.
func (c *Client) Recv(d time.Duration) (resp.Value, error) {
	c.C.SetReadDeadline(time.Now().Add(d))
	return c.R.Read()
}

// Do sends a command and waits for its reply.
func (c *Client) Do(d time.Duration, args ...string) (resp.Value, error) {
	if err := c.SendCmd(args...); err != nil {
		return resp.Value{}, err
	}
	return c.Recv(d)
}

// DoB is Do with binary arguments.
func (c *Client) DoB(d time.Duration, args ...[]byte) (resp.Value, error) {
	if err := c.Send(resp.Bytes(resp.CmdB(args...))); err != nil {
		return resp.Value{}, err
	}
	return c.Recv(d)
}

// ServiceStats returns counters and gauges of a service as name -> value with
// the "service.<name>." prefix removed.
func ServiceStats(name string) map[string]int64 {
	prefix := "service." + strings.Replace(name, ".", "_", -1) + "."
	out := map[string]int64{}
	for _, c := range stats.Counters() {
		if strings.HasPrefix(c.Name(), prefix) {
			out[strings.TrimPrefix(c.Name(), prefix)] = int64(c.Value())
		}
	}
	for _, g := range stats.Gauges() {
		if strings.HasPrefix(g.Name(), prefix) {
			out[strings.TrimPrefix(g.Name(), prefix)] = int64(g.Value())
		}
	}
	return out
}

// Itoa is a tiny helper.
func Itoa(i int) string { return strconv.Itoa(i) }

// WaitRefresh waits until the Redis processor has loaded its slot table once.
func WaitRefresh(name string, d time.Duration) bool {
	dl := time.Now().Add(d)
	for time.Now().Before(dl) {
		if ServiceStats(name)["upstream.slots_refresh.success_total"] >= 1 {
			return true
		}
		time.Sleep(time.Millisecond)
	}
	return false
}
