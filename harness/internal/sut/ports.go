package sut

import "verifharness/internal/ports"

// FreePort returns a TCP port on 127.0.0.1 that no other harness process will hand out
// (see package ports).
func FreePort() int { return ports.Free() }
