// Package sched installs a verifhook function that (a) records events per
// goroutine role and (b) gates goroutines at named points so that a TLC
// behaviour can be forced on the real goroutines.
package sched

import (
	"math/rand"
	"runtime"
	"sync"
	"time"

	"github.com/samaritan-proxy/samaritan/utils/verifhook"
)

// Event is one hook call.
type Event struct {
	Seq   int64
	Point string
	A, B  interface{}
}

// Filter decides whether an event is relevant and maps it to a gate key.
// It returns "" for events that are not gated.
type KeyFunc func(point string, a, b interface{}) string

// Sched is a hook scheduler.
type Sched struct {
	mu      sync.Mutex
	seq     int64
	events  []Event
	record  bool
	keyFn   KeyFunc
	gated   map[string]bool            // keys that park
	parked  map[string][]chan struct{} // goroutines parked per key
	arrived map[string]int             // total arrivals per key
	cond    *sync.Cond

	// random perturbation mode
	rnd      *rand.Rand
	yieldP   float64
	maxSleep time.Duration
	perturb  func(point string) bool
}

// New creates a scheduler. keyFn may be nil (no gating).
func New(keyFn KeyFunc) *Sched {
	s := &Sched{keyFn: keyFn, gated: map[string]bool{}, parked: map[string][]chan struct{}{}, arrived: map[string]int{}}
	s.cond = sync.NewCond(&s.mu)
	return s
}

// Install makes s the active hook.
func (s *Sched) Install() { verifhook.Set(s.hook) }

// Uninstall removes the hook and releases everything.
func (s *Sched) Uninstall() {
	verifhook.Set(nil)
	s.ReleaseAll()
}

// Record switches event recording on/off.
func (s *Sched) Record(on bool) {
	s.mu.Lock()
	s.record = on
	s.mu.Unlock()
}

// Perturb enables random yields/sleeps at hook points selected by sel.
func (s *Sched) Perturb(seed int64, p float64, maxSleep time.Duration, sel func(point string) bool) {
	s.mu.Lock()
	s.rnd = rand.New(rand.NewSource(seed))
	s.yieldP = p
	s.maxSleep = maxSleep
	s.perturb = sel
	s.mu.Unlock()
}

func (s *Sched) hook(point string, a, b interface{}) {
	s.mu.Lock()
	s.seq++
	if s.record {
		s.events = append(s.events, Event{Seq: s.seq, Point: point, A: a, B: b})
	}
	var sleep time.Duration
	yield := false
	if s.rnd != nil && (s.perturb == nil || s.perturb(point)) {
		if s.rnd.Float64() < s.yieldP {
			if s.maxSleep > 0 && s.rnd.Intn(2) == 0 {
				sleep = time.Duration(s.rnd.Int63n(int64(s.maxSleep)))
			} else {
				yield = true
			}
		}
	}
	key := ""
	if s.keyFn != nil {
		key = s.keyFn(point, a, b)
	}
	if key == "" || !s.gated[key] {
		if key != "" {
			s.arrived[key]++
			s.cond.Broadcast()
		}
		s.mu.Unlock()
		if sleep > 0 {
			time.Sleep(sleep)
		} else if yield {
			runtime.Gosched()
		}
		return
	}
	ch := make(chan struct{})
	s.parked[key] = append(s.parked[key], ch)
	s.arrived[key]++
	s.cond.Broadcast()
	s.mu.Unlock()
	<-ch
}

// Gate makes goroutines arriving at key park.
func (s *Sched) Gate(keys ...string) {
	s.mu.Lock()
	for _, k := range keys {
		s.gated[k] = true
	}
	s.mu.Unlock()
}

// Ungate stops parking at key and releases goroutines parked there.
func (s *Sched) Ungate(keys ...string) {
	s.mu.Lock()
	for _, k := range keys {
		delete(s.gated, k)
		for _, ch := range s.parked[k] {
			close(ch)
		}
		delete(s.parked, k)
	}
	s.mu.Unlock()
}

// WaitParked waits until a goroutine is parked at key.
func (s *Sched) WaitParked(key string, d time.Duration) bool {
	dl := time.Now().Add(d)
	s.mu.Lock()
	defer s.mu.Unlock()
	for len(s.parked[key]) == 0 {
		if time.Now().After(dl) {
			return false
		}
		s.mu.Unlock()
		time.Sleep(100 * time.Microsecond)
		s.mu.Lock()
	}
	return true
}

// WaitArrived waits until key has been reached n times in total.
func (s *Sched) WaitArrived(key string, n int, d time.Duration) bool {
	dl := time.Now().Add(d)
	s.mu.Lock()
	defer s.mu.Unlock()
	for s.arrived[key] < n {
		if time.Now().After(dl) {
			return false
		}
		s.mu.Unlock()
		time.Sleep(100 * time.Microsecond)
		s.mu.Lock()
	}
	return true
}

// Arrived returns the number of arrivals at key.
func (s *Sched) Arrived(key string) int {
	s.mu.Lock()
	defer s.mu.Unlock()
	return s.arrived[key]
}

// Release lets one goroutine parked at key continue.
func (s *Sched) Release(key string) bool {
	s.mu.Lock()
	defer s.mu.Unlock()
	q := s.parked[key]
	if len(q) == 0 {
		return false
	}
	close(q[0])
	s.parked[key] = q[1:]
	return true
}

// ReleaseAll ungates everything.
func (s *Sched) ReleaseAll() {
	s.mu.Lock()
	s.gated = map[string]bool{}
	for k, q := range s.parked {
		for _, ch := range q {
			close(ch)
		}
		delete(s.parked, k)
	}
	s.mu.Unlock()
}

// Events returns the recorded events.
func (s *Sched) Events() []Event {
	s.mu.Lock()
	defer s.mu.Unlock()
	return append([]Event{}, s.events...)
}

// ResetEvents drops recorded events.
func (s *Sched) ResetEvents() {
	s.mu.Lock()
	s.events = nil
	s.arrived = map[string]int{}
	s.mu.Unlock()
}
