// Package deps pins the cached third-party modules the harness may use, so
// that go.mod / go.sum are complete and never rewritten by a build.
package deps

import (
	_ "github.com/anishathalye/porcupine"
	_ "github.com/golang/mock/gomock"
	_ "github.com/golang/snappy"
	_ "google.golang.org/grpc"
	_ "pgregory.net/rapid"
)
