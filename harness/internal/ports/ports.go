package ports

import (
	"fmt"
	"net"
	"os"
	"sync"
	"syscall"
)

// Port allocation for processors under test.
//
// The processors listen with SO_REUSEPORT. Two harness processes that are handed the same
// "free" port (net.Listen on :0 only proves that the port was free for an instant) would both
// bind it and the kernel would spread incoming connections over the two processors: clients of
// one check talk to the proxy of another. And an ephemeral port can be taken as the source port
// of somebody's outgoing connection the moment it is released. So ports are taken from blocks
// below the ephemeral range, and a block belongs to one process for its whole life (flock on a
// per-block file, released by the kernel when the process exits).
const (
	portBase      = 20000
	portBlockSize = 64
	portBlocks    = 199 // 20000 .. 32735
	portLockDir   = "/tmp/verif-ports"
)

var (
	portMu     sync.Mutex
	portHeld   []int      // block indices held by this process
	portFiles  []*os.File // their lock files (kept open)
	portCursor int
)

func acquirePortBlock() bool {
	os.MkdirAll(portLockDir, 0o777)
	start := (os.Getpid()*7919 + len(portHeld)*104729) % portBlocks
	for i := 0; i < portBlocks; i++ {
		b := (start + i) % portBlocks
		f, err := os.OpenFile(fmt.Sprintf("%s/block-%03d", portLockDir, b), os.O_CREATE|os.O_RDWR, 0o666)
		if err != nil {
			continue
		}
		if syscall.Flock(int(f.Fd()), syscall.LOCK_EX|syscall.LOCK_NB) != nil {
			f.Close()
			continue
		}
		portHeld = append(portHeld, b)
		portFiles = append(portFiles, f)
		return true
	}
	return false
}

// Free returns a TCP port on 127.0.0.1 that no other harness process will hand out.
func Free() int {
	portMu.Lock()
	defer portMu.Unlock()
	for round := 0; round < 8; round++ {
		n := len(portHeld) * portBlockSize
		for i := 0; i < n; i++ {
			k := portCursor % n
			portCursor++
			port := portBase + portHeld[k/portBlockSize]*portBlockSize + k%portBlockSize
			ln, err := net.Listen("tcp", fmt.Sprintf("127.0.0.1:%d", port))
			if err != nil {
				continue
			}
			ln.Close()
			return port
		}
		if !acquirePortBlock() {
			break
		}
	}
	// every block is taken (or the lock directory is unusable): fall back to an ephemeral port
	ln, err := net.Listen("tcp", "127.0.0.1:0")
	if err != nil {
		panic(err)
	}
	defer ln.Close()
	return ln.Addr().(*net.TCPAddr).Port
}
