package simredis

import (
	"crypto/sha1"
	"encoding/hex"
	"fmt"
	"sort"
	"strconv"
	"strings"

	"verifharness/internal/resp"
)

// Entry is one stored key.
type Entry struct {
	Kind string // "string", "hash", "list", "set", "zset", "echo"
	Str  []byte
	Hash map[string][]byte
	List [][]byte
	Set  map[string]struct{}
	ZSet map[string]float64
	Ops  int // echo engine: operations applied so far
}

// Store is a key space (one per master node; one for the reference server).
type Store struct {
	Data map[string]*Entry
}

func NewStore() *Store { return &Store{Data: map[string]*Entry{}} }

// CRC16 is the harness' own bitwise CRC16/XMODEM (poly 0x1021, init 0).
func CRC16(b []byte) uint16 {
	var crc uint16
	for _, c := range b {
		crc ^= uint16(c) << 8
		for i := 0; i < 8; i++ {
			if crc&0x8000 != 0 {
				crc = crc<<1 ^ 0x1021
			} else {
				crc <<= 1
			}
		}
	}
	return crc
}

// HashTag implements the Redis Cluster hash tag rule.
func HashTag(key []byte) []byte {
	for i := 0; i < len(key); i++ {
		if key[i] == '{' {
			for j := i + 1; j < len(key); j++ {
				if key[j] == '}' {
					if j == i+1 {
						return key
					}
					return key[i+1 : j]
				}
			}
			return key
		}
	}
	return key
}

// Slot is the Redis Cluster key slot.
func Slot(key []byte) int { return int(CRC16(HashTag(key))) % 16384 }

// KeyedCommand tells whether cmd carries a key as its first argument (for the
// simulated cluster's ownership check) and which argument indexes are keys.
func keyIndex(cmd string, args [][]byte) int {
	switch cmd {
	case "ping", "readonly", "readwrite", "asking", "cluster", "info", "time", "select", "quit", "auth", "scan", "command", "echo":
		return -1
	case "eval", "evalsha":
		if len(args) >= 4 {
			return 3
		}
		return -1
	}
	if len(args) >= 2 {
		return 1
	}
	return -1
}

var wrongType = resp.Err("WRONGTYPE Operation against a key holding the wrong kind of value")
var ok = resp.Simple("OK")

func wrongArgs(cmd string) resp.Value {
	return resp.Err("ERR wrong number of arguments for '" + cmd + "' command")
}

// RealCommands are executed with Redis semantics; every other command runs on the echo engine.
var RealCommands = map[string]bool{
	"get": true, "set": true, "setnx": true, "getset": true, "setex": true, "psetex": true, "append": true,
	"strlen": true, "incr": true, "decr": true, "incrby": true, "decrby": true,
	"del": true, "exists": true, "touch": true, "unlink": true, "type": true,
	"hset": true, "hget": true, "hmset": true, "hmget": true, "hgetall": true, "hdel": true, "hexists": true,
	"hlen": true, "hkeys": true, "hvals": true, "hsetnx": true, "hstrlen": true,
	"lpush": true, "rpush": true, "lpop": true, "rpop": true, "llen": true, "lrange": true, "lindex": true,
	"sadd": true, "srem": true, "scard": true, "sismember": true, "smembers": true,
	"zadd": true, "zscore": true, "zcard": true, "zrem": true,
	"mget": true, "mset": true,
}

// Exec executes one command against the store with Redis semantics for the
// core commands and the echo engine for everything else.
func (s *Store) Exec(args [][]byte) resp.Value {
	if len(args) == 0 {
		return resp.Err("ERR empty command")
	}
	cmd := strings.ToLower(string(args[0]))
	if !RealCommands[cmd] {
		return s.echo(cmd, args)
	}
	if len(args) < 2 {
		return wrongArgs(cmd)
	}
	key := string(args[1])
	e := s.Data[key]
	need := func(kind string) bool { return e == nil || e.Kind == kind }
	switch cmd {
	case "mget":
		// defined as the per-key GET replies combined in argument order
		out := make([]resp.Value, 0, len(args)-1)
		for _, k := range args[1:] {
			out = append(out, s.Exec([][]byte{[]byte("get"), k}))
		}
		return resp.Arr(out...)
	case "mset":
		if len(args)%2 != 1 {
			return wrongArgs(cmd)
		}
		for i := 1; i+1 < len(args); i += 2 {
			s.Exec([][]byte{[]byte("set"), args[i], args[i+1]})
		}
		return ok
	case "get":
		if !need("string") {
			return wrongType
		}
		if e == nil {
			return resp.NullBulk()
		}
		return resp.Bulk(e.Str)
	case "set":
		if len(args) < 3 {
			return wrongArgs(cmd)
		}
		s.Data[key] = &Entry{Kind: "string", Str: append([]byte{}, args[2]...)}
		return ok
	case "setex", "psetex":
		if len(args) != 4 {
			return wrongArgs(cmd)
		}
		s.Data[key] = &Entry{Kind: "string", Str: append([]byte{}, args[3]...)}
		return ok
	case "setnx":
		if len(args) != 3 {
			return wrongArgs(cmd)
		}
		if e != nil {
			return resp.Int(0)
		}
		s.Data[key] = &Entry{Kind: "string", Str: append([]byte{}, args[2]...)}
		return resp.Int(1)
	case "getset":
		if len(args) != 3 {
			return wrongArgs(cmd)
		}
		if !need("string") {
			return wrongType
		}
		old := resp.NullBulk()
		if e != nil {
			old = resp.Bulk(e.Str)
		}
		s.Data[key] = &Entry{Kind: "string", Str: append([]byte{}, args[2]...)}
		return old
	case "append":
		if len(args) != 3 {
			return wrongArgs(cmd)
		}
		if !need("string") {
			return wrongType
		}
		if e == nil {
			e = &Entry{Kind: "string"}
			s.Data[key] = e
		}
		e.Str = append(e.Str, args[2]...)
		return resp.Int(int64(len(e.Str)))
	case "strlen":
		if !need("string") {
			return wrongType
		}
		if e == nil {
			return resp.Int(0)
		}
		return resp.Int(int64(len(e.Str)))
	case "incr", "decr", "incrby", "decrby":
		if !need("string") {
			return wrongType
		}
		delta := int64(1)
		if cmd == "incrby" || cmd == "decrby" {
			if len(args) != 3 {
				return wrongArgs(cmd)
			}
			d, err := strconv.ParseInt(string(args[2]), 10, 64)
			if err != nil {
				return resp.Err("ERR value is not an integer or out of range")
			}
			delta = d
		}
		if cmd == "decr" || cmd == "decrby" {
			delta = -delta
		}
		cur := int64(0)
		if e != nil {
			c, err := strconv.ParseInt(string(e.Str), 10, 64)
			if err != nil {
				return resp.Err("ERR value is not an integer or out of range")
			}
			cur = c
		}
		cur += delta
		s.Data[key] = &Entry{Kind: "string", Str: []byte(strconv.FormatInt(cur, 10))}
		return resp.Int(cur)
	case "del", "unlink":
		n := int64(0)
		for _, k := range args[1:] {
			if _, ok := s.Data[string(k)]; ok {
				delete(s.Data, string(k))
				n++
			}
		}
		return resp.Int(n)
	case "exists", "touch":
		n := int64(0)
		for _, k := range args[1:] {
			if _, ok := s.Data[string(k)]; ok {
				n++
			}
		}
		return resp.Int(n)
	case "type":
		if e == nil {
			return resp.Simple("none")
		}
		if e.Kind == "echo" {
			return resp.Simple("string")
		}
		return resp.Simple(e.Kind)
	case "hset", "hmset":
		if len(args) < 4 || len(args)%2 != 0 {
			return wrongArgs(cmd)
		}
		if !need("hash") {
			return wrongType
		}
		if e == nil {
			e = &Entry{Kind: "hash", Hash: map[string][]byte{}}
			s.Data[key] = e
		}
		added := int64(0)
		for i := 2; i+1 < len(args); i += 2 {
			if _, ok := e.Hash[string(args[i])]; !ok {
				added++
			}
			e.Hash[string(args[i])] = append([]byte{}, args[i+1]...)
		}
		if cmd == "hmset" {
			return ok
		}
		return resp.Int(added)
	case "hsetnx":
		if len(args) != 4 {
			return wrongArgs(cmd)
		}
		if !need("hash") {
			return wrongType
		}
		if e == nil {
			e = &Entry{Kind: "hash", Hash: map[string][]byte{}}
			s.Data[key] = e
		}
		if _, ok := e.Hash[string(args[2])]; ok {
			return resp.Int(0)
		}
		e.Hash[string(args[2])] = append([]byte{}, args[3]...)
		return resp.Int(1)
	case "hget", "hstrlen", "hexists":
		if len(args) != 3 {
			return wrongArgs(cmd)
		}
		if !need("hash") {
			return wrongType
		}
		var v []byte
		found := false
		if e != nil {
			v, found = e.Hash[string(args[2])]
		}
		switch cmd {
		case "hget":
			if !found {
				return resp.NullBulk()
			}
			return resp.Bulk(v)
		case "hstrlen":
			return resp.Int(int64(len(v)))
		default:
			if found {
				return resp.Int(1)
			}
			return resp.Int(0)
		}
	case "hmget":
		if len(args) < 3 {
			return wrongArgs(cmd)
		}
		if !need("hash") {
			return wrongType
		}
		out := make([]resp.Value, 0, len(args)-2)
		for _, f := range args[2:] {
			if e != nil {
				if v, ok := e.Hash[string(f)]; ok {
					out = append(out, resp.Bulk(v))
					continue
				}
			}
			out = append(out, resp.NullBulk())
		}
		return resp.Arr(out...)
	case "hgetall", "hkeys", "hvals":
		if !need("hash") {
			return wrongType
		}
		out := []resp.Value{}
		if e != nil {
			fs := make([]string, 0, len(e.Hash))
			for f := range e.Hash {
				fs = append(fs, f)
			}
			sort.Strings(fs)
			for _, f := range fs {
				if cmd != "hvals" {
					out = append(out, resp.BulkS(f))
				}
				if cmd != "hkeys" {
					out = append(out, resp.Bulk(e.Hash[f]))
				}
			}
		}
		return resp.Arr(out...)
	case "hlen":
		if !need("hash") {
			return wrongType
		}
		if e == nil {
			return resp.Int(0)
		}
		return resp.Int(int64(len(e.Hash)))
	case "hdel":
		if len(args) < 3 {
			return wrongArgs(cmd)
		}
		if !need("hash") {
			return wrongType
		}
		n := int64(0)
		if e != nil {
			for _, f := range args[2:] {
				if _, ok := e.Hash[string(f)]; ok {
					delete(e.Hash, string(f))
					n++
				}
			}
			if len(e.Hash) == 0 {
				delete(s.Data, key)
			}
		}
		return resp.Int(n)
	case "lpush", "rpush":
		if len(args) < 3 {
			return wrongArgs(cmd)
		}
		if !need("list") {
			return wrongType
		}
		if e == nil {
			e = &Entry{Kind: "list"}
			s.Data[key] = e
		}
		for _, v := range args[2:] {
			c := append([]byte{}, v...)
			if cmd == "lpush" {
				e.List = append([][]byte{c}, e.List...)
			} else {
				e.List = append(e.List, c)
			}
		}
		return resp.Int(int64(len(e.List)))
	case "lpop", "rpop":
		if !need("list") {
			return wrongType
		}
		if e == nil || len(e.List) == 0 {
			return resp.NullBulk()
		}
		var v []byte
		if cmd == "lpop" {
			v, e.List = e.List[0], e.List[1:]
		} else {
			v, e.List = e.List[len(e.List)-1], e.List[:len(e.List)-1]
		}
		if len(e.List) == 0 {
			delete(s.Data, key)
		}
		return resp.Bulk(v)
	case "llen":
		if !need("list") {
			return wrongType
		}
		if e == nil {
			return resp.Int(0)
		}
		return resp.Int(int64(len(e.List)))
	case "lindex":
		if len(args) != 3 {
			return wrongArgs(cmd)
		}
		if !need("list") {
			return wrongType
		}
		i, err := strconv.Atoi(string(args[2]))
		if err != nil {
			return resp.Err("ERR value is not an integer or out of range")
		}
		if e == nil {
			return resp.NullBulk()
		}
		if i < 0 {
			i += len(e.List)
		}
		if i < 0 || i >= len(e.List) {
			return resp.NullBulk()
		}
		return resp.Bulk(e.List[i])
	case "lrange":
		if len(args) != 4 {
			return wrongArgs(cmd)
		}
		if !need("list") {
			return wrongType
		}
		a, err1 := strconv.Atoi(string(args[2]))
		b, err2 := strconv.Atoi(string(args[3]))
		if err1 != nil || err2 != nil {
			return resp.Err("ERR value is not an integer or out of range")
		}
		out := []resp.Value{}
		if e != nil {
			n := len(e.List)
			if a < 0 {
				a += n
			}
			if b < 0 {
				b += n
			}
			if a < 0 {
				a = 0
			}
			if b >= n {
				b = n - 1
			}
			for i := a; i <= b; i++ {
				out = append(out, resp.Bulk(e.List[i]))
			}
		}
		return resp.Arr(out...)
	case "sadd", "srem":
		if len(args) < 3 {
			return wrongArgs(cmd)
		}
		if !need("set") {
			return wrongType
		}
		if e == nil {
			if cmd == "srem" {
				return resp.Int(0)
			}
			e = &Entry{Kind: "set", Set: map[string]struct{}{}}
			s.Data[key] = e
		}
		n := int64(0)
		for _, m := range args[2:] {
			_, has := e.Set[string(m)]
			if cmd == "sadd" && !has {
				e.Set[string(m)] = struct{}{}
				n++
			}
			if cmd == "srem" && has {
				delete(e.Set, string(m))
				n++
			}
		}
		if len(e.Set) == 0 {
			delete(s.Data, key)
		}
		return resp.Int(n)
	case "scard":
		if !need("set") {
			return wrongType
		}
		if e == nil {
			return resp.Int(0)
		}
		return resp.Int(int64(len(e.Set)))
	case "sismember":
		if len(args) != 3 {
			return wrongArgs(cmd)
		}
		if !need("set") {
			return wrongType
		}
		if e != nil {
			if _, ok := e.Set[string(args[2])]; ok {
				return resp.Int(1)
			}
		}
		return resp.Int(0)
	case "smembers":
		if !need("set") {
			return wrongType
		}
		out := []resp.Value{}
		if e != nil {
			ms := make([]string, 0, len(e.Set))
			for m := range e.Set {
				ms = append(ms, m)
			}
			sort.Strings(ms)
			for _, m := range ms {
				out = append(out, resp.BulkS(m))
			}
		}
		return resp.Arr(out...)
	case "zadd":
		if len(args) < 4 || len(args)%2 != 0 {
			return wrongArgs(cmd)
		}
		if !need("zset") {
			return wrongType
		}
		for i := 2; i+1 < len(args); i += 2 {
			if _, err := strconv.ParseFloat(string(args[i]), 64); err != nil {
				return resp.Err("ERR value is not a valid float")
			}
		}
		if e == nil {
			e = &Entry{Kind: "zset", ZSet: map[string]float64{}}
			s.Data[key] = e
		}
		n := int64(0)
		for i := 2; i+1 < len(args); i += 2 {
			sc, _ := strconv.ParseFloat(string(args[i]), 64)
			if _, ok := e.ZSet[string(args[i+1])]; !ok {
				n++
			}
			e.ZSet[string(args[i+1])] = sc
		}
		return resp.Int(n)
	case "zscore":
		if len(args) != 3 {
			return wrongArgs(cmd)
		}
		if !need("zset") {
			return wrongType
		}
		if e != nil {
			if sc, ok := e.ZSet[string(args[2])]; ok {
				return resp.BulkS(strconv.FormatFloat(sc, 'g', 17, 64))
			}
		}
		return resp.NullBulk()
	case "zcard":
		if !need("zset") {
			return wrongType
		}
		if e == nil {
			return resp.Int(0)
		}
		return resp.Int(int64(len(e.ZSet)))
	case "zrem":
		if len(args) < 3 {
			return wrongArgs(cmd)
		}
		if !need("zset") {
			return wrongType
		}
		n := int64(0)
		if e != nil {
			for _, m := range args[2:] {
				if _, ok := e.ZSet[string(m)]; ok {
					delete(e.ZSet, string(m))
					n++
				}
			}
			if len(e.ZSet) == 0 {
				delete(s.Data, key)
			}
		}
		return resp.Int(n)
	}
	return s.echo(cmd, args)
}

// echo engine: the reply is a digest of (command, arguments, number of
// operations applied to that key so far). A cluster and a single server agree
// iff every key's operations reach the key's owner unmodified and in the same
// per-key order.
func (s *Store) echo(cmd string, args [][]byte) resp.Value {
	h := sha1.New()
	fmt.Fprintf(h, "%d|", len(args))
	for _, a := range args {
		fmt.Fprintf(h, "%d:", len(a))
		h.Write(a)
	}
	ops := 0
	if ki := keyIndex(cmd, args); ki >= 0 && ki < len(args) {
		key := string(args[ki])
		e := s.Data[key]
		if e == nil {
			e = &Entry{Kind: "echo"}
			s.Data[key] = e
		}
		e.Ops++
		ops = e.Ops
	}
	fmt.Fprintf(h, "|%d", ops)
	return resp.BulkS("echo:" + cmd + ":" + strconv.Itoa(ops) + ":" + hex.EncodeToString(h.Sum(nil))[:16])
}
