// Package simredis simulates Redis Cluster nodes for the conformance harness:
// own RESP codec, key-value engine, slot ownership with MOVED / ASK / ASKING,
// CLUSTER NODES, READONLY, SCAN, plus fault and pacing controls (reply gating,
// connection resets, silence, shutdown and restart on the same port, scripted
// replies).
package simredis

import (
	"bytes"
	"fmt"
	"net"
	"sort"
	"strconv"
	"strings"
	"sync"
	"sync/atomic"
	"time"

	"verifharness/internal/ports"
	"verifharness/internal/resp"
)

const NumSlots = 16384

// Rec is one command received by a node.
type Rec struct {
	Seq     int64
	Node    int
	Conn    int64
	Args    [][]byte
	Asking  bool
	Served  bool // executed against the node's data (not redirected / refused)
	Reply   resp.Value
	RawRepl []byte

	closeAfter bool
}

func (r Rec) Cmd() string {
	if len(r.Args) == 0 {
		return ""
	}
	return strings.ToLower(string(r.Args[0]))
}

// Event is emitted (under the cluster lock) for trace recording.
type Event struct {
	Kind string // "recv", "reply", "accept", "close"
	Node int
	Conn int64
	Rec  *Rec
}

type pendingReply struct {
	cn  *conn
	raw []byte
	rec *Rec
}

type conn struct {
	id       int64
	nc       net.Conn
	node     *Node
	asking   bool
	readonly bool
	wmu      sync.Mutex
}

// Scripted is a canned reply for the next command that matches.
type Scripted struct {
	Match func(cmd string, args [][]byte) bool
	Raw   []byte // raw bytes to send instead of the engine's reply
	Times int    // how many times (<=0: forever)
	Then  func() // called (under the lock) after it fired
	Close bool   // close the connection after the reply was written (truncated frames)
}

// Node is one simulated Redis Cluster node.
type Node struct {
	c     *Cluster
	Idx   int
	ID    string
	Addr  string
	ln    net.Listener
	store *Store // masters: own data; replicas: nil (read through master)

	master   *Node
	replicas []*Node

	conns    map[*conn]struct{}
	Accepted int
	Log      []*Rec

	gate     bool
	pending  []*pendingReply
	silent   bool // read commands, never answer
	down     bool
	scripted []*Scripted

	// ScanChains: cursor -> (next cursor, keys) scripted SCAN behaviour; nil = real key space
	ScanChain map[uint64]ScanStep
}

type ScanStep struct {
	Next uint64
	Keys []string
}

// Cluster is a set of nodes sharing one lock.
type Cluster struct {
	mu    sync.Mutex
	Nodes []*Node
	owner [NumSlots]int  // index of the owning master, -1 none
	mig   map[int][2]int // slot -> (src, dst)
	Down  bool           // answer CLUSTERDOWN to keyed commands
	seq   int64
	conid int64
	Trace func(Event)

	Redirects int64 // MOVED/ASK replies produced
}

// NewCluster starts masters (and replicasPer replicas for each) on loopback
// ports and spreads the slots evenly over the masters.
func NewCluster(masters, replicasPer int) (*Cluster, error) {
	c := &Cluster{mig: map[int][2]int{}}
	for i := 0; i < masters; i++ {
		n, err := c.addNode(nil)
		if err != nil {
			return nil, err
		}
		_ = n
	}
	for i := 0; i < masters; i++ {
		for j := 0; j < replicasPer; j++ {
			if _, err := c.addNode(c.Nodes[i]); err != nil {
				return nil, err
			}
		}
	}
	for s := 0; s < NumSlots; s++ {
		c.owner[s] = s * masters / NumSlots
	}
	return c, nil
}

func (c *Cluster) addNode(master *Node) (*Node, error) {
	// a port of this process' own blocks below the ephemeral range: a node that is shut down and
	// restarted finds its port again, nobody's outgoing connection can have taken it
	var ln net.Listener
	var err error
	for try := 0; try < 20; try++ {
		ln, err = net.Listen("tcp", fmt.Sprintf("127.0.0.1:%d", ports.Free()))
		if err == nil {
			break
		}
	}
	if err != nil {
		return nil, err
	}
	n := &Node{c: c, Idx: len(c.Nodes), Addr: ln.Addr().String(), ln: ln, conns: map[*conn]struct{}{}, master: master}
	n.ID = fmt.Sprintf("%040x", n.Idx+1)
	if master == nil {
		n.store = NewStore()
	} else {
		master.replicas = append(master.replicas, n)
	}
	c.Nodes = append(c.Nodes, n)
	go n.acceptLoop(ln)
	return n, nil
}

// Close shuts every node down.
func (c *Cluster) Close() {
	c.mu.Lock()
	nodes := append([]*Node{}, c.Nodes...)
	c.mu.Unlock()
	for _, n := range nodes {
		n.Shutdown()
	}
}

func (c *Cluster) Lock()   { c.mu.Lock() }
func (c *Cluster) Unlock() { c.mu.Unlock() }

// Masters returns the nodes that currently are masters.
func (c *Cluster) Masters() []*Node {
	var out []*Node
	for _, n := range c.Nodes {
		if n.master == nil {
			out = append(out, n)
		}
	}
	return out
}

// Addrs returns all node addresses.
func (c *Cluster) Addrs() []string {
	var out []string
	for _, n := range c.Nodes {
		out = append(out, n.Addr)
	}
	return out
}

// SetOwner assigns slot to master index idx.
func (c *Cluster) SetOwner(slot, idx int) {
	c.mu.Lock()
	c.owner[slot] = idx
	c.mu.Unlock()
}

// Owner returns the index of the master owning slot.
func (c *Cluster) Owner(slot int) int {
	c.mu.Lock()
	defer c.mu.Unlock()
	return c.owner[slot]
}

// SetMigrating marks slot as MIGRATING on src and IMPORTING on dst.
func (c *Cluster) SetMigrating(slot, src, dst int) {
	c.mu.Lock()
	c.mig[slot] = [2]int{src, dst}
	c.mu.Unlock()
}

// MigrateKey moves one key of a migrating slot from the source to the target.
func (c *Cluster) MigrateKey(key string) bool {
	c.mu.Lock()
	defer c.mu.Unlock()
	m, ok := c.mig[Slot([]byte(key))]
	if !ok {
		return false
	}
	src, dst := c.Nodes[m[0]], c.Nodes[m[1]]
	e, ok := src.store.Data[key]
	if !ok {
		return false
	}
	delete(src.store.Data, key)
	dst.store.Data[key] = e
	return true
}

// Finalise ends the migration of slot: remaining keys move, ownership changes.
func (c *Cluster) Finalise(slot int) {
	c.mu.Lock()
	defer c.mu.Unlock()
	m, ok := c.mig[slot]
	if !ok {
		return
	}
	src, dst := c.Nodes[m[0]], c.Nodes[m[1]]
	for k, e := range src.store.Data {
		if Slot([]byte(k)) == slot {
			delete(src.store.Data, k)
			dst.store.Data[k] = e
		}
	}
	c.owner[slot] = m[1]
	delete(c.mig, slot)
}

// Bounce makes the owner of key's slot answer the next command that names the
// key with MOVED to node hops[0] while handing the slot (with its keys) over to
// that node, which does the same towards hops[1], and so on: the next request
// for the key is redirected len(hops) times before it is served.
func (c *Cluster) Bounce(key string, hops []int) {
	c.mu.Lock()
	defer c.mu.Unlock()
	c.bounceLocked(key, hops)
}

func (c *Cluster) bounceLocked(key string, hops []int) {
	if len(hops) == 0 {
		return
	}
	slot := Slot([]byte(key))
	from := c.Nodes[c.owner[slot]]
	to := hops[0]
	from.scripted = append(from.scripted, &Scripted{
		Match: func(cmd string, args [][]byte) bool {
			if cmd == "cluster" || cmd == "readonly" || cmd == "asking" {
				return false
			}
			for _, a := range args[1:] {
				if string(a) == key {
					return true
				}
			}
			return false
		},
		Raw:   resp.Bytes(resp.Err(fmt.Sprintf("MOVED %d %s", slot, c.Nodes[to].Addr))),
		Times: 1,
		Then: func() {
			atomic.AddInt64(&c.Redirects, 1)
			c.moveSlotLocked(slot, to)
			c.bounceLocked(key, hops[1:])
		},
	})
}

// MoveSlot changes ownership of a slot at once (all keys move).
func (c *Cluster) MoveSlot(slot, dst int) {
	c.mu.Lock()
	defer c.mu.Unlock()
	c.moveSlotLocked(slot, dst)
}

func (c *Cluster) moveSlotLocked(slot, dst int) {
	src := c.owner[slot]
	if src == dst {
		return
	}
	if src >= 0 {
		for k, e := range c.Nodes[src].store.Data {
			if Slot([]byte(k)) == slot {
				delete(c.Nodes[src].store.Data, k)
				c.Nodes[dst].store.Data[k] = e
			}
		}
	}
	c.owner[slot] = dst
}

// Failover promotes replica r of master m: r takes over m's data and slots; m
// becomes a replica of r (and is shut down when kill is set).
func (c *Cluster) Failover(m, r int, kill bool) {
	c.mu.Lock()
	old, nw := c.Nodes[m], c.Nodes[r]
	nw.store = old.store
	old.store = nil
	nw.master = nil
	nw.replicas = nil
	for _, x := range old.replicas {
		if x != nw {
			x.master = nw
			nw.replicas = append(nw.replicas, x)
		}
	}
	old.replicas = nil
	old.master = nw
	nw.replicas = append(nw.replicas, old)
	for s := 0; s < NumSlots; s++ {
		if c.owner[s] == m {
			c.owner[s] = r
		}
	}
	for s, mg := range c.mig {
		if mg[0] == m {
			mg[0] = r
		}
		if mg[1] == m {
			mg[1] = r
		}
		c.mig[s] = mg
	}
	c.mu.Unlock()
	if kill {
		old.Shutdown()
	}
}

// Reassign makes replica r follow master m (the replica set of its former master shrinks).
func (c *Cluster) Reassign(r, m int) {
	c.mu.Lock()
	defer c.mu.Unlock()
	rep, nm := c.Nodes[r], c.Nodes[m]
	if rep.master == nil || nm.master != nil {
		return
	}
	old := rep.master
	for i, x := range old.replicas {
		if x == rep {
			old.replicas = append(old.replicas[:i:i], old.replicas[i+1:]...)
			break
		}
	}
	rep.master = nm
	nm.replicas = append(nm.replicas, rep)
}

// nodesText renders CLUSTER NODES as seen from node self.
func (c *Cluster) nodesText(self *Node) string {
	var b strings.Builder
	for _, n := range c.Nodes {
		flags := "master"
		masterID := "-"
		if n.master != nil {
			flags = "slave"
			masterID = n.master.ID
		}
		if n == self {
			flags = "myself," + flags
		}
		if n.down {
			flags += ",fail"
		}
		host, port, _ := net.SplitHostPort(n.Addr)
		p, _ := strconv.Atoi(port)
		fmt.Fprintf(&b, "%s %s:%d@%d %s %s 0 0 %d connected", n.ID, host, p, p+10000, flags, masterID, n.Idx+1)
		if n.master == nil {
			start := -1
			for s := 0; s <= NumSlots; s++ {
				mine := s < NumSlots && c.owner[s] == n.Idx
				if mine && start < 0 {
					start = s
				}
				if !mine && start >= 0 {
					if start == s-1 {
						fmt.Fprintf(&b, " %d", start)
					} else {
						fmt.Fprintf(&b, " %d-%d", start, s-1)
					}
					start = -1
				}
			}
			if n == self {
				slots := make([]int, 0, len(c.mig))
				for s := range c.mig {
					slots = append(slots, s)
				}
				sort.Ints(slots)
				for _, s := range slots {
					mg := c.mig[s]
					if mg[0] == n.Idx {
						fmt.Fprintf(&b, " [%d->-%s]", s, c.Nodes[mg[1]].ID)
					}
					if mg[1] == n.Idx {
						fmt.Fprintf(&b, " [%d-<-%s]", s, c.Nodes[mg[0]].ID)
					}
				}
			}
		}
		b.WriteString("\n")
	}
	return b.String()
}

// ---------------------------------------------------------------- node

func (n *Node) acceptLoop(ln net.Listener) {
	for {
		nc, err := ln.Accept()
		if err != nil {
			return
		}
		n.c.mu.Lock()
		if n.down || n.ln != ln {
			n.c.mu.Unlock()
			nc.Close()
			continue
		}
		cn := &conn{id: atomic.AddInt64(&n.c.conid, 1), nc: nc, node: n}
		n.conns[cn] = struct{}{}
		n.Accepted++
		if n.c.Trace != nil {
			n.c.Trace(Event{Kind: "accept", Node: n.Idx, Conn: cn.id})
		}
		n.c.mu.Unlock()
		go n.serve(cn)
	}
}

func (n *Node) serve(cn *conn) {
	defer func() {
		cn.nc.Close()
		n.c.mu.Lock()
		delete(n.conns, cn)
		if n.c.Trace != nil {
			n.c.Trace(Event{Kind: "close", Node: n.Idx, Conn: cn.id})
		}
		n.c.mu.Unlock()
	}()
	rd := resp.NewReader(cn.nc)
	for {
		v, err := rd.Read()
		if err != nil {
			return
		}
		if v.Kind != '*' || len(v.Arr) == 0 {
			cn.write(resp.Bytes(resp.Err("ERR protocol error")))
			return
		}
		args := v.Args()
		n.c.mu.Lock()
		rec := &Rec{Seq: atomic.AddInt64(&n.c.seq, 1), Node: n.Idx, Conn: cn.id, Args: args, Asking: cn.asking}
		raw := n.process(cn, rec)
		n.Log = append(n.Log, rec)
		if n.c.Trace != nil {
			n.c.Trace(Event{Kind: "recv", Node: n.Idx, Conn: cn.id, Rec: rec})
		}
		switch {
		case n.silent:
			n.c.mu.Unlock()
		case n.gate:
			n.pending = append(n.pending, &pendingReply{cn: cn, raw: raw, rec: rec})
			n.c.mu.Unlock()
		default:
			if n.c.Trace != nil {
				n.c.Trace(Event{Kind: "reply", Node: n.Idx, Conn: cn.id, Rec: rec})
			}
			// write lock before the cluster lock is released: replies leave a connection in
			// the order the commands were processed (see flushHeld)
			cn.wmu.Lock()
			n.c.mu.Unlock()
			cn.writeLocked(raw)
			cn.wmu.Unlock()
			if rec.closeAfter {
				time.Sleep(50 * time.Millisecond)
				return
			}
		}
	}
}

func (cn *conn) write(b []byte) {
	cn.wmu.Lock()
	cn.writeLocked(b)
	cn.wmu.Unlock()
}

func (cn *conn) writeLocked(b []byte) {
	cn.nc.SetWriteDeadline(time.Now().Add(10 * time.Second))
	cn.nc.Write(b)
}

// flushHeld writes held replies in order. It is called with the cluster lock held and
// releases it: the write locks of the connections involved are taken BEFORE the cluster
// lock is released, so that the reply to a command processed right afterwards (written by
// the connection's own goroutine) queues behind the held replies instead of overtaking them.
func (c *Cluster) flushHeld(rel []*pendingReply) {
	var locked []*conn
	seen := map[*conn]bool{}
	for _, p := range rel {
		if !seen[p.cn] {
			seen[p.cn] = true
			locked = append(locked, p.cn)
		}
	}
	for _, cn := range locked {
		cn.wmu.Lock()
	}
	c.mu.Unlock()
	for _, p := range rel {
		p.cn.writeLocked(p.raw)
	}
	for _, cn := range locked {
		cn.wmu.Unlock()
	}
}

// process executes one command under the cluster lock and returns the raw reply.
func (n *Node) process(cn *conn, rec *Rec) []byte {
	args := rec.Args
	cmd := rec.Cmd()
	asking := cn.asking
	cn.asking = false
	for i, sc := range n.scripted {
		if sc.Match(cmd, args) {
			if sc.Times > 0 {
				sc.Times--
				if sc.Times == 0 {
					n.scripted = append(n.scripted[:i:i], n.scripted[i+1:]...)
				}
			}
			rec.RawRepl = sc.Raw
			rec.closeAfter = sc.Close
			if sc.Then != nil {
				sc.Then()
			}
			return sc.Raw
		}
	}
	reply := n.exec(cn, cmd, args, asking, rec)
	rec.Reply = reply
	return resp.Bytes(reply)
}

func (n *Node) dataNode() *Node {
	if n.master != nil {
		return n.master
	}
	return n
}

func isReadOnlyCmd(cmd string) bool {
	switch cmd {
	case "get", "strlen", "exists", "type", "ttl", "pttl", "dump", "getrange", "getbit", "bitcount", "bitpos",
		"hget", "hmget", "hgetall", "hexists", "hlen", "hkeys", "hvals", "hstrlen", "hscan",
		"llen", "lrange", "lindex", "scard", "sismember", "smembers", "srandmember", "sscan", "sdiff", "sinter", "sunion",
		"zscore", "zcard", "zcount", "zrange", "zrank", "zrevrange", "zrevrank", "zrangebyscore", "zrevrangebyscore",
		"zrangebylex", "zrevrangebylex", "zlexcount", "zscan", "pfcount", "geodist", "geohash", "geopos", "georadius_ro",
		"georadiusbymember_ro", "touch":
		return true
	}
	return false
}

func (n *Node) exec(cn *conn, cmd string, args [][]byte, asking bool, rec *Rec) resp.Value {
	c := n.c
	switch cmd {
	case "ping":
		return resp.Simple("PONG")
	case "readonly":
		cn.readonly = true
		return ok
	case "readwrite":
		cn.readonly = false
		return ok
	case "asking":
		cn.asking = true
		return ok
	case "cluster":
		if len(args) >= 2 && strings.EqualFold(string(args[1]), "nodes") {
			return resp.BulkS(c.nodesText(n))
		}
		return resp.Err("ERR unknown cluster subcommand")
	case "scan":
		return n.scan(args)
	}
	ki := keyIndex(cmd, args)
	if ki < 0 || ki >= len(args) {
		return resp.Err("ERR unknown command '" + cmd + "'")
	}
	if c.Down {
		return resp.Err("CLUSTERDOWN The cluster is down")
	}
	key := args[ki]
	slot := Slot(key)
	ownerIdx := c.owner[slot]
	if ownerIdx < 0 {
		return resp.Err("CLUSTERDOWN Hash slot not served")
	}
	owner := c.Nodes[ownerIdx]
	dn := n.dataNode()
	serve := false
	switch {
	case n == owner:
		if mg, ok := c.mig[slot]; ok && mg[0] == n.Idx {
			if _, has := n.store.Data[string(key)]; !has {
				atomic.AddInt64(&c.Redirects, 1)
				return resp.Err(fmt.Sprintf("ASK %d %s", slot, c.Nodes[mg[1]].Addr))
			}
		}
		serve = true
	case n.master == owner && cn.readonly && isReadOnlyCmd(cmd):
		serve = true
	default:
		if mg, ok := c.mig[slot]; ok && mg[1] == n.Idx && asking {
			serve = true
			break
		}
		atomic.AddInt64(&c.Redirects, 1)
		return resp.Err(fmt.Sprintf("MOVED %d %s", slot, owner.Addr))
	}
	_ = serve
	rec.Served = true
	return dn.store.Exec(args)
}

func (n *Node) scan(args [][]byte) resp.Value {
	if len(args) < 2 {
		return wrongArgs("scan")
	}
	cur, err := strconv.ParseUint(string(args[1]), 10, 64)
	if err != nil {
		return resp.Err("ERR invalid cursor")
	}
	if n.ScanChain != nil {
		st, ok := n.ScanChain[cur]
		if !ok {
			st = ScanStep{Next: 0}
		}
		ks := make([]resp.Value, 0, len(st.Keys))
		for _, k := range st.Keys {
			ks = append(ks, resp.BulkS(k))
		}
		return resp.Arr(resp.BulkS(strconv.FormatUint(st.Next, 10)), resp.Arr(ks...))
	}
	// real key space: position based cursor, page size from COUNT (default 10)
	count := 10
	for i := 2; i+1 < len(args); i += 2 {
		if strings.EqualFold(string(args[i]), "count") {
			if v, err := strconv.Atoi(string(args[i+1])); err == nil && v > 0 {
				count = v
			}
		}
	}
	dn := n.dataNode()
	keys := make([]string, 0, len(dn.store.Data))
	for k := range dn.store.Data {
		keys = append(keys, k)
	}
	sort.Strings(keys)
	start := int(cur)
	if start > len(keys) {
		start = len(keys)
	}
	end := start + count
	next := uint64(end)
	if end >= len(keys) {
		end = len(keys)
		next = 0
	}
	ks := make([]resp.Value, 0, end-start)
	for _, k := range keys[start:end] {
		ks = append(ks, resp.BulkS(k))
	}
	return resp.Arr(resp.BulkS(strconv.FormatUint(next, 10)), resp.Arr(ks...))
}

// ---------------------------------------------------------------- controls

// SetGate makes the node hold its replies until Release.
func (n *Node) SetGate(on bool) {
	n.c.mu.Lock()
	n.gate = on
	var flush []*pendingReply
	if !on {
		flush, n.pending = n.pending, nil
		for _, p := range flush {
			if n.c.Trace != nil {
				n.c.Trace(Event{Kind: "reply", Node: n.Idx, Conn: p.cn.id, Rec: p.rec})
			}
		}
	}
	n.c.flushHeld(flush)
}

// Pending returns the number of held replies.
func (n *Node) Pending() int {
	n.c.mu.Lock()
	defer n.c.mu.Unlock()
	return len(n.pending)
}

// Release sends up to k held replies (oldest first); returns how many were sent.
func (n *Node) Release(k int) int {
	n.c.mu.Lock()
	if k > len(n.pending) {
		k = len(n.pending)
	}
	rel := n.pending[:k]
	n.pending = n.pending[k:]
	for _, p := range rel {
		if n.c.Trace != nil {
			n.c.Trace(Event{Kind: "reply", Node: n.Idx, Conn: p.cn.id, Rec: p.rec})
		}
	}
	n.c.flushHeld(rel)
	return k
}

// WaitPending waits until at least k replies are held.
func (n *Node) WaitPending(k int, d time.Duration) bool {
	dl := time.Now().Add(d)
	for time.Now().Before(dl) {
		if n.Pending() >= k {
			return true
		}
		time.Sleep(200 * time.Microsecond)
	}
	return n.Pending() >= k
}

// SetSilent makes the node read commands without ever answering.
func (n *Node) SetSilent(on bool) {
	n.c.mu.Lock()
	n.silent = on
	n.c.mu.Unlock()
}

// ResetConns closes every established connection of the node (RST when rst is set).
func (n *Node) ResetConns(rst bool) int {
	n.c.mu.Lock()
	cs := make([]*conn, 0, len(n.conns))
	for cn := range n.conns {
		cs = append(cs, cn)
	}
	n.pending = nil
	n.c.mu.Unlock()
	for _, cn := range cs {
		if tc, ok := cn.nc.(*net.TCPConn); ok && rst {
			tc.SetLinger(0)
		}
		cn.nc.Close()
	}
	return len(cs)
}

// Shutdown closes the listener and every connection.
func (n *Node) Shutdown() {
	n.c.mu.Lock()
	n.down = true
	ln := n.ln
	n.ln = nil
	n.c.mu.Unlock()
	if ln != nil {
		ln.Close()
	}
	n.ResetConns(true)
}

// Restart listens again on the same address.
func (n *Node) Restart() error {
	var ln net.Listener
	var err error
	for i := 0; i < 200; i++ {
		ln, err = net.Listen("tcp", n.Addr)
		if err == nil {
			break
		}
		time.Sleep(5 * time.Millisecond)
	}
	if err != nil {
		return err
	}
	n.c.mu.Lock()
	n.down = false
	n.ln = ln
	n.c.mu.Unlock()
	go n.acceptLoop(ln)
	return nil
}

// IsDown reports whether the node is shut down.
func (n *Node) IsDown() bool {
	n.c.mu.Lock()
	defer n.c.mu.Unlock()
	return n.down
}

// Script installs a canned reply.
func (n *Node) Script(s *Scripted) {
	n.c.mu.Lock()
	n.scripted = append(n.scripted, s)
	n.c.mu.Unlock()
}

// ClearScripts removes canned replies.
func (n *Node) ClearScripts() {
	n.c.mu.Lock()
	n.scripted = nil
	n.c.mu.Unlock()
}

// Records returns a copy of the command log (optionally only keyed/data commands).
func (n *Node) Records() []*Rec {
	n.c.mu.Lock()
	defer n.c.mu.Unlock()
	return append([]*Rec{}, n.Log...)
}

// ClearLog empties the command log.
func (n *Node) ClearLog() {
	n.c.mu.Lock()
	n.Log = nil
	n.c.mu.Unlock()
}

// AcceptCount returns the number of accepted connections so far.
func (n *Node) AcceptCount() int {
	n.c.mu.Lock()
	defer n.c.mu.Unlock()
	return n.Accepted
}

// ConnCount returns the number of open connections.
func (n *Node) ConnCount() int {
	n.c.mu.Lock()
	defer n.c.mu.Unlock()
	return len(n.conns)
}

// IsMaster tells whether the node currently is a master.
func (n *Node) IsMaster() bool {
	n.c.mu.Lock()
	defer n.c.mu.Unlock()
	return n.master == nil
}

// MasterIdx returns the index of the node's master (-1 for masters).
func (n *Node) MasterIdx() int {
	n.c.mu.Lock()
	defer n.c.mu.Unlock()
	if n.master == nil {
		return -1
	}
	return n.master.Idx
}

// Get returns the stored string value of key on this node's data.
func (n *Node) Get(key string) (*Entry, bool) {
	n.c.mu.Lock()
	defer n.c.mu.Unlock()
	dn := n.dataNode()
	if dn.store == nil {
		return nil, false
	}
	e, ok := dn.store.Data[key]
	return e, ok
}

// Keys returns the keys stored on this master.
func (n *Node) Keys() []string {
	n.c.mu.Lock()
	defer n.c.mu.Unlock()
	if n.store == nil {
		return nil
	}
	out := make([]string, 0, len(n.store.Data))
	for k := range n.store.Data {
		out = append(out, k)
	}
	sort.Strings(out)
	return out
}

// Preload stores a string value directly on the owner of the key.
func (c *Cluster) Preload(key string, val []byte) {
	c.mu.Lock()
	defer c.mu.Unlock()
	o := c.owner[Slot([]byte(key))]
	c.Nodes[o].store.Data[key] = &Entry{Kind: "string", Str: append([]byte{}, val...)}
}

// DataCommands filters the log for commands that are not protocol chatter.
func DataCommands(recs []*Rec) []*Rec {
	var out []*Rec
	for _, r := range recs {
		switch r.Cmd() {
		case "readonly", "cluster", "ping", "asking":
			continue
		}
		out = append(out, r)
	}
	return out
}

// KeyInSlotOfNode finds a key with the given prefix whose slot is currently
// owned by master idx (search with the harness' own CRC16).
func (c *Cluster) KeyFor(idx int, prefix string) string {
	for i := 0; ; i++ {
		k := fmt.Sprintf("%s%d", prefix, i)
		if c.Owner(Slot([]byte(k))) == idx {
			return k
		}
	}
}

// Equal bytes helper used by oracles.
func SameArgs(a, b [][]byte) bool {
	if len(a) != len(b) {
		return false
	}
	for i := range a {
		if !bytes.Equal(a[i], b[i]) {
			return false
		}
	}
	return true
}
