// Package cli is the sub-command registry of the harness binary.
package cli

import (
	"bufio"
	"encoding/json"
	"fmt"
	"os"
	"sort"
	"strconv"
)

// Case is one sub-command.
type Case func(args []string) error

var cases = map[string]Case{}

// Register adds a sub-command.
func Register(name string, c Case) { cases[name] = c }

// Main dispatches.
func Main() {
	if len(os.Args) < 2 {
		names := make([]string, 0, len(cases))
		for n := range cases {
			names = append(names, n)
		}
		sort.Strings(names)
		fmt.Fprintln(os.Stderr, "usage: harness <case> [args]; cases:", names)
		os.Exit(2)
	}
	c, ok := cases[os.Args[1]]
	if !ok {
		fmt.Fprintln(os.Stderr, "unknown case", os.Args[1])
		os.Exit(2)
	}
	if err := c(os.Args[2:]); err != nil {
		fmt.Fprintln(os.Stderr, "harness error:", err)
		os.Exit(3)
	}
}

// Seed returns VERIF_SEED (default 1).
func Seed() int64 {
	s, err := strconv.ParseInt(os.Getenv("VERIF_SEED"), 10, 64)
	if err != nil {
		return 1
	}
	return s
}

// Thorough reports whether VERIF_TIER=thorough.
func Thorough() bool { return os.Getenv("VERIF_TIER") == "thorough" }

// ReadNDJSON reads a file of JSON lines into out (pointer to slice handled by caller via callback).
func ReadNDJSON(path string, each func(line []byte) error) error {
	f, err := os.Open(path)
	if err != nil {
		return err
	}
	defer f.Close()
	sc := bufio.NewScanner(f)
	sc.Buffer(make([]byte, 1<<20), 1<<28)
	for sc.Scan() {
		b := sc.Bytes()
		if len(b) == 0 {
			continue
		}
		cp := append([]byte{}, b...)
		if err := each(cp); err != nil {
			return err
		}
	}
	return sc.Err()
}

// NDJSONWriter writes JSON lines.
type NDJSONWriter struct {
	f *os.File
	w *bufio.Writer
}

func NewNDJSONWriter(path string) (*NDJSONWriter, error) {
	f, err := os.Create(path)
	if err != nil {
		return nil, err
	}
	return &NDJSONWriter{f: f, w: bufio.NewWriterSize(f, 1<<20)}, nil
}

func (w *NDJSONWriter) Write(v interface{}) error {
	b, err := json.Marshal(v)
	if err != nil {
		return err
	}
	w.w.Write(b)
	return w.w.WriteByte('\n')
}

func (w *NDJSONWriter) Close() error {
	if err := w.w.Flush(); err != nil {
		return err
	}
	return w.f.Close()
}
