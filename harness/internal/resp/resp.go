// Package resp is the harness' own minimal RESP implementation. It is
// deliberately independent of the codec under test (proc/redis/codec.go).
package resp

import (
	"bufio"
	"bytes"
	"errors"
	"fmt"
	"io"
	"strconv"
)

// Value is a RESP value.
type Value struct {
	Kind byte // '+', '-', ':', '$', '*'
	Int  int64
	Str  []byte
	Null bool
	Arr  []Value
}

func Simple(s string) Value { return Value{Kind: '+', Str: []byte(s)} }
func Err(s string) Value    { return Value{Kind: '-', Str: []byte(s)} }
func Int(i int64) Value     { return Value{Kind: ':', Int: i} }
func Bulk(b []byte) Value   { return Value{Kind: '$', Str: append([]byte{}, b...)} }
func BulkS(s string) Value  { return Value{Kind: '$', Str: []byte(s)} }
func NullBulk() Value       { return Value{Kind: '$', Null: true} }
func NullArr() Value        { return Value{Kind: '*', Null: true} }
func Arr(vs ...Value) Value {
	if vs == nil {
		vs = []Value{}
	}
	return Value{Kind: '*', Arr: vs}
}

// Cmd builds an array of bulk strings.
func Cmd(args ...string) Value {
	vs := make([]Value, len(args))
	for i, a := range args {
		vs[i] = BulkS(a)
	}
	return Arr(vs...)
}

// CmdB builds an array of bulk strings from byte slices.
func CmdB(args ...[]byte) Value {
	vs := make([]Value, len(args))
	for i, a := range args {
		vs[i] = Bulk(a)
	}
	return Arr(vs...)
}

// Append encodes v onto b.
func Append(b []byte, v Value) []byte {
	b = append(b, v.Kind)
	switch v.Kind {
	case '+', '-':
		b = append(b, v.Str...)
		b = append(b, '\r', '\n')
	case ':':
		b = strconv.AppendInt(b, v.Int, 10)
		b = append(b, '\r', '\n')
	case '$':
		if v.Null {
			return append(b, '-', '1', '\r', '\n')
		}
		b = strconv.AppendInt(b, int64(len(v.Str)), 10)
		b = append(b, '\r', '\n')
		b = append(b, v.Str...)
		b = append(b, '\r', '\n')
	case '*':
		if v.Null {
			return append(b, '-', '1', '\r', '\n')
		}
		b = strconv.AppendInt(b, int64(len(v.Arr)), 10)
		b = append(b, '\r', '\n')
		for _, e := range v.Arr {
			b = Append(b, e)
		}
	}
	return b
}

// Bytes encodes v.
func Bytes(v Value) []byte { return Append(nil, v) }

// Equal compares two values structurally.
func Equal(a, b Value) bool {
	if a.Kind != b.Kind || a.Null != b.Null {
		return false
	}
	switch a.Kind {
	case ':':
		return a.Int == b.Int
	case '*':
		if len(a.Arr) != len(b.Arr) {
			return false
		}
		for i := range a.Arr {
			if !Equal(a.Arr[i], b.Arr[i]) {
				return false
			}
		}
		return true
	default:
		return bytes.Equal(a.Str, b.Str)
	}
}

// String renders v for logs (clipped).
func (v Value) String() string {
	clip := func(b []byte) string {
		if len(b) > 48 {
			return fmt.Sprintf("%q...(%d)", b[:48], len(b))
		}
		return fmt.Sprintf("%q", b)
	}
	switch v.Kind {
	case '+':
		return "+" + clip(v.Str)
	case '-':
		return "-" + clip(v.Str)
	case ':':
		return ":" + strconv.FormatInt(v.Int, 10)
	case '$':
		if v.Null {
			return "$nil"
		}
		return "$" + clip(v.Str)
	case '*':
		if v.Null {
			return "*nil"
		}
		s := "["
		for i, e := range v.Arr {
			if i > 0 {
				s += " "
			}
			if i >= 8 {
				s += fmt.Sprintf("...(%d)", len(v.Arr))
				break
			}
			s += e.String()
		}
		return s + "]"
	}
	return "?"
}

// IsErr tells whether v is an error reply.
func (v Value) IsErr() bool { return v.Kind == '-' }

var ErrProtocol = errors.New("resp: protocol error")

// Reader parses RESP values from a stream.
type Reader struct{ br *bufio.Reader }

func NewReader(r io.Reader) *Reader { return &Reader{br: bufio.NewReaderSize(r, 64*1024)} }

// ErrBareNewline: a simple string, error or length line contains a CR or LF that is not the terminating CRLF.
// RESP forbids it: a line-oriented client would see more (or other) replies than were sent.
var ErrBareNewline = errors.New("resp: line contains a bare CR or LF")

func (r *Reader) line() ([]byte, error) {
	b, err := r.br.ReadBytes('\n')
	if err != nil {
		return nil, err
	}
	if len(b) < 2 || b[len(b)-2] != '\r' {
		return nil, ErrBareNewline
	}
	b = b[:len(b)-2]
	if bytes.IndexByte(b, '\r') >= 0 {
		return nil, ErrBareNewline
	}
	return b, nil
}

// Read reads one value. Inline commands are returned as arrays of bulks.
func (r *Reader) Read() (Value, error) {
	k, err := r.br.ReadByte()
	if err != nil {
		return Value{}, err
	}
	switch k {
	case '+', '-':
		l, err := r.line()
		if err != nil {
			return Value{}, err
		}
		return Value{Kind: k, Str: l}, nil
	case ':':
		l, err := r.line()
		if err != nil {
			return Value{}, err
		}
		n, err := strconv.ParseInt(string(l), 10, 64)
		if err != nil {
			return Value{}, ErrProtocol
		}
		return Int(n), nil
	case '$':
		l, err := r.line()
		if err != nil {
			return Value{}, err
		}
		n, err := strconv.ParseInt(string(l), 10, 64)
		if err != nil || n < -1 {
			return Value{}, ErrProtocol
		}
		if n == -1 {
			return NullBulk(), nil
		}
		buf := make([]byte, n+2)
		if _, err := io.ReadFull(r.br, buf); err != nil {
			return Value{}, err
		}
		if buf[n] != '\r' || buf[n+1] != '\n' {
			return Value{}, ErrProtocol
		}
		return Value{Kind: '$', Str: buf[:n]}, nil
	case '*':
		l, err := r.line()
		if err != nil {
			return Value{}, err
		}
		n, err := strconv.ParseInt(string(l), 10, 64)
		if err != nil || n < -1 {
			return Value{}, ErrProtocol
		}
		if n == -1 {
			return NullArr(), nil
		}
		arr := make([]Value, 0, n)
		for i := int64(0); i < n; i++ {
			e, err := r.Read()
			if err != nil {
				return Value{}, err
			}
			arr = append(arr, e)
		}
		return Value{Kind: '*', Arr: arr}, nil
	default:
		// inline command
		r.br.UnreadByte()
		l, err := r.line()
		if err != nil {
			return Value{}, err
		}
		var arr []Value
		for _, f := range bytes.Fields(l) {
			arr = append(arr, Bulk(f))
		}
		return Arr(arr...), nil
	}
}

// Args returns the bulk strings of a command array.
func (v Value) Args() [][]byte {
	out := make([][]byte, 0, len(v.Arr))
	for _, e := range v.Arr {
		out = append(out, e.Str)
	}
	return out
}
