package c19

import (
	"encoding/json"
	"flag"
	"fmt"
	"math/rand"
	"runtime"
	"sort"
	"sync"
	"sync/atomic"

	"github.com/samaritan-proxy/samaritan/proc/redis/hotkey"

	"verifharness/internal/cli"
)

// ---- script format (spec/redis/HotKeyCollectorGen.tla, one behaviour per line)

type gstep struct {
	A   string `json:"a"`
	C   string `json:"c"`
	K   string `json:"k"`
	Clk int    `json:"clk"`
}

type gbeh struct {
	Cap   int     `json:"cap"`
	Steps []gstep `json:"steps"`
}

// op is one API-level operation on the real collector.
type op struct {
	Op      string `json:"op"` // incr free tick collect evict read
	C       string `json:"c,omitempty"`
	K       string `json:"k,omitempty"`
	N       int    `json:"n,omitempty"`
	TicksAt []int  `json:"ticksAt,omitempty"` // the clock advances after the j-th reading within the job
}

type history struct {
	Cap    int
	Ops    []op
	Source string // "tlc" | "random"
	Heavy  bool
}

// fold turns the per-key steps of a TLC behaviour into API-level operations.
//
// scale > 0: every model access becomes scale real accesses. scale == 0 ("hot and cold"): a key
// accessed once in a period keeps its single access (heat exactly 1), every other access becomes
// a few hundred, so that the heats of the hot keys end up close to each other.
func fold(b gbeh, scale int, r *rand.Rand) history {
	h := history{Cap: b.Cap, Source: "tlc"}
	job := -1 // index in h.Ops of the job in progress
	calls := 0
	// accesses per key in every period (a period ends with a collect)
	period := 0
	perKey := []map[string]int{{}}
	for _, s := range b.Steps {
		switch s.A {
		case "incr":
			perKey[period][s.K]++
		case "collect", "collect0":
			period++
			perKey = append(perKey, map[string]int{})
		}
	}
	period = 0
	for _, s := range b.Steps {
		switch s.A {
		case "incr":
			n := scale
			if scale == 0 {
				n = 1
				if perKey[period][s.K] > 1 {
					n = 400 + r.Intn(400)
				}
			}
			h.Ops = append(h.Ops, op{Op: "incr", C: s.C, K: s.K, N: n})
		case "free":
			h.Ops = append(h.Ops, op{Op: "free", C: s.C})
		case "tick":
			switch {
			case job >= 0 && calls > 0:
				h.Ops[job].TicksAt = append(h.Ops[job].TicksAt, calls)
			case job >= 0:
				// before the job's first reading of the clock: same as a tick before the job
				j := h.Ops[job]
				h.Ops[job] = op{Op: "tick"}
				h.Ops = append(h.Ops, j)
				job = len(h.Ops) - 1
			default:
				h.Ops = append(h.Ops, op{Op: "tick"})
			}
		case "collect0": // nothing latched: collect returns at once
			h.Ops = append(h.Ops, op{Op: "collect"})
			period++
		case "collect", "evict":
			if s.A == "collect" {
				period++
			}
			h.Ops = append(h.Ops, op{Op: s.A})
			job = len(h.Ops) - 1
			calls = s.Clk
		case "merge", "new", "halve":
			calls += s.Clk
		case "publish", "evicted":
			job = -1
		case "read":
			h.Ops = append(h.Ops, op{Op: "read"})
		}
	}
	return h
}

// randomHistory draws a history that aims at the interesting corners: several
// counters, more keys than capacity, heat spread over orders of magnitude,
// clock ticks before and inside jobs.
func randomHistory(r *rand.Rand, heavy bool) history {
	caps := []int{0, 1, 1, 2, 2, 3, 3, 5, 8}
	h := history{Cap: caps[r.Intn(len(caps))], Source: "random", Heavy: heavy}
	nk := 2 + r.Intn(9)
	nc := 1 + r.Intn(3)
	if h.Cap == 0 {
		// the per-backend counters share the collector's capacity and a capacity of 0 makes
		// Counter.Incr dereference nil (reported by c19-counter); nothing to drive here
		h.Cap = 1
	}
	keys := make([]string, nk)
	for i := range keys {
		keys[i] = fmt.Sprintf("k%d", i)
	}
	visits := func() int {
		switch x := r.Intn(10); {
		case x < 3:
			return 1 + r.Intn(5)
		case x < 6:
			return 10 + r.Intn(200)
		case x < 9 || !heavy:
			return 1000 + r.Intn(20000)
		default:
			return 100000 + r.Intn(400000)
		}
	}
	ticks := func(max int) []int {
		var out []int
		if r.Intn(100) < 55 {
			n := 1 + r.Intn(2)
			for i := 0; i < n; i++ {
				out = append(out, 1+r.Intn(max))
			}
			sort.Ints(out)
		}
		return out
	}
	periods := 2 + r.Intn(5)
	for p := 0; p < periods; p++ {
		na := r.Intn(nk + 2)
		if p == 0 && na == 0 {
			na = 2
		}
		for i := 0; i < na; i++ {
			h.Ops = append(h.Ops, op{Op: "incr", C: fmt.Sprintf("n%d", 1+r.Intn(nc)), K: keys[r.Intn(nk)], N: visits()})
		}
		if r.Intn(10) == 0 {
			h.Ops = append(h.Ops, op{Op: "free", C: fmt.Sprintf("n%d", 1+r.Intn(nc))})
		}
		if r.Intn(3) == 0 {
			h.Ops = append(h.Ops, op{Op: "tick"})
		}
		h.Ops = append(h.Ops, op{Op: "collect", TicksAt: ticks(nk)})
		if r.Intn(2) == 0 {
			h.Ops = append(h.Ops, op{Op: "read"})
		}
		for r.Intn(100) < 60 {
			if r.Intn(2) == 0 {
				h.Ops = append(h.Ops, op{Op: "tick"})
			}
			h.Ops = append(h.Ops, op{Op: "evict", TicksAt: ticks(h.Cap + 1)})
			if r.Intn(2) == 0 {
				h.Ops = append(h.Ops, op{Op: "read"})
			}
		}
	}
	return h
}

// targetedHistory aims at one corner of evictStale: the published keys carry different
// last-update minutes (the clock ticks late inside collect, so that only the last one or two
// merged keys are fresh), some stale keys have heat exactly 1 (they drop to zero when halved)
// and the hot keys have heats close to each other (a stale one that is halved falls below a
// fresh one). evictStale follows at once, in the minute the collect ended in.
func targetedHistory(r *rand.Rand) history {
	h := history{Cap: []int{4, 6, 8}[r.Intn(3)], Source: "targeted"}
	gen := 0
	for round := 0; round < 2; round++ {
		hot := 2 + r.Intn(2)
		cold := 1 + r.Intn(3)
		if hot+cold > h.Cap {
			cold = h.Cap - hot
		}
		base := 300 + r.Intn(2500)
		nc := 1 + r.Intn(2)
		n := 0
		for i := 0; i < hot; i++ {
			h.Ops = append(h.Ops, op{Op: "incr", C: fmt.Sprintf("n%d", 1+r.Intn(nc)), K: fmt.Sprintf("h%d", gen), N: base*(60+r.Intn(100))/100 + 1})
			gen++
			n++
		}
		for i := 0; i < cold; i++ {
			h.Ops = append(h.Ops, op{Op: "incr", C: fmt.Sprintf("n%d", 1+r.Intn(nc)), K: fmt.Sprintf("c%d", gen), N: 1})
			gen++
			n++
		}
		// readings of the clock in this collect: one per new key (the previous report has aged out)
		prevKeys := 0
		at := n - 1 - r.Intn(2)
		if at < 1 {
			at = 1
		}
		h.Ops = append(h.Ops, op{Op: "collect", TicksAt: []int{prevKeys + at}})
		if r.Intn(3) == 0 {
			h.Ops = append(h.Ops, op{Op: "read"})
		}
		h.Ops = append(h.Ops, op{Op: "evict"})
		h.Ops = append(h.Ops, op{Op: "read"})
		if round == 0 {
			// let the survivors of the first round age out before the second
			for i := 0; i < 7; i++ {
				h.Ops = append(h.Ops, op{Op: "tick"}, op{Op: "evict"})
			}
		}
	}
	return h
}

// stressHistory keeps HOTKEY readers busy while collect merges: 8 keys of equal length, every
// one of them with tens of thousands of visits in every period, so that the merge phase of a
// collect (one ReaptIncr trial per visit, then the sorted inserts) lasts milliseconds while the
// readers walk the published slice hundreds of times.
func stressHistory(r *rand.Rand, periods int) history {
	h := history{Cap: 8, Source: "reader-stress", Heavy: true}
	for p := 0; p < periods; p++ {
		for i := 0; i < 8; i++ {
			h.Ops = append(h.Ops, op{Op: "incr", C: fmt.Sprintf("n%d", 1+r.Intn(2)), K: fmt.Sprintf("k%d", i), N: 15000 + r.Intn(30000)})
		}
		h.Ops = append(h.Ops, op{Op: "collect"})
		if p%4 == 3 {
			h.Ops = append(h.Ops, op{Op: "tick"}, op{Op: "evict"}, op{Op: "read"})
		}
	}
	return h
}

// ---- scripted minute clock

type clock struct {
	mu     sync.Mutex
	minute int64
	calls  int
	tickAt map[int]int
}

func (c *clock) now() int64 {
	c.mu.Lock()
	defer c.mu.Unlock()
	v := c.minute
	c.calls++
	c.minute += int64(c.tickAt[c.calls])
	return v
}

func (c *clock) get() int64 {
	c.mu.Lock()
	defer c.mu.Unlock()
	return c.minute
}

func (c *clock) tick() int64 {
	c.mu.Lock()
	defer c.mu.Unlock()
	c.minute++
	return c.minute
}

func (c *clock) arm(at []int) {
	c.mu.Lock()
	defer c.mu.Unlock()
	c.calls = 0
	c.tickAt = map[int]int{}
	for _, j := range at {
		c.tickAt[j]++
	}
}

// ---- trace events (spec/redis/HotKeyCollectorTrace.tla)

type kv struct {
	K   string `json:"k"`
	V   int    `json:"v"`
	Lut int64  `json:"lut"`
}

type kn struct {
	K string `json:"k"`
	N uint64 `json:"n"`
}

type event struct {
	Ev      string `json:"ev"`
	H       int    `json:"h"`
	S       int    `json:"s"` // position of the event in its history
	Cap     int    `json:"cap,omitempty"`
	M       int64  `json:"m,omitempty"`
	C       string `json:"c,omitempty"`
	K       string `json:"k,omitempty"`
	N       int    `json:"n,omitempty"`
	M0      int64  `json:"m0,omitempty"`
	M1      int64  `json:"m1,omitempty"`
	Latched []kn   `json:"latched,omitempty"`
	Rep     []kv   `json:"rep,omitempty"`
	View    []kv   `json:"view,omitempty"`
	Again   []kv   `json:"again,omitempty"` // second walk over the same slice, when it differs from the first
	During  string `json:"during,omitempty"`
}

// MarshalJSON keeps empty slices as [] (TLC needs the fields to exist).
func (e event) MarshalJSON() ([]byte, error) {
	m := map[string]interface{}{"ev": e.Ev, "h": e.H, "s": e.S}
	nz := func(x []kv) []kv {
		if x == nil {
			return []kv{}
		}
		return x
	}
	switch e.Ev {
	case "reset":
		m["cap"], m["m"] = e.Cap, e.M
	case "incr":
		m["c"], m["k"], m["n"] = e.C, e.K, e.N
	case "free":
		m["c"] = e.C
	case "tick":
		m["m"] = e.M
	case "collect":
		l := e.Latched
		if l == nil {
			l = []kn{}
		}
		m["m0"], m["m1"], m["latched"], m["rep"] = e.M0, e.M1, l, nz(e.Rep)
	case "evict":
		m["m0"], m["m1"], m["rep"] = e.M0, e.M1, nz(e.Rep)
	case "read":
		m["view"] = nz(e.View)
	case "pread":
		m["view"], m["during"] = nz(e.View), e.During
		if e.Again != nil {
			m["again"] = e.Again
		}
	}
	return json.Marshal(m)
}

type hsummary struct {
	H           int    `json:"h"`
	Source      string `json:"source"`
	Cap         int    `json:"cap"`
	Ops         int    `json:"ops"`
	Collects    int    `json:"collects"`
	Evicts      int    `json:"evicts"`
	Straddles   int    `json:"straddles"` // jobs with a clock tick inside
	Reads       int    `json:"reads"`
	PReads      int    `json:"preads"` // distinct views seen by parallel readers
	PLoops      int64  `json:"ploops"` // reports read by the parallel readers
	During      int64  `json:"during"` // ... of which completely while a job was running
	ReaderPanic string `json:"reader_panic,omitempty"`
	Overlap     int    `json:"overlap"` // parallel views that differ from the report before and after the job
	First       int    `json:"first"`   // index of the history's first event
	Events      int    `json:"events"`
	Heavy       bool   `json:"heavy"`
	Panic       string `json:"panic,omitempty"`
	Script      []op   `json:"script,omitempty"`
}

func toKV(in []hotkey.VerifHotKey, withLut bool) []kv {
	out := make([]kv, 0, len(in))
	for _, x := range in {
		e := kv{K: x.Name, V: x.Heat}
		if withLut {
			e.Lut = x.Lut
		}
		out = append(out, e)
	}
	return out
}

func viewKey(v []kv) string {
	b, _ := json.Marshal(v)
	return string(b)
}

func stripLut(in []kv) []kv {
	out := make([]kv, len(in))
	for i, x := range in {
		out[i] = kv{K: x.K, V: x.V}
	}
	return out
}

// runHistory drives one history on a fresh real collector and returns its events.
func runHistory(id int, h history, clk *clock, readers int) (evs []event, sum hsummary) {
	sum = hsummary{H: id, Source: h.Source, Cap: h.Cap, Ops: len(h.Ops), Heavy: h.Heavy}
	defer func() {
		if r := recover(); r != nil {
			sum.Panic = fmt.Sprint(r)
		}
	}()
	coll := hotkey.NewCollector(uint8(h.Cap))
	counters := map[string]*hotkey.Counter{}
	clk.arm(nil)
	emit := func(e event) {
		e.H = id
		e.S = len(evs)
		evs = append(evs, e)
	}
	emit(event{Ev: "reset", Cap: h.Cap, M: clk.get()})

	// a job with HOTKEY readers in parallel: every reader does what handleHotKey does,
	// over and over, until the job is done
	job := func(kind string, run func()) []event {
		before := stripLut(toKV(hotkey.VerifKeys(coll), false))
		var stop int32
		var wg sync.WaitGroup
		var mu sync.Mutex
		type obs struct{ view, again []kv }
		seen := map[string]obs{}
		odd := map[string]obs{} // observations worth keeping whatever the cap on seen
		var loops, during int64
		var running int32
		var rpanic string
		started := make(chan struct{}, readers)
		for i := 0; i < readers; i++ {
			wg.Add(1)
			go func(i int) {
				defer wg.Done()
				first := true
				defer func() {
					if r := recover(); r != nil {
						mu.Lock()
						rpanic = fmt.Sprint(r)
						mu.Unlock()
						if first {
							started <- struct{}{}
						}
					}
				}()
				for atomic.LoadInt32(&stop) == 0 || first {
					inJob := atomic.LoadInt32(&running) == 1
					// what handleHotKey does: take the slice, walk it without the lock ...
					ks := coll.HotKeys()
					var between func(int)
					if i%2 == 1 {
						between = func(int) { runtime.Gosched() }
					}
					v := toKV(hotkey.VerifReadReport(ks, between), false)
					// ... and walk the very same slice once more: a report a reader holds must not change
					v2 := toKV(hotkey.VerifReadReport(ks, nil), false)
					inJob = inJob && atomic.LoadInt32(&running) == 1
					key := viewKey(v)
					o := obs{view: v}
					strange := false
					if k2 := viewKey(v2); k2 != key {
						key += "|" + k2
						o.again = v2
						strange = true
					}
					names := map[string]bool{}
					for j, e := range v {
						if names[e.K] || (j > 0 && v[j-1].V < e.V) {
							strange = true
						}
						names[e.K] = true
					}
					mu.Lock()
					if _, ok := seen[key]; !ok && len(seen) < 48 {
						seen[key] = o
					} else if _, ok2 := odd[key]; !ok && !ok2 && strange && len(odd) < 16 {
						odd[key] = o
					}
					loops++
					if inJob {
						during++
					}
					mu.Unlock()
					if first {
						first = false
						started <- struct{}{}
					}
				}
			}(i)
		}
		for i := 0; i < readers; i++ {
			<-started
		}
		atomic.StoreInt32(&running, 1)
		run()
		atomic.StoreInt32(&running, 0)
		atomic.StoreInt32(&stop, 1)
		wg.Wait()
		if rpanic != "" {
			sum.ReaderPanic = rpanic
		}
		sum.PLoops += loops
		sum.During += during
		after := stripLut(toKV(hotkey.VerifKeys(coll), false))
		for k, o := range odd {
			seen[k] = o
		}
		keys := make([]string, 0, len(seen))
		for k := range seen {
			keys = append(keys, k)
		}
		sort.Strings(keys)
		pending := []event{}
		for _, k := range keys {
			o := seen[k]
			if k != viewKey(before) && k != viewKey(after) {
				sum.Overlap++
			}
			sum.PReads++
			pending = append(pending, event{Ev: "pread", View: o.view, Again: o.again, During: kind})
		}
		return pending
	}

	for _, o := range h.Ops {
		switch o.Op {
		case "incr":
			c := counters[o.C]
			if c == nil {
				c = coll.AllocCounter(o.C)
				counters[o.C] = c
			}
			for i := 0; i < o.N; i++ {
				c.Incr(o.K)
			}
			emit(event{Ev: "incr", C: o.C, K: o.K, N: o.N})
		case "free":
			if c := counters[o.C]; c != nil {
				c.Free()
				delete(counters, o.C)
			}
			emit(event{Ev: "free", C: o.C})
		case "tick":
			emit(event{Ev: "tick", M: clk.tick()})
		case "collect":
			// what the latches will return: non-destructive snapshot of every registered counter
			sumv := map[string]uint64{}
			for _, name := range hotkey.VerifCounterNames(coll) {
				if c := counters[name]; c != nil {
					for k, n := range hotkey.VerifSnapshot(c).Counts {
						sumv[k] += n
					}
				}
			}
			lat := make([]kn, 0, len(sumv))
			for k, n := range sumv {
				lat = append(lat, kn{K: k, N: n})
			}
			sort.Slice(lat, func(i, j int) bool { return lat[i].K < lat[j].K })
			clk.arm(o.TicksAt)
			m0 := clk.get()
			jobEvents := job("collect", func() { hotkey.VerifCollect(coll) })
			m1 := clk.get()
			clk.arm(nil)
			if m1 > m0 {
				sum.Straddles++
			}
			sum.Collects++
			emit(event{Ev: "collect", M0: m0, M1: m1, Latched: lat, Rep: toKV(hotkey.VerifKeys(coll), true)})
			for _, e := range jobEvents {
				emit(e)
			}
		case "evict":
			clk.arm(o.TicksAt)
			m0 := clk.get()
			jobEvents := job("evict", func() { hotkey.VerifEvictStale(coll) })
			m1 := clk.get()
			clk.arm(nil)
			if m1 > m0 {
				sum.Straddles++
			}
			sum.Evicts++
			emit(event{Ev: "evict", M0: m0, M1: m1, Rep: toKV(hotkey.VerifKeys(coll), true)})
			for _, e := range jobEvents {
				emit(e)
			}
		case "read":
			v := toKV(hotkey.VerifReadReport(coll.HotKeys(), nil), false)
			sum.Reads++
			emit(event{Ev: "read", View: v})
		}
	}
	for _, c := range counters {
		c.Free()
	}
	return
}

// collectorRun: -in scripts.ndjson (TLC behaviours, optional) -n random histories
// -trace events.ndjson -sum summaries.ndjson
func collectorRun(args []string) error {
	fs := flag.NewFlagSet("c19-collector", flag.ContinueOnError)
	in := fs.String("in", "", "TLC behaviours (ndjson)")
	n := fs.Int("n", 20, "number of random histories")
	heavyN := fs.Int("heavy", 4, "number of random histories with very hot keys (long merges)")
	traceOut := fs.String("trace", "", "events (ndjson)")
	sumOut := fs.String("sum", "", "history summaries (ndjson)")
	readers := fs.Int("readers", 4, "parallel HOTKEY readers during every job")
	stress := fs.Int("stress", 2, "number of reader-stress histories (12 periods of very hot keys each)")
	win := fs.String("win", "", "TLC behaviours that end inside the evictStale window (ndjson)")
	winRep := fs.Int("winrep", 4, "how often every window behaviour is driven (hot-and-cold scaling, fresh random heats)")
	targeted := fs.Int("targeted", 12, "number of random histories aimed at the evictStale window")
	if err := fs.Parse(args); err != nil {
		return err
	}
	r := rand.New(rand.NewSource(cli.Seed()*7919 + 19))
	var hs []history
	if *in != "" {
		scales := []int{0, 1, 1, 2, 7, 60, 900}
		err := cli.ReadNDJSON(*in, func(line []byte) error {
			var b gbeh
			if err := json.Unmarshal(line, &b); err != nil {
				return err
			}
			hs = append(hs, fold(b, scales[r.Intn(len(scales))], r))
			return nil
		})
		if err != nil {
			return err
		}
	}
	if *win != "" {
		err := cli.ReadNDJSON(*win, func(line []byte) error {
			var b gbeh
			if err := json.Unmarshal(line, &b); err != nil {
				return err
			}
			for i := 0; i < *winRep; i++ {
				h := fold(b, 0, r)
				h.Source = "tlc-window"
				hs = append(hs, h)
			}
			return nil
		})
		if err != nil {
			return err
		}
	}
	for i := 0; i < *targeted; i++ {
		hs = append(hs, targetedHistory(r))
	}
	for i := 0; i < *stress; i++ {
		hs = append(hs, stressHistory(r, 12))
	}
	for i := 0; i < *n; i++ {
		hs = append(hs, randomHistory(r, i < *heavyN))
	}
	clk := &clock{minute: 1000}
	restore := hotkey.VerifSetClock(clk.now)
	defer restore()
	tw, err := cli.NewNDJSONWriter(*traceOut)
	if err != nil {
		return err
	}
	defer tw.Close()
	sw, err := cli.NewNDJSONWriter(*sumOut)
	if err != nil {
		return err
	}
	defer sw.Close()
	total := 0
	for id, h := range hs {
		evs, sum := runHistory(id, h, clk, *readers)
		sum.First = total
		sum.Events = len(evs)
		sum.Script = h.Ops
		total += len(evs)
		for _, e := range evs {
			if err := tw.Write(e); err != nil {
				return err
			}
		}
		if err := sw.Write(sum); err != nil {
			return err
		}
	}
	return nil
}
