package c19

import (
	"flag"
	"fmt"
	"math/rand"
	"regexp"
	"strconv"
	"strings"
	"sync"
	"sync/atomic"
	"time"

	pbredis "github.com/samaritan-proxy/samaritan/pb/config/protocol/redis"
	"github.com/samaritan-proxy/samaritan/proc/redis/hotkey"

	"verifharness/internal/cli"
	"verifharness/internal/resp"
	"verifharness/internal/simredis"
	"verifharness/internal/sut"
)

// e2eReport is one HOTKEY reply seen by a downstream client.
type e2eReport struct {
	Phase    string   `json:"phase"`
	Seq      int      `json:"seq"`
	Declared int      `json:"declared"` // "Collect N keys in this period!"
	Entries  []kv     `json:"entries"`
	Unknown  []string `json:"unknown,omitempty"` // reported keys the clients never accessed
	Parse    string   `json:"parse,omitempty"`   // parse problem, if any
	Text     string   `json:"text,omitempty"`    // raw reply (kept for defective reports only)
}

type e2eSummary struct {
	Summary   string `json:"summary"`
	Reports   int    `json:"reports"`
	Distinct  int    `json:"distinct"`
	NonEmpty  int    `json:"nonempty"`
	MaxLen    int    `json:"maxlen"`
	Accessed  int    `json:"accessed"`
	Requests  int64  `json:"requests"`
	CollectMs int    `json:"collect_ms"`
	Gated     int    `json:"gated"`     // HOTKEY replies that waited behind a gated request
	GatedOps  int64  `json:"gated_ops"` // large values written / read by other clients meanwhile
	Compress  bool   `json:"compression"`
}

var hotLine = regexp.MustCompile(`^counter: (\d+)  keyname: (.*)$`)
var hotHead = regexp.MustCompile(`^Collect (\d+) keys in this period!$`)

func parseHotKey(text string) (declared int, entries []kv, problem string) {
	lines := strings.Split(text, "\n")
	m := hotHead.FindStringSubmatch(lines[0])
	if m == nil {
		return 0, nil, "bad header: " + lines[0]
	}
	declared, _ = strconv.Atoi(m[1])
	for _, l := range lines[1:] {
		mm := hotLine.FindStringSubmatch(l)
		if mm == nil {
			return declared, entries, "bad line: " + l
		}
		v, _ := strconv.Atoi(mm[1])
		entries = append(entries, kv{K: mm[2], V: v})
	}
	return declared, entries, ""
}

func defective(r *e2eReport, capacity int) bool {
	if r.Parse != "" || len(r.Unknown) > 0 || len(r.Entries) > capacity || r.Declared != len(r.Entries) {
		return true
	}
	seen := map[string]bool{}
	for i, e := range r.Entries {
		if seen[e.K] || (i > 0 && r.Entries[i-1].V < e.V) {
			return true
		}
		seen[e.K] = true
	}
	return false
}

// e2eRun: a real Redis processor in front of a simulated cluster; clients access keys with very
// different frequencies (more keys than the collector's capacity of 50) while another client
// keeps asking HOTKEY; every reply is parsed and written out.
func e2eRun(args []string) error {
	fs := flag.NewFlagSet("c19-e2e", flag.ContinueOnError)
	out := fs.String("out", "", "reports (ndjson)")
	collectMs := fs.Int("collect-ms", 25, "collect interval of the processor's collector")
	storms := fs.Int("storms", 8, "number of hot-key storms")
	gated := fs.Int("gated", 40, "HOTKEY requests pipelined behind a gated request while other clients move large values")
	rampDiv := fs.Int("ramp-div", 3, "key i of the ramp is accessed 1+i*i/ramp-div times")
	if err := fs.Parse(args); err != nil {
		return err
	}
	w, err := cli.NewNDJSONWriter(*out)
	if err != nil {
		return err
	}
	defer w.Close()

	restore := hotkey.VerifSetDefaultIntervals(time.Duration(*collectMs)*time.Millisecond, time.Hour)
	defer restore()
	sut.FastRefresh()
	cl, err := simredis.NewCluster(3, 0)
	if err != nil {
		return err
	}
	defer cl.Close()
	// value compression is on: the compress filter shares the package's buffer pool with the handlers
	p, err := sut.StartRedis(sut.RedisOpts{Compression: &pbredis.Compression{
		Enable: true, Algorithm: pbredis.Compression_SNAPPY, Threshold: 64}}, cl.Addrs()[:3])
	if err != nil {
		return err
	}
	defer sut.StopWithin(p.P, 3*time.Second)
	if !sut.WaitRefresh(p.Name, 3*time.Second) {
		return fmt.Errorf("slot table not loaded")
	}

	r := rand.New(rand.NewSource(cli.Seed()*31 + 7))
	var accMu sync.Mutex
	accessed := map[string]bool{}
	var requests int64
	const capacity = 50

	// pipelined accesses of one key
	access := func(c *sut.Client, key string, n int) error {
		accMu.Lock()
		accessed[key] = true
		accMu.Unlock()
		const batch = 500
		for n > 0 {
			b := batch
			if n < b {
				b = n
			}
			var buf []byte
			for i := 0; i < b; i++ {
				buf = resp.Append(buf, resp.Cmd("get", key))
			}
			if err := c.Send(buf); err != nil {
				return err
			}
			for i := 0; i < b; i++ {
				if _, err := c.Recv(5 * time.Second); err != nil {
					return err
				}
			}
			atomic.AddInt64(&requests, int64(b))
			n -= b
		}
		return nil
	}

	seq := 0
	distinct := map[string]bool{}
	sum := e2eSummary{Summary: "e2e", CollectMs: *collectMs, Compress: true}
	var wmu sync.Mutex
	var record func(text, phase string) error
	ask := func(c *sut.Client, phase string) error {
		v, err := c.Do(5*time.Second, "hotkey")
		if err != nil {
			return err
		}
		return record(string(v.Str), phase)
	}
	record = func(text, phase string) error {
		rep := e2eReport{Phase: phase}
		rep.Declared, rep.Entries, rep.Parse = parseHotKey(text)
		accMu.Lock()
		for _, e := range rep.Entries {
			if !accessed[e.K] {
				rep.Unknown = append(rep.Unknown, e.K)
			}
		}
		accMu.Unlock()
		wmu.Lock()
		defer wmu.Unlock()
		sum.Reports++
		if len(rep.Entries) > 0 {
			sum.NonEmpty++
		}
		if len(rep.Entries) > sum.MaxLen {
			sum.MaxLen = len(rep.Entries)
		}
		bad := defective(&rep, capacity)
		if distinct[text] && !bad {
			return nil
		}
		distinct[text] = true
		if bad {
			rep.Text = text
		}
		rep.Seq = seq
		seq++
		return w.Write(rep)
	}

	c1, err := sut.Dial(p.Addr)
	if err != nil {
		return err
	}
	defer c1.Close()
	c2, err := sut.Dial(p.Addr)
	if err != nil {
		return err
	}
	defer c2.Close()

	// phase 1: nothing accessed yet
	if err := ask(c2, "empty"); err != nil {
		return err
	}

	// phase 2: 70 keys (capacity is 50) with frequencies over three orders of magnitude
	keys := make([]string, 70)
	for i := range keys {
		keys[i] = fmt.Sprintf("hk:%02d", i)
	}
	for i, k := range keys {
		n := 1 + i*i / *rampDiv
		if err := access(c1, k, n); err != nil {
			return err
		}
		if i%10 == 9 {
			if err := ask(c2, "ramp"); err != nil {
				return err
			}
		}
	}
	time.Sleep(time.Duration(3**collectMs) * time.Millisecond)
	if err := ask(c2, "settled"); err != nil {
		return err
	}

	// phase 3: storms - a so far cold key becomes very hot while a second client keeps asking
	var stop int32
	var wg sync.WaitGroup
	var askErr error
	wg.Add(1)
	go func() {
		defer wg.Done()
		for atomic.LoadInt32(&stop) == 0 {
			if err := ask(c2, "storm"); err != nil {
				askErr = err
				return
			}
		}
	}()
	for s := 0; s < *storms; s++ {
		k := keys[r.Intn(40)]
		if err := access(c1, k, 20000+r.Intn(20000)); err != nil {
			atomic.StoreInt32(&stop, 1)
			wg.Wait()
			return err
		}
	}
	time.Sleep(time.Duration(2**collectMs) * time.Millisecond)
	atomic.StoreInt32(&stop, 1)
	wg.Wait()
	if askErr != nil {
		return askErr
	}
	// phase 4: HOTKEY pipelined behind a request that the backend holds back: the HOTKEY reply waits in the
	// session's queue while other clients write and read large (compressed) values
	if *gated > 0 {
		slow := cl.KeyFor(0, "gate")
		accMu.Lock()
		accessed[slow] = true
		accMu.Unlock()
		var movers []*sut.Client
		var bigKeys []string
		for i := 0; i < 3; i++ {
			m, err := sut.Dial(p.Addr)
			if err != nil {
				return err
			}
			defer m.Close()
			movers = append(movers, m)
			k := cl.KeyFor(1+i%2, fmt.Sprintf("big%d", i))
			bigKeys = append(bigKeys, k)
			accMu.Lock()
			accessed[k] = true
			accMu.Unlock()
		}
		big := strings.Repeat("0123456789abcdef", 200)
		var gatedOps int64
		for g := 0; g < *gated; g++ {
			cl.Nodes[0].SetGate(true)
			if err := c1.Send(append(resp.Bytes(resp.Cmd("get", slow)), resp.Bytes(resp.Cmd("hotkey"))...)); err != nil {
				return err
			}
			if !cl.Nodes[0].WaitPending(1, 2*time.Second) {
				cl.Nodes[0].SetGate(false)
				return fmt.Errorf("gated request did not reach the backend")
			}
			var mg sync.WaitGroup
			var merr error
			for i, m := range movers {
				mg.Add(1)
				go func(i int, m *sut.Client) {
					defer mg.Done()
					for j := 0; j < 12; j++ {
						if _, err := m.Do(5*time.Second, "set", bigKeys[i], big+sut.Itoa(g*100+j)); err != nil {
							merr = err
							return
						}
						if _, err := m.Do(5*time.Second, "get", bigKeys[i]); err != nil {
							merr = err
							return
						}
						atomic.AddInt64(&gatedOps, 2)
						atomic.AddInt64(&requests, 2)
					}
				}(i, m)
			}
			mg.Wait()
			cl.Nodes[0].SetGate(false)
			if merr != nil {
				return merr
			}
			if _, err := c1.Recv(5 * time.Second); err != nil {
				return err
			}
			v, err := c1.Recv(5 * time.Second)
			if err != nil {
				return err
			}
			atomic.AddInt64(&requests, 1)
			if err := record(string(v.Str), "gated"); err != nil {
				return err
			}
			sum.Gated++
		}
		sum.GatedOps = gatedOps
	}
	if err := ask(c2, "final"); err != nil {
		return err
	}
	sum.Distinct = len(distinct)
	sum.Accessed = len(accessed)
	sum.Requests = atomic.LoadInt64(&requests)
	return w.Write(sum)
}
