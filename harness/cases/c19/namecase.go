package c19

import (
	"encoding/json"
	"flag"
	"fmt"
	"sort"
	"strings"
	"time"

	"github.com/samaritan-proxy/samaritan/proc/redis/hotkey"

	"verifharness/internal/cli"
	"verifharness/internal/simredis"
	"verifharness/internal/sut"
)

func init() { cli.Register("c19-namecase", nameCase) }

// ncVector is one test vector of spec/redis/HotKeyExtract.tla: a command family, the letter-case
// pattern of the command name, and what the model says the filter chain counts.
type ncVector struct {
	F      string `json:"f"`
	P      string `json:"p"`
	Counts string `json:"counts"`
}

type ncResult struct {
	F        string   `json:"f"`
	P        string   `json:"p"`
	Counts   string   `json:"counts"`
	Names    []string `json:"names"`    // command names as sent
	Requests int      `json:"requests"` // requests sent (all answered)
	Errors   int      `json:"errors"`   // error replies (informational)
	Keys     []string `json:"keys"`     // the key arguments of the requests of this vector
	NonKeys  []string `json:"nonkeys"`  // first arguments that are not keys (script, cursor)
	Reported []string `json:"reported"` // names listed by HOTKEY after this vector
	Unknown  []string `json:"unknown"`  // ... that are not a key of any request sent so far
	Parse    string   `json:"parse,omitempty"`
}

// withCase writes a lower-case command name in the given pattern.
func withCase(name, pattern string) string {
	switch pattern {
	case "lower":
		return name
	case "UPPER":
		return strings.ToUpper(name)
	case "Capitalised":
		return strings.ToUpper(name[:1]) + name[1:]
	case "mIXED": // lower first, rest upper
		return name[:1] + strings.ToUpper(name[1:])
	case "MiXED": // upper first, alternating
		b := []byte(name)
		for i := range b {
			if i%2 == 0 {
				b[i] = strings.ToUpper(string(b[i]))[0]
			}
		}
		return string(b)
	}
	return name
}

type ncRequest struct {
	args   []string
	keys   []string
	nonkey string
	repeat int
}

const ncScript = "return redis.call('get', KEYS[1])"

func ncRequests(f, p string) []ncRequest {
	var out []ncRequest
	key := func(cmd string, i int) string { return fmt.Sprintf("nc:%s:%s:%d", cmd, p, i) }
	switch f {
	case "simple":
		for _, c := range [][]string{{"get"}, {"set", "v"}, {"hset", "f", "v"}, {"lpush", "e"}, {"sadd", "m"}, {"zadd", "1", "m"},
			{"expire", "100"}, {"incr"}, {"hscan", "0"}, {"append", "x"}, {"strlen"}, {"ttl"}} {
			k := key(c[0], 0)
			out = append(out, ncRequest{args: append([]string{withCase(c[0], p), k}, c[1:]...), keys: []string{k}, repeat: 2})
		}
	case "multi":
		out = append(out,
			ncRequest{args: []string{withCase("mset", p), key("mset", 0), "v", key("mset", 1), "v"}, keys: []string{key("mset", 0), key("mset", 1)}, repeat: 2},
			ncRequest{args: []string{withCase("mget", p), key("mset", 0), key("mget", 1)}, keys: []string{key("mset", 0), key("mget", 1)}, repeat: 2},
			ncRequest{args: []string{withCase("exists", p), key("mset", 0), key("exists", 1)}, keys: []string{key("mset", 0), key("exists", 1)}, repeat: 2},
			ncRequest{args: []string{withCase("touch", p), key("mset", 1), key("touch", 1)}, keys: []string{key("mset", 1), key("touch", 1)}, repeat: 2},
			ncRequest{args: []string{withCase("del", p), key("mset", 0), key("del", 1)}, keys: []string{key("mset", 0), key("del", 1)}, repeat: 2})
	case "eval":
		// repeated: whatever gets counted must be hot enough to be listed
		out = append(out, ncRequest{args: []string{withCase("eval", p), ncScript, "1", key("eval", 0)}, keys: []string{key("eval", 0)}, nonkey: ncScript, repeat: 30})
	case "keyless":
		out = append(out,
			ncRequest{args: []string{withCase("scan", p), "0"}, nonkey: "0", repeat: 30},
			ncRequest{args: []string{withCase("scan", p), "0", "match", "nc:*", "count", "10"}, nonkey: "0", repeat: 10})
	}
	return out
}

// nameCase: -in vectors.ndjson -out results.ndjson. A real Redis processor in front of the simulated cluster
// (collect period 25 ms); for every vector the requests of that family are sent with the command name in that
// letter-case pattern, then HOTKEY is asked: every listed name must be a key argument of a request sent.
func nameCase(args []string) error {
	fs := flag.NewFlagSet("c19-namecase", flag.ContinueOnError)
	in := fs.String("in", "", "vectors (ndjson)")
	out := fs.String("out", "", "results (ndjson)")
	collectMs := fs.Int("collect-ms", 20, "collect interval of the processor's collector")
	if err := fs.Parse(args); err != nil {
		return err
	}
	var vecs []ncVector
	seen := map[string]bool{}
	err := cli.ReadNDJSON(*in, func(line []byte) error {
		var v ncVector
		if err := json.Unmarshal(line, &v); err != nil {
			return err
		}
		if !seen[v.F+"/"+v.P] {
			seen[v.F+"/"+v.P] = true
			vecs = append(vecs, v)
		}
		return nil
	})
	if err != nil {
		return err
	}
	sort.Slice(vecs, func(i, j int) bool {
		if vecs[i].F != vecs[j].F {
			return vecs[i].F < vecs[j].F
		}
		return vecs[i].P < vecs[j].P
	})
	w, err := cli.NewNDJSONWriter(*out)
	if err != nil {
		return err
	}
	defer w.Close()

	restore := hotkey.VerifSetDefaultIntervals(time.Duration(*collectMs)*time.Millisecond, time.Hour)
	defer restore()
	sut.FastRefresh()
	cl, err := simredis.NewCluster(3, 0)
	if err != nil {
		return err
	}
	defer cl.Close()
	p, err := sut.StartRedis(sut.RedisOpts{}, cl.Addrs()[:3])
	if err != nil {
		return err
	}
	defer sut.StopWithin(p.P, 3*time.Second)
	if !sut.WaitRefresh(p.Name, 3*time.Second) {
		return fmt.Errorf("slot table not loaded")
	}
	c, err := sut.Dial(p.Addr)
	if err != nil {
		return err
	}
	defer c.Close()

	allKeys := map[string]bool{}
	for _, v := range vecs {
		res := ncResult{F: v.F, P: v.P, Counts: v.Counts}
		nonkeys := map[string]bool{}
		for _, r := range ncRequests(v.F, v.P) {
			res.Names = append(res.Names, r.args[0])
			for _, k := range r.keys {
				if !allKeys[k] {
					allKeys[k] = true
				}
				res.Keys = append(res.Keys, k)
			}
			if r.nonkey != "" {
				nonkeys[r.nonkey] = true
			}
			for i := 0; i < r.repeat; i++ {
				rep, err := c.Do(5*time.Second, r.args...)
				if err != nil {
					return fmt.Errorf("%s/%s %v: %v", v.F, v.P, r.args, err)
				}
				res.Requests++
				if rep.IsErr() {
					res.Errors++
				}
			}
		}
		for k := range nonkeys {
			res.NonKeys = append(res.NonKeys, k)
		}
		sort.Strings(res.NonKeys)
		// let the collector latch and merge (several periods), then ask
		time.Sleep(time.Duration(4**collectMs) * time.Millisecond)
		rep, err := c.Do(5*time.Second, "hotkey")
		if err != nil {
			return err
		}
		_, entries, problem := parseHotKey(string(rep.Str))
		res.Parse = problem
		for _, e := range entries {
			res.Reported = append(res.Reported, e.K)
			if !allKeys[e.K] {
				res.Unknown = append(res.Unknown, e.K)
			}
		}
		if err := w.Write(res); err != nil {
			return err
		}
	}
	return nil
}
