// Package c19: hot-key counters and collector (property C19).
//
//	c19-counter   replay behaviours emitted by spec/redis/HotKeyGen.tla on the real hotkey.Counter
//	c19-collector seeded random histories on the real hotkey.Collector, recorded as a trace for
//	              spec/redis/HotKeyCollectorTrace.tla
//	c19-e2e       HOTKEY reply text through a real Redis processor
package c19

import (
	"encoding/json"
	"flag"
	"fmt"
	"reflect"
	"sort"

	"github.com/samaritan-proxy/samaritan/proc/redis/hotkey"

	"verifharness/internal/cli"
)

func init() {
	cli.Register("c19-counter", counterReplay)
	cli.Register("c19-collector", collectorRun)
	cli.Register("c19-e2e", e2eRun)
}

// kmap is a key -> count map; TLC prints an empty function as [].
type kmap map[string]uint64

func (m *kmap) UnmarshalJSON(b []byte) error {
	*m = kmap{}
	if len(b) > 0 && b[0] == '[' {
		return nil
	}
	var x map[string]uint64
	if err := json.Unmarshal(b, &x); err != nil {
		return err
	}
	*m = x
	return nil
}

type cnode struct {
	Freq uint64   `json:"freq"`
	Keys []string `json:"keys"`
}

// cstep is one step of a behaviour of HotKeyGen: the operation and the
// complete abstract state expected after it.
type cstep struct {
	Op     string  `json:"op"`
	K      string  `json:"k"`
	Cap    int     `json:"cap"`
	Counts kmap    `json:"counts"`
	Nodes  []cnode `json:"nodes"`
	Size   int     `json:"size"`
	Victim string  `json:"victim"`
	Out    kmap    `json:"out"`
}

type cmismatch struct {
	Step  int         `json:"step"`
	Op    string      `json:"op"`
	Field string      `json:"field"`
	Want  interface{} `json:"want"`
	Got   interface{} `json:"got"`
}

type cresult struct {
	ID      int  `json:"id"`
	Cap     int  `json:"cap"`
	Steps   int  `json:"steps"`
	Evicts  int  `json:"evicts"`
	Latches int  `json:"latches"`
	OK      bool `json:"ok"` // no drift from the model and no property break
	// Drift is the first step at which the real counter left the model (counts, order of the
	// keys, victim, structure of the lists, panic). The replay goes on after it.
	Drift *cmismatch `json:"drift,omitempty"`
	// Prop is the first break of a property of the statement, judged on the real object only:
	// size <= capacity, count of every tracked key = accesses since the real counter admitted it,
	// every evicted key had the lowest count among the keys tracked at that moment.
	Prop  *cmismatch  `json:"prop,omitempty"`
	Panic string      `json:"panic,omitempty"`
	Ops   [][2]string `json:"ops,omitempty"` // only for cases that are not OK
}

func nodesEqual(want []cnode, got []hotkey.VerifFreqNode) bool {
	if len(want) != len(got) {
		return false
	}
	for i := range want {
		if want[i].Freq != got[i].Freq || !reflect.DeepEqual(append([]string{}, want[i].Keys...), append([]string{}, got[i].Keys...)) {
			return false
		}
	}
	return true
}

func mapsEqual(a kmap, b map[string]uint64) bool {
	if len(a) != len(b) {
		return false
	}
	for k, v := range a {
		if w, ok := b[k]; !ok || w != v {
			return false
		}
	}
	return true
}

func copyCounts(m map[string]uint64) map[string]uint64 {
	out := make(map[string]uint64, len(m))
	for k, v := range m {
		out[k] = v
	}
	return out
}

func replayCounter(id int, steps []cstep) (res cresult) {
	res = cresult{ID: id, Steps: len(steps), OK: true}
	if len(steps) == 0 {
		return
	}
	res.Cap = steps[0].Cap
	notOK := func() {
		if res.OK {
			for _, s := range steps {
				res.Ops = append(res.Ops, [2]string{s.Op, s.K})
			}
		}
		res.OK = false
	}
	drift := func(i int, field string, want, got interface{}) {
		if res.Drift == nil {
			notOK()
			res.Drift = &cmismatch{Step: i, Op: steps[i].Op + " " + steps[i].K, Field: field, Want: want, Got: got}
		}
	}
	prop := func(i int, field string, want, got interface{}) {
		if res.Prop == nil {
			notOK()
			res.Prop = &cmismatch{Step: i, Op: steps[i].Op + " " + steps[i].K, Field: field, Want: want, Got: got}
		}
	}
	cur := 0
	defer func() {
		if r := recover(); r != nil {
			res.Panic = fmt.Sprint(r)
			drift(cur, "panic", "no panic", res.Panic)
		}
	}()
	freed := 0
	c := hotkey.NewCounter(uint8(res.Cap), func() { freed++ })
	prev := hotkey.VerifSnapshot(c)
	// accesses of every key since the REAL counter last admitted it
	since := map[string]uint64{}
	for i, s := range steps {
		cur = i
		wantFreed := freed
		var latched map[string]uint64
		switch s.Op {
		case "Incr":
			c.Incr(s.K)
		case "Latch":
			latched = c.Latch()
			res.Latches++
		case "Free":
			c.Free()
			wantFreed++
		default:
			drift(i, "op", "Incr|Latch|Free", s.Op)
			return
		}
		snap := hotkey.VerifSnapshot(c)

		// ---- the statement, judged on the real object
		switch s.Op {
		case "Incr":
			if _, tracked := prev.Counts[s.K]; tracked {
				since[s.K]++
			} else {
				since[s.K] = 1
			}
			var victims []string
			for k := range prev.Counts {
				if _, ok := snap.Counts[k]; !ok {
					victims = append(victims, k)
				}
			}
			sort.Strings(victims)
			if len(victims) > 0 {
				res.Evicts++
				min := ^uint64(0)
				for _, v := range prev.Counts {
					if v < min {
						min = v
					}
				}
				for _, v := range victims {
					delete(since, v)
					if prev.Counts[v] != min {
						prop(i, "evicts-minimum", map[string]interface{}{"lowest_count": min, "tracked_before": copyCounts(prev.Counts)},
							map[string]interface{}{"evicted": v, "count": prev.Counts[v]})
					}
				}
			}
			if _, ok := snap.Counts[s.K]; !ok && res.Cap > 0 {
				prop(i, "counts", "accessed key tracked", "accessed key "+s.K+" not tracked after Incr")
			}
		case "Latch":
			if !reflect.DeepEqual(map[string]uint64(latched), since) && !(len(latched) == 0 && len(since) == 0) {
				prop(i, "latched", copyCounts(since), latched)
			}
			since = map[string]uint64{}
		case "Free":
			since = map[string]uint64{}
		}
		if snap.Size > res.Cap || len(snap.Counts) > res.Cap {
			prop(i, "bounded", res.Cap, snap.Size)
		}
		if !reflect.DeepEqual(snap.Counts, since) && !(len(snap.Counts) == 0 && len(since) == 0) {
			prop(i, "counts", copyCounts(since), copyCounts(snap.Counts))
			// go on from what the counter says, so that one slip is reported once
			since = copyCounts(snap.Counts)
		}

		// ---- conformance with the model (only until the first drift: afterwards the model's
		// expectation describes a different counter)
		if res.Drift == nil {
			victim := ""
			if s.Op == "Incr" {
				for k := range prev.Counts {
					if _, ok := snap.Counts[k]; !ok {
						victim = k
					}
				}
			}
			switch {
			case len(snap.Integrity) > 0:
				drift(i, "integrity", "sound lists", snap.Integrity)
			case s.Op == "Latch" && !mapsEqual(s.Out, latched):
				drift(i, "latched", s.Out, latched)
			case freed != wantFreed:
				drift(i, "freeCb", wantFreed, freed)
			case snap.Size != s.Size:
				drift(i, "size", s.Size, snap.Size)
			case !mapsEqual(s.Counts, snap.Counts):
				drift(i, "counts", s.Counts, snap.Counts)
			case !nodesEqual(s.Nodes, snap.Nodes):
				drift(i, "order", s.Nodes, snap.Nodes)
			case victim != s.Victim:
				drift(i, "victim", s.Victim, victim)
			}
		}
		prev = snap
	}
	return
}

// counterReplay: -in behaviours.ndjson (one JSON array of steps per line) -out results.ndjson
func counterReplay(args []string) error {
	fs := flag.NewFlagSet("c19-counter", flag.ContinueOnError)
	in := fs.String("in", "", "behaviours (ndjson)")
	out := fs.String("out", "", "results (ndjson)")
	if err := fs.Parse(args); err != nil {
		return err
	}
	w, err := cli.NewNDJSONWriter(*out)
	if err != nil {
		return err
	}
	defer w.Close()
	id := 0
	err = cli.ReadNDJSON(*in, func(line []byte) error {
		var steps []cstep
		if err := json.Unmarshal(line, &steps); err != nil {
			return fmt.Errorf("behaviour %d: %v", id, err)
		}
		r := replayCounter(id, steps)
		id++
		return w.Write(r)
	})
	if err != nil {
		return err
	}
	// corner-case probes outside the model's constants (reported, not judged here)
	return w.Write(counterProbes())
}

type probeResult struct {
	Probe      string   `json:"probe"`
	Cap0Panics bool     `json:"cap0_panics"`
	Cap0Msg    string   `json:"cap0_msg,omitempty"`
	Cap255     string   `json:"cap255"`
	Notes      []string `json:"notes,omitempty"`
}

func counterProbes() probeResult {
	p := probeResult{Probe: "corner-cases"}
	func() {
		defer func() {
			if r := recover(); r != nil {
				p.Cap0Panics = true
				p.Cap0Msg = fmt.Sprint(r)
			}
		}()
		c := hotkey.NewCounter(0, nil)
		c.Incr("a")
		s := hotkey.VerifSnapshot(c)
		if s.Size > 0 {
			p.Notes = append(p.Notes, fmt.Sprintf("capacity 0 tracks %d keys", s.Size))
		}
	}()
	// capacity 255 (largest uint8): 300 distinct keys, then re-access
	c := hotkey.NewCounter(255, nil)
	for i := 0; i < 300; i++ {
		c.Incr(fmt.Sprintf("k%03d", i))
	}
	s := hotkey.VerifSnapshot(c)
	keys := make([]string, 0, len(s.Counts))
	for k := range s.Counts {
		keys = append(keys, k)
	}
	sort.Strings(keys)
	switch {
	case len(s.Integrity) > 0:
		p.Cap255 = "integrity: " + s.Integrity[0]
	case s.Size != 255:
		p.Cap255 = fmt.Sprintf("size %d", s.Size)
	case keys[0] != "k045":
		p.Cap255 = "oldest survivor " + keys[0]
	default:
		p.Cap255 = "ok"
	}
	return p
}
