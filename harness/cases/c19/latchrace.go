package c19

import (
	"flag"
	"fmt"
	"math/rand"
	"runtime"
	"sync"
	"sync/atomic"
	"time"

	"github.com/samaritan-proxy/samaritan/proc/redis/hotkey"

	"verifharness/internal/cli"
)

func init() { cli.Register("c19-latchrace", latchRace) }

// latchRound is one free-running round: writer goroutines (the backend write loops: hotKeyFilter.Do ->
// Counter.Incr) against a latching loop (Collector.collect -> Counter.Latch) on one counter whose capacity
// is larger than the number of keys, so that no key is ever evicted and, per key,
//
//	accesses made == sum of the counts returned by all latches + count still held at the end
//
// (spec/redis/HotKeyLatch.tla, invariant Conservation).
type latchRound struct {
	Round           int               `json:"round"`
	Attempt         int               `json:"attempt"`
	BudgetExhausted bool              `json:"budget_exhausted,omitempty"`
	Writers         int               `json:"writers"`
	Keys            int               `json:"keys"`
	Capacity        int               `json:"capacity"`
	Accesses        map[string]uint64 `json:"accesses"`  // per key, counted by the writers themselves
	Latched         map[string]uint64 `json:"latched"`   // per key, sum over all latches
	Remaining       map[string]uint64 `json:"remaining"` // per key, snapshot after the writers stopped
	Latches         int               `json:"latches"`   // latches while at least one writer was running
	NonEmpty        int               `json:"nonempty"`  // ... that returned something
	Total           uint64            `json:"total"`
	Lost            int64             `json:"lost"` // total accesses - latched - remaining (0 when exact)
	MaxSize         int               `json:"maxsize"`
	Integrity       []string          `json:"integrity,omitempty"`
}

func runLatchRound(id, writers, nkeys, perWriter int, seed int64) latchRound {
	res := latchRound{Round: id, Writers: writers, Keys: nkeys, Capacity: 4 * nkeys,
		Accesses: map[string]uint64{}, Latched: map[string]uint64{}, Remaining: map[string]uint64{}}
	c := hotkey.NewCounter(uint8(res.Capacity), nil)
	keys := make([]string, nkeys)
	for i := range keys {
		keys[i] = fmt.Sprintf("key:%d", i)
	}
	per := make([][]uint64, writers) // per writer, per key
	var wg sync.WaitGroup
	var running int32 = int32(writers)
	var progress, latchCount int64
	var waiting int32
	const maxLead = 256
	start := make(chan struct{})
	for w := 0; w < writers; w++ {
		per[w] = make([]uint64, nkeys)
		wg.Add(1)
		go func(w int) {
			defer wg.Done()
			defer atomic.AddInt32(&running, -1)
			r := rand.New(rand.NewSource(seed*131 + int64(w)))
			<-start
			seen := atomic.LoadInt64(&latchCount)
			lead := 0
			for i := 0; i < perWriter; i++ {
				k := r.Intn(nkeys)
				c.Incr(keys[k])
				per[w][k]++
				lead++
				if i&31 == 31 {
					atomic.AddInt64(&progress, 32)
					if n := atomic.LoadInt64(&latchCount); n != seen {
						seen, lead = n, 0
					}
				}
				// a writer never runs more than maxLead accesses ahead of the latcher: when the latcher is
				// starved the writer waits for the next latch (which then starts while the other writers
				// and, right after it, this one are running), so that the number of latches that fall
				// between accesses does not depend on the scheduler's mood
				if lead >= maxLead {
					atomic.AddInt64(&progress, 1)
					atomic.AddInt32(&waiting, 1)
					for atomic.LoadInt64(&latchCount) == seen {
						runtime.Gosched()
					}
					atomic.AddInt32(&waiting, -1)
					seen, lead = atomic.LoadInt64(&latchCount), 0
				}
			}
		}(w)
	}
	close(start)
	var last int64
	for atomic.LoadInt32(&running) > 0 {
		// the collector latches every now and then, not in a busy loop: wait until the writers have
		// made some accesses since the previous latch (they keep going while the latch runs)
		for atomic.LoadInt64(&progress) == last && atomic.LoadInt32(&running) > 0 && atomic.LoadInt32(&waiting) == 0 {
			runtime.Gosched()
		}
		last = atomic.LoadInt64(&progress)
		// release the waiting writers first: the latch below runs while they resume
		atomic.AddInt64(&latchCount, 1)
		m := c.Latch()
		res.Latches++
		if len(m) > 0 {
			res.NonEmpty++
		}
		if len(m) > res.MaxSize {
			res.MaxSize = len(m)
		}
		for k, v := range m {
			res.Latched[k] += v
		}
		runtime.Gosched() // let the released writers run even when there is a single P
	}
	wg.Wait()
	snap := hotkey.VerifSnapshot(c)
	res.Integrity = snap.Integrity
	for k, v := range snap.Counts {
		res.Remaining[k] = v
	}
	var total, got uint64
	for k := range keys {
		var n uint64
		for w := 0; w < writers; w++ {
			n += per[w][k]
		}
		res.Accesses[keys[k]] = n
		total += n
		got += res.Latched[keys[k]] + res.Remaining[keys[k]]
	}
	res.Total = total
	res.Lost = int64(total) - int64(got)
	return res
}

// latchRace: -rounds N -per accesses-per-writer -out results.ndjson
func latchRace(args []string) error {
	fs := flag.NewFlagSet("c19-latchrace", flag.ContinueOnError)
	rounds := fs.Int("rounds", 6, "rounds (1..4 writers in turn)")
	per := fs.Int("per", 60000, "accesses per writer")
	out := fs.String("out", "", "results (ndjson)")
	budgetMs := fs.Int("budget-ms", 8000, "wall-clock budget for repeating rounds that did not interleave")
	minLatches := fs.Int("min-latches", 30, "latches that returned counts while writers ran, per round")
	if err := fs.Parse(args); err != nil {
		return err
	}
	w, err := cli.NewNDJSONWriter(*out)
	if err != nil {
		return err
	}
	defer w.Close()
	t0 := time.Now()
	for i := 0; i < *rounds; i++ {
		var r latchRound
		for attempt := 0; ; attempt++ {
			// self-adjusting: a round in which too few latches fell between the writers' accesses (starved
			// scheduler) is repeated until the criterion is met or the wall-clock budget is used up
			r = runLatchRound(i, 1+i%4, 3+i%5, *per, cli.Seed()*1000+int64(i)+int64(attempt)*7)
			r.Attempt = attempt
			if r.NonEmpty >= *minLatches || r.Lost != 0 {
				break
			}
			if time.Since(t0) > time.Duration(*budgetMs)*time.Millisecond {
				r.BudgetExhausted = true
				break
			}
		}
		if err := w.Write(r); err != nil {
			return err
		}
	}
	return nil
}
