// Package c20 drives a real TCP processor through random connection histories
// (normal traffic, dial failures, host removal with open relays, connection
// limit rejections, stop with open connections) and reads the service's
// statistics at quiescence.
package c20

import (
	"flag"
	"fmt"
	"io"
	"math/rand"
	"net"
	"sync"
	"time"

	"github.com/samaritan-proxy/samaritan/host"
	"github.com/samaritan-proxy/samaritan/pb/common"
	"github.com/samaritan-proxy/samaritan/pb/config/protocol"
	"github.com/samaritan-proxy/samaritan/pb/config/service"
	"github.com/samaritan-proxy/samaritan/proc"
	_ "github.com/samaritan-proxy/samaritan/proc/tcp"

	"verifharness/internal/cli"
	"verifharness/internal/sut"
)

func init() { cli.Register("c20-tcp", tcpStats) }

type echoBackend struct {
	ln    net.Listener
	addr  string
	mu    sync.Mutex
	conns []net.Conn
}

func newEcho() (*echoBackend, error) {
	ln, err := net.Listen("tcp", "127.0.0.1:0")
	if err != nil {
		return nil, err
	}
	b := &echoBackend{ln: ln, addr: ln.Addr().String()}
	go func() {
		for {
			c, err := ln.Accept()
			if err != nil {
				return
			}
			b.mu.Lock()
			b.conns = append(b.conns, c)
			b.mu.Unlock()
			go func() { io.Copy(c, c); c.Close() }()
		}
	}()
	return b, nil
}

func (b *echoBackend) close() {
	b.ln.Close()
	b.mu.Lock()
	for _, c := range b.conns {
		c.Close()
	}
	b.mu.Unlock()
}

type tcpResult struct {
	Run     int              `json:"run"`
	Actions []string         `json:"actions"`
	Stats   map[string]int64 `json:"stats"`
	StopOK  bool             `json:"stopOK"`
	Err     string           `json:"err,omitempty"`
}

func tcpOnce(run int, rnd *rand.Rand) (res tcpResult) {
	res = tcpResult{Run: run}
	b1, err := newEcho()
	if err != nil {
		res.Err = err.Error()
		return
	}
	defer b1.close()
	b2, err := newEcho()
	if err != nil {
		res.Err = err.Error()
		return
	}
	defer b2.close()
	port := sut.FreePort()
	to := 300 * time.Millisecond
	idle := 5 * time.Second
	limit := uint32(0)
	if rnd.Intn(3) == 0 {
		limit = uint32(1 + rnd.Intn(3))
	}
	cfg := &service.Config{
		Listener:       &service.Listener{Address: &common.Address{Ip: "127.0.0.1", Port: uint32(port)}, ConnectionLimit: limit},
		ConnectTimeout: &to,
		IdleTimeout:    &idle,
		Protocol:       protocol.TCP,
	}
	name := sut.UniqueName("tcp")
	p, err := proc.New(name, cfg, []*host.Host{host.New(b1.addr), host.New(b2.addr)})
	if err != nil {
		res.Err = "new: " + err.Error()
		return
	}
	if err := p.Start(); err != nil {
		res.Err = "start: " + err.Error()
		return
	}
	addr := fmt.Sprintf("127.0.0.1:%d", port)
	if !sut.WaitListening(addr, 3*time.Second) {
		res.Err = "not listening"
		return
	}
	var open []net.Conn
	act := func(s string) { res.Actions = append(res.Actions, s) }
	n := 4 + rnd.Intn(12)
	for i := 0; i < n; i++ {
		switch rnd.Intn(7) {
		case 0, 1, 2: // a connection that exchanges data and is closed by the client
			c, err := net.DialTimeout("tcp", addr, time.Second)
			if err != nil {
				continue
			}
			c.SetDeadline(time.Now().Add(2 * time.Second))
			c.Write([]byte("hello"))
			buf := make([]byte, 5)
			io.ReadFull(c, buf)
			c.Close()
			act("conn+close")
		case 3: // a connection that stays open
			c, err := net.DialTimeout("tcp", addr, time.Second)
			if err != nil {
				continue
			}
			c.SetDeadline(time.Now().Add(2 * time.Second))
			c.Write([]byte("x"))
			buf := make([]byte, 1)
			c.Read(buf)
			open = append(open, c)
			act("conn+keep")
		case 4: // backend refuses: dial failure
			b2.ln.Close()
			act("backend2-down")
		case 5: // host removed while relays to it are open
			p.OnSvcHostRemove([]*host.Host{host.New(b1.addr)})
			act("remove-host1")
		case 6:
			p.OnSvcHostAdd([]*host.Host{host.New(b1.addr)})
			act("add-host1")
		}
	}
	if rnd.Intn(2) == 0 {
		for _, c := range open {
			c.Close()
		}
		open = nil
		act("close-all")
		time.Sleep(30 * time.Millisecond)
	} else {
		act("stop-with-open-conns")
	}
	res.StopOK = sut.StopWithin(p, 5*time.Second)
	time.Sleep(30 * time.Millisecond)
	res.Stats = sut.ServiceStats(name)
	for _, c := range open {
		c.Close()
	}
	return
}

// tcpChurn: connections arrive in bursts while a host is removed from and added to the host set as fast as
// possible, so that removals fall into every window of a connection's life (picked, being dialed, dialed,
// piping). The statistics are read once the service is quiescent.
func tcpChurn(run int) (res tcpResult) {
	res = tcpResult{Run: run, Actions: []string{"host-churn"}}
	b1, err := newEcho()
	if err != nil {
		res.Err = err.Error()
		return
	}
	defer b1.close()
	b2, err := newEcho()
	if err != nil {
		res.Err = err.Error()
		return
	}
	defer b2.close()
	port := sut.FreePort()
	to := 300 * time.Millisecond
	idle := 5 * time.Second
	cfg := &service.Config{
		Listener:       &service.Listener{Address: &common.Address{Ip: "127.0.0.1", Port: uint32(port)}},
		ConnectTimeout: &to,
		IdleTimeout:    &idle,
		Protocol:       protocol.TCP,
	}
	name := sut.UniqueName("tcpchurn")
	p, err := proc.New(name, cfg, []*host.Host{host.New(b1.addr), host.New(b2.addr)})
	if err != nil {
		res.Err = "new: " + err.Error()
		return
	}
	if err := p.Start(); err != nil {
		res.Err = "start: " + err.Error()
		return
	}
	addr := fmt.Sprintf("127.0.0.1:%d", port)
	if !sut.WaitListening(addr, 3*time.Second) {
		res.Err = "not listening"
		return
	}
	stop := make(chan struct{})
	var toggler sync.WaitGroup
	toggler.Add(1)
	go func() {
		defer toggler.Done()
		for {
			select {
			case <-stop:
				return
			default:
			}
			p.OnSvcHostRemove([]*host.Host{host.New(b1.addr)})
			p.OnSvcHostAdd([]*host.Host{host.New(b1.addr)})
		}
	}()
	var workers sync.WaitGroup
	for w := 0; w < 8; w++ {
		workers.Add(1)
		go func() {
			defer workers.Done()
			for i := 0; i < 25; i++ {
				c, err := net.DialTimeout("tcp", addr, time.Second)
				if err != nil {
					continue
				}
				c.SetDeadline(time.Now().Add(300 * time.Millisecond))
				c.Write([]byte("hello"))
				buf := make([]byte, 5)
				io.ReadFull(c, buf) // may fail: the relay is torn down when its host is removed
				c.Close()
			}
		}()
	}
	workers.Wait()
	close(stop)
	toggler.Wait()
	// quiescence: every client connection is closed; give the relays time to notice
	dl := time.Now().Add(3 * time.Second)
	for time.Now().Before(dl) {
		st := sut.ServiceStats(name)
		if st["downstream.cx_active"] == 0 && st["upstream.cx_active"] == 0 &&
			st["downstream.cx_total"] == st["downstream.cx_destroy_total"] && st["upstream.cx_total"] == st["upstream.cx_destroy_total"] {
			break
		}
		time.Sleep(10 * time.Millisecond)
	}
	res.StopOK = sut.StopWithin(p, 5*time.Second)
	time.Sleep(30 * time.Millisecond)
	res.Stats = sut.ServiceStats(name)
	return
}

func tcpStats(args []string) error {
	fs := flag.NewFlagSet("c20-tcp", flag.ContinueOnError)
	out := fs.String("out", "", "results (ndjson)")
	runs := fs.Int("runs", 20, "runs")
	if err := fs.Parse(args); err != nil {
		return err
	}
	w, err := cli.NewNDJSONWriter(*out)
	if err != nil {
		return err
	}
	defer w.Close()
	rnd := rand.New(rand.NewSource(cli.Seed()))
	for i := 1; i <= *runs; i++ {
		if err := w.Write(tcpOnce(i, rnd)); err != nil {
			return err
		}
	}
	churns := 2
	if cli.Thorough() {
		churns = 10
	}
	for i := 1; i <= churns; i++ {
		if err := w.Write(tcpChurn(*runs + i)); err != nil {
			return err
		}
	}
	return nil
}
