package c20

// c20-reqstats replays behaviours of spec/redis/ReqStats.tla (emitted by
// ReqStatsGen) on a real Redis processor and reads the service's statistics
// once the service is stopped and quiescent.
//
// Every keyed request of the module owns a pair of simulated cluster nodes
// (home, redirection target) and the slots refresher owns one more node (the
// only seed host), all of them holding their replies until the behaviour
// releases them, so that any completion order of the module is feasible on
// the FIFO backend connections. Stop closes the upstream's quit latch first
// and tells every backend client to quit at once, so what can still happen
// afterwards is done by goroutines that were already on their way; they are
// held at verifhook gates before the stop begins and released afterwards:
// the refresher after it took a trigger ("upstream.loopRefreshSlots.picked"),
// a backend reader with a reply in hand ("client.loopRead.paired"), a session
// reader with a decoded request ("session.loopRead.decoded").

import (
	"encoding/json"
	"flag"
	"fmt"
	"os"
	"runtime/pprof"
	"strings"
	"sync"
	"time"

	"github.com/samaritan-proxy/samaritan/host"
	predis "github.com/samaritan-proxy/samaritan/proc/redis"

	"verifharness/internal/cli"
	"verifharness/internal/sched"
	"verifharness/internal/simredis"
	"verifharness/internal/sut"
)

func init() { cli.Register("c20-reqstats", reqStats) }

type rsStep struct {
	A  string `json:"a"`
	R  int    `json:"r"`
	OK bool   `json:"ok"`
}

type rsBeh struct {
	ID     int              `json:"id"`
	Strata []string         `json:"strata"`
	Steps  []rsStep         `json:"steps"`
	Known  []bool           `json:"known"`
	Expect map[string]int64 `json:"expect"`
}

type rsResult struct {
	ID             int                 `json:"id"`
	Strata         []string            `json:"strata"`
	Steps          int                 `json:"steps"`
	Followed       int                 `json:"followed"`
	Exact          bool                `json:"exact"`
	Diverged       []string            `json:"diverged,omitempty"`
	Stats          map[string]int64    `json:"stats,omitempty"`
	Expect         map[string]int64    `json:"expect"`
	Got            map[string]int64    `json:"got,omitempty"`
	ExitedExpected int                 `json:"exitedExpected"` // sends answered "upstream exited" in the behaviour
	ExitedSeen     int                 `json:"exitedSeen"`
	Completions    map[string][]string `json:"completions,omitempty"`
	NotCompleted   []string            `json:"notCompleted,omitempty"`
	Double         []string            `json:"double,omitempty"`
	StopOK         bool                `json:"stopOK"`
	WallMs         int64               `json:"wallMs"`
	Err            string              `json:"err,omitempty"`
	Dump           string              `json:"dump,omitempty"` // goroutines of the processor when Stop hangs
}

func goroutineDump() string {
	var sb strings.Builder
	pprof.Lookup("goroutine").WriteTo(&sb, 2)
	var keep []string
	for _, g := range strings.Split(sb.String(), "\n\n") {
		if strings.Contains(g, "samaritan/proc") {
			keep = append(keep, g)
		}
	}
	out := strings.Join(keep, "\n\n")
	if len(out) > 24000 {
		out = out[:24000]
	}
	return out
}

const (
	rsWait         = 5 * time.Second
	keyPicked      = "refresh.picked"
	upstreamExited = "upstream exited"
)

// rsTrail observes completions and maps hook points to gate keys.
type rsTrail struct {
	mu   sync.Mutex
	u    interface{}         // the upstream of the processor under test
	comp map[string][]string // request key ("cluster" for the refresher) -> answers
}

func (t *rsTrail) key(point string, a, b interface{}) string {
	switch point {
	case "upstream.loopRefreshSlots.picked":
		t.mu.Lock()
		if t.u == nil {
			t.u = a
		}
		mine := t.u == a
		t.mu.Unlock()
		if mine {
			return keyPicked
		}
	case "client.loopRead.paired":
		if k := rsReqKey(b); k != "" {
			return "paired:" + k
		}
	case "session.loopRead.decoded":
		return "decoded:" + predis.VerifDescribe(a).Addr
	case "session.loopRead.handled":
		return "handled:" + predis.VerifDescribe(a).Addr
	case "simpleRequest.SetResponse":
		k := rsReqKey(a)
		if k == "" {
			return ""
		}
		resp := predis.VerifDescribe(b)
		txt := strings.Join(resp.Args, " ")
		if len(txt) > 48 {
			txt = txt[:48]
		}
		t.mu.Lock()
		t.comp[k] = append(t.comp[k], txt)
		t.mu.Unlock()
	}
	return ""
}

// rsReqKey names the request passed to a hook point: the key of a GET, "cluster" for the refresher's request.
func rsReqKey(obj interface{}) string {
	req := predis.VerifDescribe(obj)
	if len(req.Args) == 0 {
		return ""
	}
	switch strings.ToLower(req.Args[0]) {
	case "cluster":
		return "cluster"
	case "get":
		if len(req.Args) > 1 {
			return req.Args[1]
		}
	}
	return ""
}

func (t *rsTrail) count(k string) int {
	t.mu.Lock()
	defer t.mu.Unlock()
	return len(t.comp[k])
}

func (t *rsTrail) upstream() interface{} {
	t.mu.Lock()
	defer t.mu.Unlock()
	return t.u
}

func waitFor(d time.Duration, cond func() bool) bool {
	dl := time.Now().Add(d)
	for {
		if cond() {
			return true
		}
		if time.Now().After(dl) {
			return false
		}
		time.Sleep(200 * time.Microsecond)
	}
}

// arrivals counts the commands cmd (with first argument arg, if not empty) received by n.
func arrivals(n *simredis.Node, cmd, arg string) int {
	c := 0
	for _, r := range n.Records() {
		if r.Cmd() != cmd {
			continue
		}
		if arg != "" && (len(r.Args) < 2 || string(r.Args[1]) != arg) {
			continue
		}
		c++
	}
	return c
}

type rsReq struct {
	key     string
	home    *simredis.Node
	alt     *simredis.Node
	cur     *simredis.Node
	sends   int
	arrived map[int]int // node index -> arrivals so far
	conn    *sut.Client
	forward bool
	decoded string // gate key of the session reader that holds the request, "" when it does not
	inhand  bool   // a backend reader is held with the reply
}

func (q *rsReq) other() *simredis.Node {
	if q.cur == q.home {
		return q.alt
	}
	return q.home
}

// next step of request r after step i
func rsNext(steps []rsStep, i, r int) rsStep {
	for j := i + 1; j < len(steps); j++ {
		if steps[j].R == r {
			return steps[j]
		}
	}
	return rsStep{}
}

// fate of request r after step i: "redirect", "ok", "fail" or "hold" (drained at stop)
func rsFate(steps []rsStep, i, r int) string {
	for j := i + 1; j < len(steps); j++ {
		s := steps[j]
		if s.R != r {
			continue
		}
		switch s.A {
		case "Resend", "ResendAfterQuit":
			return "redirect"
		case "Complete", "CompleteAfterQuit":
			if s.OK {
				return "ok"
			}
			return "fail"
		case "Drain":
			return "hold"
		}
	}
	return "hold"
}

func rsRefreshFate(steps []rsStep, i int) string {
	for j := i + 1; j < len(steps); j++ {
		switch steps[j].A {
		case "RefreshDone", "RefreshDoneAfterQuit":
			if steps[j].OK {
				return "ok"
			}
			return "fail"
		case "RefreshDrain":
			return "hold"
		}
	}
	return "hold"
}

func rsScript(n *simredis.Node, q *rsReq, fate string) {
	var raw string
	switch fate {
	case "redirect":
		word := "MOVED"
		if q.sends%2 == 0 { // alternate the two kinds of redirection
			word = "ASK"
		}
		to := q.home
		if n == q.home {
			to = q.alt
		}
		raw = fmt.Sprintf("-%s %d %s\r\n", word, simredis.Slot([]byte(q.key)), to.Addr)
	case "ok":
		raw = "$5\r\nvalue\r\n"
	case "fail":
		raw = "-ERR scripted failure\r\n"
	default:
		return // the node's own reply stays held
	}
	key := q.key
	n.Script(&simredis.Scripted{
		Match: func(cmd string, args [][]byte) bool { return cmd == "get" && len(args) > 1 && string(args[1]) == key },
		Raw:   []byte(raw), Times: 1,
	})
}

func rsAggregate(st map[string]int64) map[string]int64 {
	g := map[string]int64{
		"dTotal": st["downstream.rq_total"], "dOK": st["downstream.rq_success_total"], "dFail": st["downstream.rq_failure_total"],
		"uTotal": st["upstream.rq_total"], "uOK": st["upstream.rq_success_total"], "uFail": st["upstream.rq_failure_total"],
	}
	for k, v := range st {
		p := strings.Split(k, ".")
		if len(p) != 3 || p[0] != "redis" {
			continue
		}
		switch p[2] {
		case "total":
			g["cTotal"] += v
		case "success":
			g["cOK"] += v
		case "error":
			g["cErr"] += v
		}
	}
	return g
}

func rsReplay(b *rsBeh) (res rsResult) {
	t0 := time.Now()
	res = rsResult{ID: b.ID, Strata: b.Strata, Steps: len(b.Steps), Expect: b.Expect, Exact: true}
	defer func() { res.WallMs = int64(time.Since(t0) / time.Millisecond) }()
	for _, s := range b.Steps {
		if s.A == "ResendAfterQuit" || s.A == "RefreshSendAfterQuit" || s.A == "DispatchForwardAfterQuit" {
			res.ExitedExpected++
		}
	}
	nreq := len(b.Known)
	cl, err := simredis.NewCluster(2*nreq+1, 0)
	if err != nil {
		res.Err = "cluster: " + err.Error()
		return
	}
	defer cl.Close()
	seed := cl.Nodes[2*nreq]
	for _, n := range cl.Nodes {
		n.SetGate(true)
	}
	reqs := make([]*rsReq, nreq+1)
	for r := 1; r <= nreq; r++ {
		q := &rsReq{home: cl.Nodes[2*(r-1)], alt: cl.Nodes[2*(r-1)+1], arrived: map[int]int{}}
		q.key = cl.KeyFor(q.home.Idx, fmt.Sprintf("c20r%d-", r))
		q.cur = q.home
		reqs[r] = q
	}

	tr := &rsTrail{comp: map[string][]string{}}
	sc := sched.New(tr.key)
	sc.Gate(keyPicked)
	sc.Install()
	px, err := sut.StartRedis(sut.RedisOpts{ConnectTO: time.Second}, []string{seed.Addr})
	if err != nil {
		sc.Uninstall()
		res.Err = "start: " + err.Error()
		return
	}
	stopDone := make(chan struct{})
	stopping := false
	defer func() {
		// whatever happened: let everything go, stop the processor, never leave a goroutine parked
		sc.Uninstall()
		if !stopping {
			stopping = true
			go func() { px.P.Stop(); close(stopDone) }()
		}
		select {
		case <-stopDone:
		case <-time.After(10 * time.Second):
			if res.Err == "" {
				res.Err = "Stop did not return within 10 s"
			}
		}
		for r := 1; r <= nreq; r++ {
			if reqs[r].conn != nil {
				reqs[r].conn.Close()
			}
		}
	}()
	if !sc.WaitArrived(keyPicked, 1, rsWait) || tr.upstream() == nil {
		res.Err = "the refresher never reached upstream.loopRefreshSlots.picked (hook missing in this tree?)"
		return
	}
	fail := func(i int, s rsStep, why string) {
		res.Err = fmt.Sprintf("step %d %s(%d): %s", i, s.A, s.R, why)
	}
	diverge := func(i int, s rsStep, why string) {
		res.Exact = false
		res.Diverged = append(res.Diverged, fmt.Sprintf("step %d %s(%d): %s", i, s.A, s.R, why))
	}
	refreshSends, refreshOK, refreshFail := 0, int64(0), int64(0)
	waitArrive := func(q *rsReq, n *simredis.Node) bool {
		q.arrived[n.Idx]++
		want := q.arrived[n.Idx]
		return waitFor(rsWait, func() bool { return arrivals(n, "get", q.key) >= want })
	}
	releaseAll := func(n *simredis.Node) { n.Release(n.Pending()) }

	localCmd := func(r int, ok bool) []string {
		switch {
		case !b.Known[r-1]:
			return []string{"nosuchcmd", reqs[r].key}
		case ok:
			return []string{"ping"}
		default:
			return []string{"get"} // a known command of invalid shape
		}
	}
	clusterDone := 0 // answers to the refresher's requests the behaviour has had so far
	refreshHeld := false

	for i, s := range b.Steps {
		var q *rsReq
		if s.R >= 1 && s.R <= nreq {
			q = reqs[s.R]
		}
		switch s.A {
		case "SessionDecodes":
			c, err := sut.Dial(px.Addr)
			if err != nil {
				fail(i, s, "dial: "+err.Error())
				return
			}
			q.conn = c
			q.decoded = "decoded:" + c.C.LocalAddr().String()
			sc.Gate(q.decoded)
			cmd := []string{"get", q.key}
			if nx := rsNext(b.Steps, i, s.R); nx.A == "DispatchLocal" || nx.A == "DispatchLocalAfterQuit" {
				cmd = localCmd(s.R, nx.OK)
			}
			if err := c.SendCmd(cmd...); err != nil {
				fail(i, s, "send: "+err.Error())
				return
			}
			if !sc.WaitParked(q.decoded, rsWait) {
				fail(i, s, "the session reader never reached session.loopRead.decoded")
				return
			}
		case "DispatchLocal":
			if q.decoded != "" {
				sc.Ungate(q.decoded)
				q.decoded = ""
			} else {
				c, err := sut.Dial(px.Addr)
				if err != nil {
					fail(i, s, "dial: "+err.Error())
					return
				}
				q.conn = c
				if err := c.SendCmd(localCmd(s.R, s.OK)...); err != nil {
					fail(i, s, "send: "+err.Error())
					return
				}
			}
			v, err := q.conn.Recv(rsWait)
			if err != nil {
				fail(i, s, "no reply: "+err.Error())
				return
			}
			if v.IsErr() == s.OK {
				diverge(i, s, fmt.Sprintf("reply error=%v, module ok=%v", v.IsErr(), s.OK))
			}
		case "DispatchLocalAfterQuit":
			hk := "handled:" + strings.TrimPrefix(q.decoded, "decoded:")
			before := sc.Arrived(hk)
			sc.Ungate(q.decoded)
			q.decoded = ""
			if !sc.WaitArrived(hk, before+1, rsWait) {
				fail(i, s, "the session reader never came back from handleRequest")
				return
			}
		case "DispatchForward":
			q.forward = true
			q.sends = 1
			rsScript(q.cur, q, rsFate(b.Steps, i, s.R))
			if q.decoded != "" {
				sc.Ungate(q.decoded)
				q.decoded = ""
			} else {
				c, err := sut.Dial(px.Addr)
				if err != nil {
					fail(i, s, "dial: "+err.Error())
					return
				}
				q.conn = c
				if err := c.SendCmd("get", q.key); err != nil {
					fail(i, s, "send: "+err.Error())
					return
				}
			}
			if !waitArrive(q, q.cur) {
				fail(i, s, fmt.Sprintf("request never reached node %d", q.cur.Idx))
				return
			}
		case "DispatchForwardAfterQuit":
			q.forward = true
			before := tr.count(q.key)
			sc.Ungate(q.decoded)
			q.decoded = ""
			if !waitFor(rsWait, func() bool { return tr.count(q.key) > before }) {
				fail(i, s, "the request dispatched after the quit was never answered")
				return
			}
		case "ReaderTakes":
			// only a reader that still holds the reply when the stop begins is held back; otherwise the
			// reply is released (and read) by the step that uses it
			if nx := rsNext(b.Steps, i, s.R); nx.A == "CompleteAfterQuit" || nx.A == "ResendAfterQuit" {
				k := "paired:" + q.key
				sc.Gate(k)
				releaseAll(q.cur)
				if !sc.WaitParked(k, rsWait) {
					fail(i, s, "the backend reader never reached client.loopRead.paired")
					return
				}
				q.inhand = true
			}
		case "Resend":
			to := q.other()
			q.sends++
			rsScript(to, q, rsFate(b.Steps, i, s.R))
			releaseAll(q.cur) // the held reply is the scripted redirection
			q.cur = to
			if !waitArrive(q, to) {
				fail(i, s, fmt.Sprintf("redirected request never reached node %d", to.Idx))
				return
			}
		case "Complete":
			before := tr.count(q.key)
			releaseAll(q.cur)
			if !waitFor(rsWait, func() bool { return tr.count(q.key) > before }) {
				fail(i, s, "the request was never answered")
				return
			}
			v, err := q.conn.Recv(rsWait)
			if err != nil {
				fail(i, s, "no reply on the downstream connection: "+err.Error())
				return
			}
			if v.IsErr() == s.OK {
				diverge(i, s, fmt.Sprintf("reply error=%v, module ok=%v", v.IsErr(), s.OK))
			}
		case "CompleteAfterQuit", "ResendAfterQuit":
			if !q.inhand {
				fail(i, s, "no backend reader held")
				return
			}
			before := tr.count(q.key)
			sc.Ungate("paired:" + q.key)
			q.inhand = false
			if !waitFor(rsWait, func() bool { return tr.count(q.key) > before }) {
				fail(i, s, "the request in the reader's hand was never answered")
				return
			}
		case "Drain":
			if !waitFor(rsWait, func() bool { return tr.count(q.key) > 0 }) {
				fail(i, s, "not drained by the stop")
				return
			}
		case "Trigger":
			if err := px.P.OnSvcHostAdd([]*host.Host{host.New(seed.Addr)}); err != nil {
				fail(i, s, "OnSvcHostAdd: "+err.Error())
				return
			}
		case "RefreshPick":
			if !sc.WaitParked(keyPicked, rsWait) {
				fail(i, s, "the refresher did not take the trigger")
				return
			}
		case "RefreshSend":
			if rsRefreshFate(b.Steps, i) == "fail" {
				seed.Script(&simredis.Scripted{
					Match: func(cmd string, args [][]byte) bool { return cmd == "cluster" },
					Raw:   []byte("-ERR scripted refresh failure\r\n"), Times: 1,
				})
			}
			refreshSends++
			want := refreshSends
			if !sc.Release(keyPicked) {
				fail(i, s, "no refresher parked")
				return
			}
			if !waitFor(rsWait, func() bool { return arrivals(seed, "cluster", "") >= want }) {
				fail(i, s, "cluster nodes never reached the seed node")
				return
			}
		case "RefreshSendAfterQuit":
			clusterDone++
			want := clusterDone
			if !sc.Release(keyPicked) {
				fail(i, s, "no refresher parked")
				return
			}
			if !waitFor(rsWait, func() bool { return tr.count("cluster") >= want }) {
				fail(i, s, "the refresher's request was never answered")
				return
			}
		case "ReaderTakesRefresh":
			for j := i + 1; j < len(b.Steps); j++ {
				if b.Steps[j].A == "RefreshDone" {
					break
				}
				if b.Steps[j].A == "RefreshDoneAfterQuit" {
					sc.Gate("paired:cluster")
					releaseAll(seed)
					if !sc.WaitParked("paired:cluster", rsWait) {
						fail(i, s, "the seed client's reader never reached client.loopRead.paired")
						return
					}
					refreshHeld = true
					break
				}
			}
		case "RefreshDone", "RefreshDoneAfterQuit":
			clusterDone++
			want := clusterDone
			if s.A == "RefreshDone" {
				releaseAll(seed)
			} else {
				if !refreshHeld {
					fail(i, s, "no backend reader held")
					return
				}
				sc.Ungate("paired:cluster")
				refreshHeld = false
			}
			if !waitFor(rsWait, func() bool { return tr.count("cluster") >= want }) {
				fail(i, s, "cluster nodes was never answered")
				return
			}
			if s.A == "RefreshDone" {
				ctr := "upstream.slots_refresh.failure_total"
				want := &refreshFail
				if s.OK {
					ctr, want = "upstream.slots_refresh.success_total", &refreshOK
				}
				*want++
				w := *want
				if !waitFor(rsWait, func() bool { time.Sleep(time.Millisecond); return sut.ServiceStats(px.Name)[ctr] >= w }) {
					fail(i, s, "the refresh round did not end as scripted ("+ctr+")")
					return
				}
			}
		case "RefreshDrain":
			clusterDone++
			want := clusterDone
			if !waitFor(rsWait, func() bool { return tr.count("cluster") >= want }) {
				fail(i, s, "the refresher's request was not drained by the stop")
				return
			}
		case "Quit":
			stopping = true
			go func() { px.P.Stop(); close(stopDone) }()
			u := tr.upstream()
			if !waitFor(rsWait, func() bool { c, _ := predis.VerifUpstreamQuitClosed(u); return c }) {
				fail(i, s, "the upstream's quit latch was not closed")
				return
			}
		case "Stopped":
			select {
			case <-stopDone:
				res.StopOK = true
			case <-time.After(10 * time.Second):
				fail(i, s, "Stop did not return within 10 s")
				res.Dump = goroutineDump()
				return
			}
		default:
			fail(i, s, "unknown action")
			return
		}
		res.Followed = i + 1
	}
	// quiescence: every dispatched request and every refresh request has been answered exactly once
	time.Sleep(20 * time.Millisecond)
	tr.mu.Lock()
	res.Completions = map[string][]string{}
	for k, v := range tr.comp {
		res.Completions[k] = append([]string{}, v...)
		for _, txt := range v {
			if strings.Contains(txt, upstreamExited) {
				res.ExitedSeen++
			}
		}
	}
	tr.mu.Unlock()
	for r := 1; r <= nreq; r++ {
		q := reqs[r]
		if !q.forward {
			continue
		}
		switch n := len(res.Completions[q.key]); {
		case n == 0:
			res.NotCompleted = append(res.NotCompleted, q.key)
		case n > 1:
			res.Double = append(res.Double, q.key)
		}
	}
	if len(res.Completions["cluster"]) != clusterDone {
		if len(res.Completions["cluster"]) < clusterDone {
			res.NotCompleted = append(res.NotCompleted, "cluster")
		}
		res.Exact = false
		res.Diverged = append(res.Diverged, fmt.Sprintf("%d refresh requests answered, module has %d", len(res.Completions["cluster"]), clusterDone))
	}
	if res.ExitedSeen != res.ExitedExpected {
		res.Exact = false
		res.Diverged = append(res.Diverged, fmt.Sprintf("%d sends answered 'upstream exited', module has %d", res.ExitedSeen, res.ExitedExpected))
	}
	res.Stats = sut.ServiceStats(px.Name)
	res.Got = rsAggregate(res.Stats)
	return
}

func reqStats(args []string) error {
	fs := flag.NewFlagSet("c20-reqstats", flag.ContinueOnError)
	in := fs.String("in", "", "behaviours (ndjson)")
	out := fs.String("out", "", "results (ndjson)")
	if err := fs.Parse(args); err != nil {
		return err
	}
	w, err := os.Create(*out)
	if err != nil {
		return err
	}
	defer w.Close()
	// the refresher comes back to its select right after a round; the periodic timer stays out of the way
	predis.VerifSetSlotsRefreshTimers(time.Hour, time.Millisecond)
	return cli.ReadNDJSON(*in, func(line []byte) error {
		var b rsBeh
		if err := json.Unmarshal(line, &b); err != nil {
			return err
		}
		// one record per behaviour, written through as we go
		out, err := json.Marshal(rsReplay(&b))
		if err != nil {
			return err
		}
		_, err = w.Write(append(out, '\n'))
		return err
	})
}
