package c17

// c17-parent: the "old process".  Re-exec'ed by c17-seq because the terminate step signals the
// process (and a panic in the serving goroutine kills it).  It runs the package's public API only:
// hotrestart.New with a recording Instance.  Commands arrive as JSON lines on fd 3, events leave as
// JSON lines on fd 4 (stdout belongs to the samaritan logger).
//
//   -> {"cmd":"new","id":N,"gate":bool,"hook":bool}   <- {"ev":"ready"} | {"ev":"err","x":msg}
//   <- {"ev":"call","x":"admin"|"conf"|"drain"|"instShutdown"}   an Instance method was entered;
//                                    with gate=true it returns only after -> {"cmd":"release"}
//   <- {"ev":"call","x":"term"}      SIGTERM arrived (hook=false), or the package's kill variable was
//                                    called with (own pid, SIGTERM) (hook=true; gated like the others)
//   -> {"cmd":"shutdown"}  Restarter.Shutdown(), what main does on SIGTERM      <- {"ev":"down"}
//   -> {"cmd":"sync","n":k}                                                      <- {"ev":"sync","n":k}
//   -> {"cmd":"starve"}    use up every file descriptor of this process (RLIMIT_NOFILE lowered, /dev/null opened
//                          until EMFILE): accept on the control socket fails transiently   <- {"ev":"starved","n":held}
//   -> {"cmd":"feed"}      release them, restore the limit (also automatic after 2 s)      <- {"ev":"fed"}
//   -> {"cmd":"end"}       shut the current restarter down and forget it         <- {"ev":"ended"}
//   -> {"cmd":"quit"}

import (
	"bufio"
	"encoding/json"
	"fmt"
	"os"
	"os/signal"
	"sync"
	"syscall"
	"time"

	"github.com/samaritan-proxy/samaritan/cmd/samaritan/hotrestart"

	"verifharness/internal/cli"
)

func init() { cli.Register("c17-parent", parentMain) }

type pcmd struct {
	Cmd  string `json:"cmd"`
	ID   int    `json:"id"`
	Gate bool   `json:"gate"`
	Hook bool   `json:"hook"`
	N    int    `json:"n"`
}

type pev struct {
	Ev string `json:"ev"`
	X  string `json:"x,omitempty"`
	N  int    `json:"n,omitempty"`
}

type evOut struct {
	mu sync.Mutex
	w  *bufio.Writer
}

func (o *evOut) emit(e pev) {
	b, _ := json.Marshal(e)
	o.mu.Lock()
	o.w.Write(b)
	o.w.WriteByte('\n')
	o.w.Flush()
	o.mu.Unlock()
}

// recInstance is the scripted instance: it records every call made by the restarter.
type recInstance struct {
	id      int
	out     *evOut
	gate    bool
	release chan struct{}
}

func (r *recInstance) call(x string) {
	r.out.emit(pev{Ev: "call", X: x})
	if r.gate {
		<-r.release
	}
}
func (r *recInstance) ID() int            { return r.id }
func (r *recInstance) ParentID() int      { return 0 }
func (r *recInstance) ShutdownAdmin()     { r.call("admin") }
func (r *recInstance) DrainListeners()    { r.call("drain") }
func (r *recInstance) ShutdownLocalConf() { r.call("conf") }
func (r *recInstance) Shutdown()          { r.call("instShutdown") }

func parentMain(args []string) error {
	in := os.NewFile(3, "cmds")
	outf := os.NewFile(4, "events")
	if in == nil || outf == nil {
		return fmt.Errorf("c17-parent needs fds 3 and 4")
	}
	out := &evOut{w: bufio.NewWriter(outf)}

	var mu sync.Mutex
	var cur *recInstance
	var rst *hotrestart.Restarter
	var restoreKill func()

	// SIGTERM: what the terminate step sends to the own process
	// SIGWINCH is the driver's flush marker: the runtime hands pending signals over in numeric order, so once
	// the marker (28) came through, every SIGTERM (15) raised before it has been emitted.
	sigc := make(chan os.Signal, 64)
	marker := make(chan struct{}, 8)
	signal.Notify(sigc, syscall.SIGTERM, syscall.SIGWINCH)
	go func() {
		for s := range sigc {
			if s == syscall.SIGWINCH {
				marker <- struct{}{}
				continue
			}
			out.emit(pev{Ev: "call", X: "term"})
		}
	}()
	flushSignals := func() {
		syscall.Kill(os.Getpid(), syscall.SIGWINCH)
		select {
		case <-marker:
		case <-time.After(2 * time.Second):
		}
	}

	endSession := func() {
		mu.Lock()
		r, c, rk := rst, cur, restoreKill
		rst, cur, restoreKill = nil, nil, nil
		mu.Unlock()
		if c != nil && c.gate {
			// never leave a gated call blocked
			close(c.release)
		}
		if r != nil {
			r.Shutdown()
		}
		if rk != nil {
			rk()
		}
	}

	// descriptor shortage (transient accept failure)
	var hogMu sync.Mutex
	var hog []int
	var savedLim *syscall.Rlimit
	feed := func() {
		hogMu.Lock()
		defer hogMu.Unlock()
		for _, h := range hog {
			syscall.Close(h)
		}
		hog = nil
		if savedLim != nil {
			syscall.Setrlimit(syscall.RLIMIT_NOFILE, savedLim)
			savedLim = nil
		}
	}
	starve := func() (int, error) {
		hogMu.Lock()
		defer hogMu.Unlock()
		var lim syscall.Rlimit
		if err := syscall.Getrlimit(syscall.RLIMIT_NOFILE, &lim); err != nil {
			return 0, err
		}
		low := lim
		if low.Cur > 256 {
			low.Cur = 256
		}
		if err := syscall.Setrlimit(syscall.RLIMIT_NOFILE, &low); err != nil {
			return 0, err
		}
		savedLim = &lim
		for {
			h, err := syscall.Open("/dev/null", syscall.O_RDONLY|syscall.O_CLOEXEC, 0)
			if err != nil {
				if err != syscall.EMFILE {
					return len(hog), err
				}
				break
			}
			hog = append(hog, h)
		}
		return len(hog), nil
	}

	sc := bufio.NewScanner(in)
	sc.Buffer(make([]byte, 1<<16), 1<<20)
	for sc.Scan() {
		var c pcmd
		if err := json.Unmarshal(sc.Bytes(), &c); err != nil {
			out.emit(pev{Ev: "err", X: err.Error()})
			continue
		}
		switch c.Cmd {
		case "new":
			endSession()
			inst := &recInstance{id: c.ID, out: out, gate: c.Gate, release: make(chan struct{}, 64)}
			var rk func()
			if c.Hook {
				rk = hotrestart.VerifSetKill(func(pid int, sig syscall.Signal) error {
					if pid == os.Getpid() && sig == syscall.SIGTERM {
						inst.call("term")
					} else {
						inst.call(fmt.Sprintf("kill(%d,%d)", pid, int(sig)))
					}
					return nil
				})
			}
			r, err := hotrestart.New(inst)
			if err != nil {
				if rk != nil {
					rk()
				}
				out.emit(pev{Ev: "err", X: err.Error()})
				continue
			}
			mu.Lock()
			cur, rst, restoreKill = inst, r, rk
			mu.Unlock()
			out.emit(pev{Ev: "ready"})
		case "release":
			mu.Lock()
			i := cur
			mu.Unlock()
			if i != nil {
				select {
				case i.release <- struct{}{}:
				default:
				}
			}
		case "shutdown":
			mu.Lock()
			r := rst
			mu.Unlock()
			// in a goroutine: Shutdown waits for the serving goroutine, which may sit in a gated call
			go func() {
				if r != nil {
					r.Shutdown()
				}
				out.emit(pev{Ev: "down"})
			}()
		case "sync":
			out.emit(pev{Ev: "sync", N: c.N})
		case "starve":
			n, err := starve()
			if err != nil {
				feed()
				out.emit(pev{Ev: "err", X: "starve: " + err.Error()})
				continue
			}
			time.AfterFunc(2*time.Second, feed) // a shortage is transient by construction
			out.emit(pev{Ev: "starved", N: n})
		case "feed":
			feed()
			out.emit(pev{Ev: "fed"})
		case "end":
			feed()
			endSession()
			flushSignals()
			out.emit(pev{Ev: "ended"})
		case "quit":
			time.AfterFunc(2*time.Second, func() { os.Exit(0) })
			endSession()
			return nil
		}
	}
	// the driver is gone (command pipe closed): never outlive it, even if Shutdown of the real code hangs
	time.AfterFunc(2*time.Second, func() { os.Exit(0) })
	endSession()
	return nil
}
