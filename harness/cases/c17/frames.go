// Package c17: hot restart hand-over (frames + request sequences).
//
// c17-frames replays the vectors emitted by spec/hotrestart/FrameGen.tla through the real
// readMessage / sendMessage (verif wrappers) over a real unix socket pair of the kind the
// code uses (SOCK_STREAM; -net unixpacket for SOCK_SEQPACKET).  It only reports what the real
// functions did; checks/c17.py compares with the outcome the specification demands.
package c17

import (
	"encoding/json"
	"errors"
	"flag"
	"fmt"
	"io"
	"net"
	"os"
	"runtime/debug"
	"strings"
	"syscall"
	"time"

	"github.com/samaritan-proxy/samaritan/cmd/samaritan/hotrestart"

	"verifharness/internal/cli"
)

func init() {
	cli.Register("c17-frames", frames)
}

// ---- input (one JSON object per line; kind = vec | rt | defined)

type expect struct {
	Res  string `json:"res"` // accept | reject
	Type int    `json:"type"`
	Len  int    `json:"len"`
	Fill int    `json:"fill"`
}

type frameIn struct {
	Kind string `json:"kind"`
	ID   int    `json:"id"`
	// vec: wire unit
	Type     int    `json:"type"`
	Hdr      int    `json:"hdr"`
	Hi       int    `json:"hi"`
	Lo       int    `json:"lo"`
	Declared int    `json:"declared"`
	Carried  int    `json:"carried"`
	Fill     int    `json:"fill"`
	Size     int    `json:"size"`
	Cls      string `json:"cls"`
	Expect   expect `json:"expect"`
	// rt: sender-side message (type, len, fill)
	Len int `json:"len"`
	// defined: message of the package
	Name    string `json:"name"`
	Payload string `json:"payload"`
	// batch: ids of earlier vec lines whose received messages are all kept and compared after the whole batch
	IDs  []int  `json:"ids"`
	Mode string `json:"mode"` // "one" connection | "parallel": several connections, readers in parallel
	// tail: probe for the stream socket (observation only)
	At    int `json:"at"`
	Inner struct {
		Type int `json:"type"`
		Hi   int `json:"hi"`
		Lo   int `json:"lo"`
	} `json:"inner"`
}

// ---- output

type frameOut struct {
	Kind    string `json:"kind"`
	ID      int    `json:"id"`
	Net     string `json:"net"`
	Outcome string `json:"outcome"` // accept | reject | panic | infra
	Type    int    `json:"type"`
	Len     int    `json:"len"`
	DataLen int    `json:"dataLen"`
	DataOK  bool   `json:"dataOK"`            // payload = first Len bytes of the pattern that was sent
	BadAt   int    `json:"badAt"`             // index of the first differing payload byte (-1)
	BadByte int    `json:"badByte"`           // the byte found there
	Err     string `json:"err,omitempty"`     // error text of a rejection
	Panic   string `json:"panic,omitempty"`   // recovered panic value
	Stack   string `json:"stack,omitempty"`   // first lines of the panic stack
	WireOK  *bool  `json:"wireOK,omitempty"`  // rt/defined: bytes put on the wire = the format's encoding
	Wire    string `json:"wire,omitempty"`    // description of a wire mismatch
	CtorOK  *bool  `json:"ctorOK,omitempty"`  // defined: constructor gives the specified type/len/payload
	Ctor    string `json:"ctor,omitempty"`    // what the constructor produced
	SendErr string `json:"sendErr,omitempty"` // error of sendMessage
	Infra   string `json:"infra,omitempty"`
	// batch: messages kept while later frames were read, compared at the end
	BatchN    int    `json:"batchN,omitempty"`
	Corrupted int    `json:"corrupted,omitempty"`
	FirstBad  string `json:"firstBad,omitempty"`
	// tail probe: what the SECOND readMessage on the same connection returned
	Second     string `json:"second,omitempty"`
	SecondType int    `json:"secondType,omitempty"`
	SecondLen  int    `json:"secondLen,omitempty"`
}

// Fill is the payload pattern of Frame.tla: byte i of pattern f.
func fillByte(f, i int) byte { return byte(1 + ((f + i) % 255)) }

func pattern(f, n int) []byte {
	b := make([]byte, n)
	for i := range b {
		b[i] = fillByte(f, i)
	}
	return b
}

// wireBytes builds the bytes of a wire unit exactly as the specification lays them out.
func wireBytes(v *frameIn) []byte {
	h := []byte{byte(v.Type), byte(v.Hi), byte(v.Lo)}
	b := append([]byte{}, h[:v.Hdr]...)
	if v.Hdr == 3 {
		b = append(b, pattern(v.Fill, v.Carried)...)
	}
	return b
}

// sockPair returns two connected unix sockets of the given kind as *net.UnixConn.
func sockPair(kind string) (a, b *net.UnixConn, err error) {
	typ := syscall.SOCK_STREAM
	if kind == "unixpacket" {
		typ = syscall.SOCK_SEQPACKET
	}
	fds, err := syscall.Socketpair(syscall.AF_UNIX, typ|syscall.SOCK_CLOEXEC, 0)
	if err != nil {
		return nil, nil, err
	}
	conv := func(fd int) (*net.UnixConn, error) {
		f := os.NewFile(uintptr(fd), "c17-sock")
		defer f.Close()
		c, err := net.FileConn(f)
		if err != nil {
			return nil, err
		}
		uc, ok := c.(*net.UnixConn)
		if !ok {
			c.Close()
			return nil, fmt.Errorf("not a unix conn: %T", c)
		}
		return uc, nil
	}
	if a, err = conv(fds[0]); err != nil {
		syscall.Close(fds[1])
		return nil, nil, err
	}
	if b, err = conv(fds[1]); err != nil {
		a.Close()
		return nil, nil, err
	}
	// room for the largest unit (65539 bytes) without a concurrent reader
	a.SetWriteBuffer(1 << 20)
	b.SetWriteBuffer(1 << 20)
	return a, b, nil
}

// guardedRead calls the real readMessage; a panic is recovered and reported.
func guardedRead(c *net.UnixConn) (m *hotrestart.VerifMessage, err error, pan string, stack string) {
	defer func() {
		if r := recover(); r != nil {
			pan = fmt.Sprint(r)
			lines := strings.Split(string(debug.Stack()), "\n")
			var keep []string
			for _, l := range lines {
				if strings.Contains(l, "hotrestart") {
					keep = append(keep, strings.TrimSpace(l))
				}
			}
			if len(keep) > 6 {
				keep = keep[:6]
			}
			stack = strings.Join(keep, " | ")
		}
	}()
	c.SetReadDeadline(time.Now().Add(3 * time.Second))
	m, err = hotrestart.VerifReadMessage(c)
	return
}

// guardedSend calls the real sendMessage; a panic is recovered and reported as "panic: ...".
func guardedSend(c *net.UnixConn, m *hotrestart.VerifMessage) (err error) {
	defer func() {
		if r := recover(); r != nil {
			err = fmt.Errorf("panic: %v", r)
		}
	}()
	c.SetWriteDeadline(time.Now().Add(3 * time.Second))
	return hotrestart.VerifSendMessage(c, m)
}

// put writes one unit with one write call and waits until the kernel has taken all of it.
func put(w *net.UnixConn, b []byte) error {
	if len(b) == 0 {
		return nil
	}
	done := make(chan error, 1)
	go func() {
		w.SetWriteDeadline(time.Now().Add(3 * time.Second))
		n, err := w.Write(b)
		if err == nil && n != len(b) {
			err = fmt.Errorf("short write %d of %d", n, len(b))
		}
		done <- err
	}()
	select {
	case err := <-done:
		return err
	case <-time.After(4 * time.Second):
		return errors.New("write did not complete")
	}
}

func describe(out *frameOut, m *hotrestart.VerifMessage, err error, pan, stack string, fill int) {
	out.BadAt = -1
	switch {
	case pan != "":
		out.Outcome, out.Panic, out.Stack = "panic", pan, stack
	case err != nil:
		out.Outcome, out.Err = "reject", err.Error()
		var ne net.Error
		if errors.As(err, &ne) && ne.Timeout() {
			out.Outcome, out.Infra = "infra", "read timed out: "+err.Error()
		}
	case m == nil:
		out.Outcome, out.Infra = "infra", "nil message without error"
	default:
		out.Outcome = "accept"
		out.Type, out.Len, out.DataLen = int(m.Type), int(m.Len), len(m.Data)
		out.DataOK = len(m.Data) == int(m.Len)
		for i, x := range m.Data {
			if x != fillByte(fill, i) {
				out.DataOK, out.BadAt, out.BadByte = false, i, int(x)
				break
			}
		}
	}
}

func runVec(v *frameIn, kind string) frameOut {
	out := frameOut{Kind: "vec", ID: v.ID, Net: kind, BadAt: -1}
	w, r, err := sockPair(kind)
	if err != nil {
		out.Outcome, out.Infra = "infra", err.Error()
		return out
	}
	defer r.Close()
	b := wireBytes(v)
	if len(b) != v.Size {
		w.Close()
		out.Outcome, out.Infra = "infra", fmt.Sprintf("built %d bytes, specification says %d", len(b), v.Size)
		return out
	}
	if err := put(w, b); err != nil {
		w.Close()
		out.Outcome, out.Infra = "infra", "write: "+err.Error()
		return out
	}
	if len(b) == 0 || kind == "unix" {
		// nothing on the wire: the reader sees the end of the stream.  For a stream socket the
		// writer is closed after the write in every case, so that a unit shorter than the read
		// size is never extended by later bytes and a reader can never block.
		w.Close()
	} else {
		defer w.Close()
	}
	m, rerr, pan, stack := guardedRead(r)
	describe(&out, m, rerr, pan, stack, v.Fill)
	return out
}

// runTail: one oversized frame on a stream socket, two reads on the same connection.
func runTail(v *frameIn, kind string) frameOut {
	out := frameOut{Kind: "tail", ID: v.ID, Net: kind, BadAt: -1}
	w, r, err := sockPair(kind)
	if err != nil {
		out.Outcome, out.Infra = "infra", err.Error()
		return out
	}
	defer r.Close()
	p := pattern(v.Fill, v.Carried)
	if v.At+3 <= len(p) {
		p[v.At], p[v.At+1], p[v.At+2] = byte(v.Inner.Type), byte(v.Inner.Hi), byte(v.Inner.Lo)
	}
	b := append([]byte{byte(v.Type), byte(v.Hi), byte(v.Lo)}, p...)
	if err := put(w, b); err != nil {
		w.Close()
		out.Outcome, out.Infra = "infra", "write: "+err.Error()
		return out
	}
	defer w.Close() // stays open: the second read must not be answered by the end of the stream
	m, rerr, pan, stack := guardedRead(r)
	describe(&out, m, rerr, pan, stack, v.Fill)
	r.SetReadDeadline(time.Now().Add(time.Second))
	m2, err2, pan2, _ := guardedRead(r)
	switch {
	case pan2 != "":
		out.Second = "panic: " + pan2
	case err2 != nil:
		out.Second = "reject"
	case m2 != nil:
		out.Second, out.SecondType, out.SecondLen = "accept", int(m2.Type), int(m2.Len)
	}
	return out
}

// runBatch: the receive side as a sequence of reads.  Every frame is written and read as its own unit (write one,
// read one), but the messages readMessage returned are KEPT and only compared with what was sent after the whole
// batch has been read - on one connection, or on several connections with their readers running in parallel.
func runBatch(v *frameIn, vecs map[int]*frameIn, kind string) frameOut {
	out := frameOut{Kind: "batch", ID: v.ID, Net: kind + "/" + v.Mode, BadAt: -1, Outcome: "accept"}
	var units []*frameIn
	for _, id := range v.IDs {
		if u := vecs[id]; u != nil {
			units = append(units, u)
		}
	}
	out.BatchN = len(units)
	nconn := 1
	if v.Mode == "parallel" {
		nconn = 4
	}
	type held struct {
		u *frameIn
		m *hotrestart.VerifMessage
	}
	keep := make([][]held, nconn)
	errs := make(chan string, nconn)
	done := make(chan struct{}, nconn)
	for k := 0; k < nconn; k++ {
		k := k
		go func() {
			defer func() { done <- struct{}{} }()
			w, r, err := sockPair(kind)
			if err != nil {
				errs <- err.Error()
				return
			}
			defer w.Close()
			defer r.Close()
			for i := k; i < len(units); i += nconn {
				u := units[i]
				if err := put(w, wireBytes(u)); err != nil {
					errs <- "write: " + err.Error()
					return
				}
				m, rerr, pan, _ := guardedRead(r)
				if pan != "" || rerr != nil || m == nil {
					errs <- fmt.Sprintf("unit %d not accepted inside a batch: %v %s", u.ID, rerr, pan)
					return
				}
				keep[k] = append(keep[k], held{u, m})
			}
		}()
	}
	for k := 0; k < nconn; k++ {
		<-done
	}
	select {
	case e := <-errs:
		out.Outcome, out.Infra = "infra", e
		return out
	default:
	}
	for k := range keep {
		for j, h := range keep[k] {
			bad := ""
			if int(h.m.Type) != h.u.Expect.Type || int(h.m.Len) != h.u.Expect.Len || len(h.m.Data) != h.u.Expect.Len {
				bad = fmt.Sprintf("type=%d len=%d dataLen=%d", h.m.Type, h.m.Len, len(h.m.Data))
			} else {
				for i, x := range h.m.Data {
					if x != fillByte(h.u.Fill, i) {
						bad = fmt.Sprintf("payload byte %d is %d, sent %d", i, x, fillByte(h.u.Fill, i))
						break
					}
				}
			}
			if bad != "" {
				out.Corrupted++
				if out.FirstBad == "" {
					later := ""
					if j+1 < len(keep[k]) {
						n := keep[k][j+1].u
						later = fmt.Sprintf("; the next frame read on that connection was type=%d declared=%d fill=%d", n.Type, n.Declared, n.Fill)
					}
					out.FirstBad = fmt.Sprintf("message %d of connection %d (unit type=%d declared=%d fill=%d, accepted when it was read) "+
						"reads %s after the rest of the batch had been received%s", j+1, k+1, h.u.Type, h.u.Declared, h.u.Fill, bad, later)
				}
			}
		}
	}
	return out
}

func readAll(c *net.UnixConn, n int, kind string) ([]byte, error) {
	c.SetReadDeadline(time.Now().Add(3 * time.Second))
	if kind == "unixpacket" {
		b := make([]byte, n+16)
		k, err := c.Read(b)
		return b[:k], err
	}
	b := make([]byte, n)
	k, err := io.ReadFull(c, b)
	if err == io.ErrUnexpectedEOF || err == io.EOF {
		err = nil
	}
	return b[:k], err
}

// runRT: sender-side message through the real sendMessage; (1) the bytes on the wire must be the
// format's encoding, (2) the real readMessage must give back the message (or reject an oversized one).
func runRT(v *frameIn, kind string, msg *hotrestart.VerifMessage, fill int, payload []byte) frameOut {
	out := frameOut{Kind: v.Kind, ID: v.ID, Net: kind, BadAt: -1}
	want := append([]byte{byte(v.Type), byte(v.Hi), byte(v.Lo)}, payload...)
	// (1) wire image
	w, r, err := sockPair(kind)
	if err != nil {
		out.Outcome, out.Infra = "infra", err.Error()
		return out
	}
	serr := make(chan error, 1)
	go func() { serr <- guardedSend(w, msg); w.Close() }()
	got, rerr := readAll(r, len(want), kind)
	r.Close()
	if e := <-serr; e != nil {
		out.SendErr = e.Error()
	}
	ok := rerr == nil && string(got) == string(want)
	out.WireOK = &ok
	if !ok {
		n := len(got)
		if n > 8 {
			n = 8
		}
		out.Wire = fmt.Sprintf("wire has %d bytes starting %v, format says %d bytes starting %v (read error %v)",
			len(got), got[:n], len(want), want[:min(8, len(want))], rerr)
	}
	// (2) through readMessage
	w, r, err = sockPair(kind)
	if err != nil {
		out.Outcome, out.Infra = "infra", err.Error()
		return out
	}
	defer r.Close()
	go func() { guardedSend(w, msg); w.Close() }()
	if kind == "unix" {
		// let the whole message arrive first: one message = one read unit
		waitReadable(r, len(want), time.Second)
	}
	m, rerr2, pan, stack := guardedRead(r)
	describe(&out, m, rerr2, pan, stack, fill)
	if out.Outcome == "accept" && payload != nil && fill < 0 {
		// defined messages: literal payload instead of a pattern
		out.DataOK = string(m.Data) == string(payload)
		out.BadAt = -1
	}
	return out
}

// waitReadable waits until n bytes (capped at the read size) are queued on c.
func waitReadable(c *net.UnixConn, n int, d time.Duration) {
	if n > 4096 {
		n = 4096
	}
	rc, err := c.SyscallConn()
	if err != nil {
		return
	}
	end := time.Now().Add(d)
	buf := make([]byte, n)
	for time.Now().Before(end) {
		k := 0
		rc.Control(func(fd uintptr) {
			k, _, _ = syscall.Recvfrom(int(fd), buf, syscall.MSG_PEEK|syscall.MSG_DONTWAIT)
		})
		if k >= n {
			return
		}
		time.Sleep(50 * time.Microsecond)
	}
}

func frames(args []string) error {
	fs := flag.NewFlagSet("c17-frames", flag.ContinueOnError)
	in := fs.String("in", "", "vectors (ndjson)")
	outp := fs.String("out", "", "results (ndjson)")
	kind := fs.String("net", "unix", "unix (SOCK_STREAM, what the code uses) | unixpacket (SOCK_SEQPACKET)")
	if err := fs.Parse(args); err != nil {
		return err
	}
	w, err := cli.NewNDJSONWriter(*outp)
	if err != nil {
		return err
	}
	defer w.Close()
	vecs := map[int]*frameIn{}
	return cli.ReadNDJSON(*in, func(line []byte) error {
		var v frameIn
		if err := json.Unmarshal(line, &v); err != nil {
			return err
		}
		switch v.Kind {
		case "batch":
			return w.Write(runBatch(&v, vecs, *kind))
		case "vec":
			vv := v
			vecs[v.ID] = &vv
			return w.Write(runVec(&v, *kind))
		case "tail":
			return w.Write(runTail(&v, *kind))
		case "rt":
			p := pattern(v.Fill, v.Len)
			msg := &hotrestart.VerifMessage{Type: uint8(v.Type), Len: uint16(v.Len), Data: p}
			return w.Write(runRT(&v, *kind, msg, v.Fill, p))
		case "defined":
			msg := hotrestart.VerifNewMessage(v.Name)
			if msg == nil {
				return w.Write(frameOut{Kind: "defined", ID: v.ID, Net: *kind, Outcome: "infra", Infra: "no constructor for " + v.Name})
			}
			o := runRT(&v, *kind, msg, -1, []byte(v.Payload))
			ok := int(msg.Type) == v.Type && int(msg.Len) == len(v.Payload) && string(msg.Data) == v.Payload
			o.CtorOK = &ok
			o.Ctor = fmt.Sprintf("type=%d len=%d data=%q", msg.Type, msg.Len, msg.Data)
			return w.Write(o)
		}
		return nil
	})
}
