package c17

// c17-e2e: the hand-over on the real samaritan binary (cmd/samaritan, built WITHOUT the verif tag).
//
//   kind "scripted":  the harness is the child: it connects to the old process' control socket, sends the
//                     requests of a HandoverGen behaviour, and after every reply observes what the step is
//                     about: admin port, listening socket (new connections), an established proxied
//                     connection, process alive / exit status.
//   kind "adminbusy": as scripted, with an admin API client in the middle of a request when the hand-over begins.
//   kind "realchild": a second real samaritan is started as the child of the first (the two environment
//                     variables of consts), i.e. the child-side sequence of samaritan.go:110-132.
// Only observations are reported; checks/c17.py compares them with the abstract state of Handover.tla.

import (
	"encoding/json"
	"flag"
	"fmt"
	"io"
	"net"
	"os"
	"os/exec"
	"path/filepath"
	"strings"
	"time"

	"verifharness/internal/cli"
)

func init() { cli.Register("c17-e2e", e2eMain) }

type e2eIn struct {
	ID   int      `json:"id"`
	Kind string   `json:"kind"`
	Reqs []string `json:"reqs"`
}

type e2eObs struct {
	Req       string `json:"req"`
	Reply     string `json:"reply"`
	AdminUp   bool   `json:"adminUp"`
	Accepting bool   `json:"accepting"` // a NEW connection to the service port is served
	EstAlive  bool   `json:"estAlive"`  // the connection established before still works
	Alive     bool   `json:"alive"`     // the old process is running
	Exit      string `json:"exit,omitempty"`
	// adminbusy: what became of the admin connection that had a request in progress, once the admin step was acknowledged
	Lingering string `json:"lingering,omitempty"` // closed | open | answered: <status line>
}

type e2eOut struct {
	ID    int      `json:"id"`
	Kind  string   `json:"kind"`
	Reqs  []string `json:"reqs,omitempty"`
	Obs   []e2eObs `json:"obs"`
	Start e2eObs   `json:"start"`
	Crash string   `json:"crash,omitempty"` // "fatal error"/"panic" lines of the old process
	// realchild
	ParentSteps []string `json:"parentSteps,omitempty"` // from the old process' log, in order
	ChildAlive  bool     `json:"childAlive,omitempty"`
	ParentExit  string   `json:"parentExit,omitempty"`
	NewServed   bool     `json:"newServed,omitempty"` // a new connection is served while / after the hand-over
	EstDuring   bool     `json:"estDuring,omitempty"` // established connection served between drain and terminate
	Infra       string   `json:"infra,omitempty"`
	Ms          int64    `json:"ms"`
}

func freePort() int {
	l, err := net.Listen("tcp", "127.0.0.1:0")
	if err != nil {
		return 0
	}
	defer l.Close()
	return l.Addr().(*net.TCPAddr).Port
}

func echoBackend() (int, func(), error) {
	l, err := net.Listen("tcp", "127.0.0.1:0")
	if err != nil {
		return 0, nil, err
	}
	go func() {
		for {
			c, err := l.Accept()
			if err != nil {
				return
			}
			go func() {
				defer c.Close()
				b := make([]byte, 256)
				for {
					n, err := c.Read(b)
					if err != nil {
						return
					}
					c.Write(append([]byte("E:"), b[:n]...))
				}
			}()
		}
	}()
	return l.Addr().(*net.TCPAddr).Port, func() { l.Close() }, nil
}

// listening tells whether some socket LISTENs on 127.0.0.1:port, from /proc/net/tcp - without connecting.
// (A probe connection to the admin port is not harmless: admin.Server.Stop passes a nil context to
// http.Server.Shutdown, which is only dereferenced when a connection is not idle at that moment; a probe that the
// server has not yet seen closing makes the stop-admin step panic.  That is probed on purpose by kind "adminbusy",
// never by accident.)
func listening(port int) bool {
	b, err := os.ReadFile("/proc/net/tcp")
	if err != nil {
		return portUp(port)
	}
	want := fmt.Sprintf("0100007F:%04X", port)
	for _, l := range strings.Split(string(b), "\n")[1:] {
		f := strings.Fields(l)
		if len(f) > 3 && f[1] == want && f[3] == "0A" {
			return true
		}
	}
	return false
}

func portUp(port int) bool {
	c, err := net.DialTimeout("tcp", fmt.Sprintf("127.0.0.1:%d", port), 300*time.Millisecond)
	if err != nil {
		return false
	}
	c.Close()
	return true
}

// echoOK: one round trip through a proxied connection.
func echoOK(c net.Conn, tag string) bool {
	if c == nil {
		return false
	}
	c.SetDeadline(time.Now().Add(time.Second))
	if _, err := c.Write([]byte(tag)); err != nil {
		return false
	}
	b := make([]byte, 64)
	n, err := c.Read(b)
	return err == nil && string(b[:n]) == "E:"+tag
}

func newServed(port int) bool {
	c, err := net.DialTimeout("tcp", fmt.Sprintf("127.0.0.1:%d", port), 300*time.Millisecond)
	if err != nil {
		return false
	}
	defer c.Close()
	return echoOK(c, "n")
}

type samProc struct {
	cmd  *exec.Cmd
	done chan struct{}
	exit string
	log  string
}

// cappedLog returns a pipe end to hand to a process as stdout/stderr; what arrives is copied to path up to max
// bytes and read on (discarded) after that, so that a process logging in a busy loop neither blocks nor fills the disk.
func cappedLog(path string, max int64) (*os.File, error) {
	lf, err := os.Create(path)
	if err != nil {
		return nil, err
	}
	r, w, err := os.Pipe()
	if err != nil {
		lf.Close()
		return nil, err
	}
	go func() {
		defer lf.Close()
		defer r.Close()
		io.CopyN(lf, r, max)
		n, _ := io.Copy(io.Discard, r)
		if n > 0 {
			fmt.Fprintf(lf, "\n[c17: log capped, %d further bytes dropped]\n", n)
		}
	}()
	return w, nil
}

func startSam(bin, dir, name, cfg string, env []string) (*samProc, error) {
	logp := filepath.Join(dir, name+".log")
	lf, err := cappedLog(logp, 4<<20)
	if err != nil {
		return nil, err
	}
	cmd := exec.Command(bin, "-config", cfg, "-data", dir, "-pidfile", filepath.Join(dir, name+".pid"))
	cmd.Stdout, cmd.Stderr = lf, lf
	cmd.Env = append(os.Environ(), env...)
	if err := cmd.Start(); err != nil {
		lf.Close()
		return nil, err
	}
	lf.Close()
	p := &samProc{cmd: cmd, done: make(chan struct{}), log: logp}
	go func() {
		err := cmd.Wait()
		if err == nil {
			p.exit = "exit 0"
		} else {
			p.exit = err.Error()
		}
		close(p.done)
	}()
	return p, nil
}

func (p *samProc) alive() bool {
	select {
	case <-p.done:
		return false
	default:
		return true
	}
}

func (p *samProc) waitExit(d time.Duration) bool {
	select {
	case <-p.done:
		return true
	case <-time.After(d):
		return false
	}
}

func (p *samProc) kill() {
	if p.alive() {
		p.cmd.Process.Kill()
		p.waitExit(2 * time.Second)
	}
}

func (p *samProc) crashLines() string {
	b, _ := os.ReadFile(p.log)
	var keep []string
	for _, l := range strings.Split(string(b), "\n") {
		if strings.HasPrefix(l, "fatal error:") || strings.HasPrefix(l, "panic:") || strings.HasPrefix(l, "runtime: goroutine stack exceeds") {
			keep = append(keep, l)
		} else if len(keep) > 0 && len(keep) < 6 && strings.HasPrefix(l, "main.") {
			keep = append(keep, l)
		}
	}
	return strings.Join(keep, " | ")
}

func (p *samProc) steps() []string {
	b, _ := os.ReadFile(p.log)
	var out []string
	for _, l := range strings.Split(string(b), "\n") {
		switch {
		case strings.Contains(l, "Shutdown admin api"):
			out = append(out, "admin")
		case strings.Contains(l, "Drain listeners"):
			out = append(out, "drain")
		case strings.Contains(l, "Signal received: terminated"):
			out = append(out, "term")
		}
	}
	return out
}

func e2eRun(bin, work string, in *e2eIn, backendPort int) (out e2eOut) {
	t0 := time.Now()
	out = e2eOut{ID: in.ID, Kind: in.Kind, Reqs: in.Reqs, Obs: []e2eObs{}}
	defer func() { out.Ms = time.Since(t0).Milliseconds() }()
	dir, err := os.MkdirTemp(work, "e2e")
	if err != nil {
		out.Infra = err.Error()
		return
	}
	admin, svc := freePort(), freePort()
	cfg := filepath.Join(dir, "sam.yaml")
	os.WriteFile(cfg, []byte(fmt.Sprintf(`admin:
  bind:
    ip: 127.0.0.1
    port: %d
log:
  level: INFO
static_services:
  - name: c17-e2e
    config:
      listener:
        address:
          ip: 127.0.0.1
          port: %d
      protocol: TCP
    endpoints:
      - address:
          ip: 127.0.0.1
          port: %d
`, admin, svc, backendPort)), 0644)
	par, err := startSam(bin, dir, "parent", cfg, nil)
	if err != nil {
		out.Infra = "start: " + err.Error()
		return
	}
	defer par.kill()
	up := false
	for i := 0; i < 100 && par.alive(); i++ {
		if _, err := os.Stat(filepath.Join(dir, "parent.pid")); err == nil && listening(admin) && listening(svc) {
			up = true
			break
		}
		time.Sleep(50 * time.Millisecond)
	}
	if !up {
		out.Infra = "the old process did not come up: " + par.crashLines()
		return
	}
	est, err := net.DialTimeout("tcp", fmt.Sprintf("127.0.0.1:%d", svc), time.Second)
	if err != nil || !echoOK(est, "a") {
		out.Infra = fmt.Sprintf("no proxied connection before the hand-over: %v", err)
		return
	}
	defer est.Close()
	observe := func(req, reply string) e2eObs {
		o := e2eObs{Req: req, Reply: reply, AdminUp: listening(admin), Accepting: newServed(svc), EstAlive: echoOK(est, "e"), Alive: par.alive()}
		if !o.Alive {
			o.Exit = par.exit
		}
		return o
	}
	out.Start = observe("", "")
	pid := par.cmd.Process.Pid

	switch in.Kind {
	case "scripted", "adminbusy":
		var ac net.Conn
		if in.Kind == "adminbusy" {
			// an admin API client is in the middle of a request when the hand-over begins
			var err error
			ac, err = net.DialTimeout("tcp", fmt.Sprintf("127.0.0.1:%d", admin), time.Second)
			if err != nil {
				out.Infra = "admin port: " + err.Error()
				return
			}
			defer ac.Close()
			ac.Write([]byte("GET /config HTTP/1.1\r\nHost: c17\r\n"))
			time.Sleep(100 * time.Millisecond)
		}
		c, err := net.DialTimeout("unix", fmt.Sprintf("@sam_domain_socket_%d", pid), time.Second)
		if err != nil {
			out.Infra = "control socket: " + err.Error()
			return
		}
		uc := c.(*net.UnixConn)
		defer uc.Close()
		for i, x := range in.Reqs {
			t, ok := reqType[x]
			if !ok {
				t = uint8(unknownTypes[(int(cli.Seed())+i)%len(unknownTypes)])
			}
			uc.SetWriteDeadline(time.Now().Add(time.Second))
			if _, err := uc.Write([]byte{t, 0, 2, '{', '}'}); err != nil {
				out.Obs = append(out.Obs, observe(x, "write failed: "+err.Error()))
				break
			}
			// wait for the reply; a process that is dumping a fatal error (the dump of a 1 GB stack takes
			// seconds) is recognised from its log and put out of its misery
			rch := make(chan rdRes, 1)
			go func() { rch <- readReply(uc, 6*time.Second) }()
			name, crashed := "", false
			tick := time.NewTicker(50 * time.Millisecond)
		wait:
			for {
				select {
				case res := <-rch:
					name = res.name
					if res.err != nil {
						name = "timeout"
					}
					break wait
				case <-tick.C:
					if par.crashLines() != "" {
						name, crashed = "none (the process is crashing)", true
						break wait
					}
				}
			}
			tick.Stop()
			if crashed {
				out.Crash = par.crashLines()
				par.cmd.Process.Kill()
				par.waitExit(2 * time.Second)
				par.exit = "fatal error, killed by the harness during the crash dump"
			} else if x == "term" || name == "eof" || name == "timeout" {
				// terminate: the process exits by itself
				par.waitExit(4 * time.Second)
			}
			o := observe(x, name)
			if ac != nil && x == "admin" && par.alive() {
				// "stop the admin API" was acknowledged: the API must be gone for the client that was in the middle of
				// a request too (the new process serves this address from now on)
				ac.SetDeadline(time.Now().Add(700 * time.Millisecond))
				ac.Write([]byte("\r\n"))
				b := make([]byte, 256)
				n, err := ac.Read(b)
				switch {
				case n > 0:
					o.Lingering = "answered: " + strings.SplitN(string(b[:n]), "\r\n", 2)[0]
				case err != nil && strings.Contains(err.Error(), "timeout"):
					o.Lingering = "open"
				default:
					o.Lingering = "closed"
				}
			}
			out.Obs = append(out.Obs, o)
			if !par.alive() {
				break
			}
		}
		if out.Crash == "" {
			out.Crash = par.crashLines()
		}
	case "realchild":
		child, err := startSam(bin, dir, "child", cfg, []string{
			fmt.Sprintf("__Samaritan_Parent__=%d", pid), "__Samaritan_Parent_Terminate_Time__=700ms"})
		if err != nil {
			out.Infra = "start child: " + err.Error()
			return
		}
		defer child.kill()
		// the child asks for admin and drain right away
		end := time.Now().Add(3 * time.Second)
		for time.Now().Before(end) && len(par.steps()) < 2 {
			time.Sleep(20 * time.Millisecond)
		}
		time.Sleep(100 * time.Millisecond)
		out.EstDuring = echoOK(est, "d") && par.alive()
		out.NewServed = newServed(svc)
		par.waitExit(5 * time.Second)
		out.ParentExit = par.exit
		if par.alive() {
			out.ParentExit = "still running 5s after the terminate time"
		}
		out.ParentSteps = par.steps()
		out.ChildAlive = child.alive()
		out.NewServed = out.NewServed && newServed(svc) && listening(admin)
		out.Crash = strings.TrimSpace(par.crashLines() + " " + child.crashLines())
	}
	return
}

func e2eMain(args []string) error {
	fs := flag.NewFlagSet("c17-e2e", flag.ContinueOnError)
	bin := fs.String("bin", "", "samaritan binary")
	in := fs.String("in", "", "runs (ndjson)")
	outp := fs.String("out", "", "results (ndjson)")
	work := fs.String("work", os.TempDir(), "scratch directory")
	if err := fs.Parse(args); err != nil {
		return err
	}
	bp, stop, err := echoBackend()
	if err != nil {
		return err
	}
	defer stop()
	w, err := cli.NewNDJSONWriter(*outp)
	if err != nil {
		return err
	}
	defer w.Close()
	return cli.ReadNDJSON(*in, func(line []byte) error {
		var r e2eIn
		if err := json.Unmarshal(line, &r); err != nil {
			return err
		}
		return w.Write(e2eRun(*bin, *work, &r, bp))
	})
}
