package c17

// c17-seq replays the behaviours emitted by spec/hotrestart/HandoverGen.tla on the real
// hotrestart.Restarter (public API: hotrestart.New with a recording Instance) running in a
// re-exec'ed process (c17-parent).  The harness acts as the children over the abstract unix
// socket.  It reports what the real code did (calls of the Instance in order, replies per child,
// process death) next to what the behaviour says, and records the observed events as a trace
// for validation against HandoverTrace.tla.  Verdicts are taken by checks/c17.py.

import (
	"bufio"
	"encoding/json"
	"errors"
	"flag"
	"fmt"
	"io"
	"net"
	"os"
	"os/exec"
	"strings"
	"sync"
	"sync/atomic"
	"syscall"
	"time"
	"unsafe"

	"github.com/samaritan-proxy/samaritan/cmd/samaritan/hotrestart"

	"verifharness/internal/cli"
)

func init() { cli.Register("c17-seq", seqMain) }

// ---- behaviour format of HandoverGen.tla

type hev struct {
	A string `json:"a"`
	C int    `json:"c"`
	X string `json:"x"`
}

type behIn struct {
	ID  int    `json:"id"`
	Src string `json:"src"`
	Beh []hev  `json:"beh"`
}

type issue struct {
	K string `json:"k"` // stable class
	D string `json:"d"` // detail
}

type badUse struct {
	Cls      string `json:"cls"`
	Type     int    `json:"type"`
	Declared int    `json:"declared"`
	Carried  int    `json:"carried"`
	Size     int    `json:"size"`
}

type epilogue struct {
	Ran     bool     `json:"ran"`
	Done    bool     `json:"done"`
	Calls   []string `json:"calls"`
	Replies []string `json:"replies"`
	Why     string   `json:"why,omitempty"`
}

type seqOut struct {
	ID         int                 `json:"id"`
	Src        string              `json:"src"`
	Mode       string              `json:"mode"`
	Followed   bool                `json:"followed"`
	Calls      []string            `json:"calls"`
	ExpCalls   []string            `json:"expCalls"`
	Replies    map[string][]string `json:"replies"`
	ExpReplies map[string][]string `json:"expReplies"`
	Issues     []issue             `json:"issues"`
	ParentDied bool                `json:"parentDied"`
	ParentLog  string              `json:"parentLog,omitempty"`
	Bad        []badUse            `json:"bad,omitempty"`
	Unknown    []int               `json:"unknown,omitempty"`
	Epilogue   epilogue            `json:"epilogue"`
	Events     int                 `json:"events"`
	Infra      string              `json:"infra,omitempty"`
	Ms         int64               `json:"ms"`
	// a later child got no answer although every earlier child had hung up (the real code is stuck, not the harness)
	Blocked *blockedObs `json:"blocked,omitempty"`
	// a pipelined child: its next request was acted upon while the step of the previous one was still running
	Overtaken *overtakenObs `json:"overtaken,omitempty"`
	Killed  bool        `json:"killed,omitempty"`  // the parent worker was killed after a wait ran out; the next behaviour gets a fresh one
	Stopped *stopInfo   `json:"stopped,omitempty"` // last record of a run that stopped early
	// real signals do not queue: a second kill() issued before the first SIGTERM was picked up is merged by the OS / the Go
	// runtime.  Counted here (not in Calls) when two terminates are adjacent with no driver action in between.
	CoalescedTerms int `json:"coalescedTerms,omitempty"`
}

// blockedObs: what was observed when a child whose predecessors had all hung up got no answer in time.
type blockedObs struct {
	Cause     string   `json:"cause"`     // "drop" (earlier children hung up) | "pause" (the child itself was silent for a long time) | "accept-fault"
	Pause     string   `json:"pause,omitempty"`
	Child     int      `json:"child"`     // the child that waited
	Step      string   `json:"step"`      // the request it waited for
	Waited    string   `json:"waited"`    // "step" (the Instance call never came) or "reply"
	Where     string   `json:"where"`     // "behaviour" or "later child after the behaviour"
	Dropped   []int    `json:"dropped"`   // children that had hung up before
	Performed []string `json:"performed"` // steps the old process had performed so far in this run
	Deadline  string   `json:"deadline"`
}

// overtakenObs: a request written while the parent was inside a step had a visible effect before that step finished.
type overtakenObs struct {
	Child      int    `json:"child"`
	InProgress string `json:"inProgress"` // the step the recording Instance was still blocked in
	Later      string `json:"later"`      // the request written meanwhile
	Saw        string `json:"saw"`        // what became visible: a reply, an Instance call, the terminate signal
	Within     string `json:"within"`
}

type stopInfo struct {
	After int    `json:"after"` // behaviours replayed
	Hangs int    `json:"hangs"`
	Why   string `json:"why"`
}

// the parent worker's log is bounded: a busy loop that logs per iteration must not fill the disk
const maxParentLog = 3 << 20
const maxParentLogImportant = 1 << 20

// ---- the re-exec'ed parent process

type parentProc struct {
	cmd   *exec.Cmd
	cmdW  *os.File
	calls chan pev
	terms chan pev // SIGTERM observations (real signal): asynchronous, kept apart from the gated calls
	ctl   chan pev
	dead  chan struct{}
	log   string
	mu    sync.Mutex
	warns int64 // frame rejections the Restarter logged (hotrestart.go:141: "Read msg from child failed: incomplete data|invalid header")
}

func startParent(logPath string, hook bool) (*parentProc, error) {
	exe, err := os.Executable()
	if err != nil {
		return nil, err
	}
	cr, cw, err := os.Pipe()
	if err != nil {
		return nil, err
	}
	er, ew, err := os.Pipe()
	if err != nil {
		return nil, err
	}
	lf, err := os.OpenFile(logPath, os.O_CREATE|os.O_WRONLY|os.O_TRUNC, 0644)
	if err != nil {
		return nil, err
	}
	lr, lw, err := os.Pipe()
	if err != nil {
		return nil, err
	}
	cmd := exec.Command(exe, "c17-parent")
	cmd.Stdout, cmd.Stderr = lw, lw
	cmd.ExtraFiles = []*os.File{cr, ew}
	if err := cmd.Start(); err != nil {
		return nil, err
	}
	cr.Close()
	ew.Close()
	lw.Close()
	p := &parentProc{cmd: cmd, cmdW: cw, calls: make(chan pev, 4096), terms: make(chan pev, 4096), ctl: make(chan pev, 256),
		dead: make(chan struct{}), log: logPath}
	go func() {
		// stdout = the samaritan logger (a rejected frame is logged before the loop reads again), stderr = panics.
		// Everything is read (the worker must never block on its log) but only the first maxParentLog bytes are
		// kept, plus up to maxParentLogImportant bytes of crash lines arriving later.
		defer lf.Close()
		sc := bufio.NewScanner(lr)
		sc.Buffer(make([]byte, 1<<16), 1<<20)
		w := bufio.NewWriter(lf)
		defer w.Flush()
		kept, keptImp, dropped := 0, 0, 0
		for sc.Scan() {
			t := sc.Text()
			// only the two rejections of readMessage (rpc.go:163,169); a reset connection is logged by the same line
			if strings.Contains(t, "Read msg from child failed") &&
				(strings.Contains(t, "incomplete data") || strings.Contains(t, "invalid header")) {
				atomic.AddInt64(&p.warns, 1)
			}
			switch {
			case kept+len(t) < maxParentLog:
				kept += len(t) + 1
			case keptImp+len(t) < maxParentLogImportant && (strings.HasPrefix(t, "panic:") || strings.HasPrefix(t, "fatal error:") ||
				strings.HasPrefix(t, "goroutine ") || strings.Contains(t, "hotrestart") && !strings.Contains(t, "Read msg from child failed")):
				keptImp += len(t) + 1
			default:
				if dropped == 0 {
					w.WriteString("[c17: log capped here, further lines dropped]\n")
					w.Flush()
				}
				dropped++
				continue
			}
			w.WriteString(t)
			w.WriteByte('\n')
		}
		if dropped > 0 {
			fmt.Fprintf(w, "[c17: %d lines dropped]\n", dropped)
		}
	}()
	go func() {
		sc := bufio.NewScanner(er)
		sc.Buffer(make([]byte, 1<<16), 1<<20)
		for sc.Scan() {
			var e pev
			if json.Unmarshal(sc.Bytes(), &e) != nil {
				continue
			}
			if e.Ev == "call" && e.X == "term" && !hook {
				p.terms <- e
			} else if e.Ev == "call" {
				p.calls <- e
			} else {
				p.ctl <- e
			}
		}
		cmd.Wait()
		close(p.dead)
	}()
	return p, nil
}

func (p *parentProc) send(c pcmd) {
	b, _ := json.Marshal(c)
	p.mu.Lock()
	p.cmdW.Write(append(b, '\n'))
	p.mu.Unlock()
}

func (p *parentProc) isDead() bool {
	select {
	case <-p.dead:
		return true
	default:
		return false
	}
}

// waitCtl waits for a control event of the given kind.
func (p *parentProc) waitCtl(kind string, d time.Duration) (pev, error) {
	t := time.NewTimer(d)
	defer t.Stop()
	for {
		select {
		case e := <-p.ctl:
			if e.Ev == kind {
				return e, nil
			}
			if e.Ev == "err" {
				return e, errors.New(e.X)
			}
		case <-p.dead:
			return pev{}, errors.New("parent process died")
		case <-t.C:
			return pev{}, fmt.Errorf("no %q from the parent within %s", kind, d)
		}
	}
}

// kill ends the worker at once (used when a wait on the real code ran out: never keep a stuck or spinning process).
func (p *parentProc) kill() {
	p.cmd.Process.Kill()
	select {
	case <-p.dead:
	case <-time.After(3 * time.Second):
	}
	p.cmdW.Close()
}

func (p *parentProc) stop() {
	p.send(pcmd{Cmd: "quit"})
	select {
	case <-p.dead:
	case <-time.After(2 * time.Second):
		p.cmd.Process.Kill()
		<-p.dead
	}
	p.cmdW.Close()
}

func (p *parentProc) logTail() string {
	b, err := os.ReadFile(p.log)
	if err != nil {
		return ""
	}
	s := string(b)
	if i := strings.Index(s, "panic:"); i >= 0 {
		s = s[i:]
	} else if i := strings.Index(s, "fatal error:"); i >= 0 {
		s = s[i:]
	}
	lines := strings.Split(s, "\n")
	var keep []string
	for _, l := range lines {
		if strings.HasPrefix(l, "panic:") || strings.HasPrefix(l, "fatal error:") || strings.Contains(l, "hotrestart") {
			keep = append(keep, strings.TrimSpace(l))
		}
		if len(keep) >= 8 {
			break
		}
	}
	return strings.Join(keep, " | ")
}

// ---- wire helpers of the scripted child

var reqType = map[string]uint8{"admin": 1, "conf": 3, "drain": 5, "term": 7}
var replyName = map[uint8]string{2: "adminReply", 4: "confReply", 6: "drainReply", 8: "termReply", 9: "unknownReply"}

// type bytes that are not one of the four requests
var unknownTypes = []int{0, 10, 2, 4, 6, 8, 9, 11, 127, 255}

func outq(c *net.UnixConn) int {
	rc, err := c.SyscallConn()
	if err != nil {
		return 0
	}
	var v int32
	rc.Control(func(fd uintptr) {
		syscall.Syscall(syscall.SYS_IOCTL, fd, uintptr(syscall.TIOCOUTQ), uintptr(unsafe.Pointer(&v)))
	})
	return int(v)
}

// inq is the number of bytes queued for reading on c.
func inq(c *net.UnixConn) int {
	rc, err := c.SyscallConn()
	if err != nil {
		return 0
	}
	var v int32
	rc.Control(func(fd uintptr) {
		syscall.Syscall(syscall.SYS_IOCTL, fd, uintptr(syscall.TIOCINQ), uintptr(unsafe.Pointer(&v)))
	})
	return int(v)
}

func peekReadable(c *net.UnixConn) int {
	rc, err := c.SyscallConn()
	if err != nil {
		return -1
	}
	n := -1
	buf := make([]byte, 64)
	rc.Control(func(fd uintptr) {
		k, _, e := syscall.Recvfrom(int(fd), buf, syscall.MSG_PEEK|syscall.MSG_DONTWAIT)
		if e == nil {
			n = k
		}
	})
	return n // -1 nothing yet, 0 end of stream, >0 bytes
}

type rdRes struct {
	name string // reply name, "eof", or "garbage:..."
	err  error
}

// readReply reads one reply frame from the child side (own stream parser: header, then payload).
func readReply(c *net.UnixConn, d time.Duration) rdRes {
	c.SetReadDeadline(time.Now().Add(d))
	h := make([]byte, 3)
	if _, err := io.ReadFull(c, h); err != nil {
		var ne net.Error
		if errors.As(err, &ne) && ne.Timeout() {
			return rdRes{err: err}
		}
		return rdRes{name: "eof"} // end of stream, reset by peer: the connection is over
	}
	l := int(h[1])<<8 | int(h[2])
	if l > 0 {
		if _, err := io.ReadFull(c, make([]byte, l)); err != nil {
			return rdRes{name: fmt.Sprintf("garbage:type=%d len=%d cut", h[0], l)}
		}
	}
	nm, ok := replyName[h[0]]
	if !ok {
		return rdRes{name: fmt.Sprintf("garbage:type=%d len=%d", h[0], l)}
	}
	return rdRes{name: nm}
}

// lineWriter writes one JSON object per line straight to the file: a record is on disk when Write returns,
// so nothing is lost if the driver is killed by the outer timeout of the check.
type lineWriter struct{ f *os.File }

func newLineWriter(path string) (*lineWriter, error) {
	f, err := os.Create(path)
	if err != nil {
		return nil, err
	}
	return &lineWriter{f: f}, nil
}

func (w *lineWriter) Write(v interface{}) error {
	b, err := json.Marshal(v)
	if err != nil {
		return err
	}
	_, err = w.f.Write(append(b, '\n'))
	return err
}

func (w *lineWriter) Close() error { return w.f.Close() }

// ---- driver

type driver struct {
	p       *parentProc
	logPath string
	nextID  int
	bad     []frameIn
	badIdx  int
	unkIdx  int
	hook    bool
	trace   *lineWriter
	tmo     time.Duration // deadline of every single wait on the real code (normally it answers within a millisecond)
	behTmo  time.Duration // deadline of a whole behaviour (pauses excluded)
	pause   time.Duration // real length of a "pause" event
	burstN  int           // size of the bursts of connect-and-hang-up children
	overtake time.Duration // how long a step stays blocked after a pipelined request was written (a drain that takes time)
	hangs   int           // behaviours in which a later child was blocked
	done    int
}

func (d *driver) ensureParent() error {
	if d.p != nil && !d.p.isDead() {
		return nil
	}
	p, err := startParent(d.logPath, d.hook)
	if err != nil {
		return err
	}
	d.p = p
	return nil
}

type run struct {
	d      *driver
	out    *seqOut
	conns  map[int]*net.UnixConn
	sock   string
	tr     []hev
	abort  bool
	waitAt map[int]bool // child has an unanswered request
	lenientTerm bool    // real signal, previous terminate not separated from this one by any driver action
	stash  []pev        // gated calls that arrived early (not released yet), kept for their own event
	dropped  []int      // children that have hung up so far
	paused   map[int]bool // child was silent for a long time since its last request
	faulted  bool       // a transient accept failure was induced in this run
	deadline time.Time  // of the whole behaviour
	inEpi  bool         // the later child of the epilogue is running: its calls are kept apart
	exited bool         // the parent was shut down (exit event)
}

// blocked records that child c got no answer in time.  It is a finding about the real code (not about the
// harness) when every earlier child had hung up and the process is still running.
func (r *run) blocked(c int, step, waited, where string) {
	if r.out.Blocked != nil || r.out.ParentDied || r.d.p.isDead() || r.exited {
		return
	}
	earlier := []int{}
	for _, d := range r.dropped {
		if d != c {
			earlier = append(earlier, d)
		}
	}
	cause := ""
	switch {
	case r.paused[c]:
		cause = "pause" // nothing but time passed on this child's own connection
	case r.faulted:
		cause = "accept-fault"
	case len(earlier) > 0:
		cause = "drop"
	default:
		return
	}
	if cause != "pause" {
		for oc := range r.conns {
			if oc != c {
				return // another child is still connected: waiting behind it is what the code is meant to do
			}
		}
	}
	perf := []string{}
	for _, x := range append(append([]string{}, r.out.Calls...), r.out.Epilogue.Calls...) {
		if x != "" {
			perf = append(perf, x)
		}
	}
	r.out.Blocked = &blockedObs{Cause: cause, Child: c, Step: step, Waited: waited, Where: where, Dropped: earlier,
		Performed: perf, Deadline: r.d.tmo.String()}
	if cause == "pause" {
		r.out.Blocked.Pause = r.d.pause.String()
	}
}

// starvedConnect: child c connects while the old process has no file descriptor left (accept fails with EMFILE);
// the shortage ends a moment later.
func (r *run) starvedConnect(c int) error {
	r.d.p.send(pcmd{Cmd: "starve"})
	if _, err := r.d.p.waitCtl("starved", 3*time.Second); err != nil {
		return fmt.Errorf("could not exhaust the descriptors of the parent worker: %v", err)
	}
	err := r.connect(c)
	time.Sleep(60 * time.Millisecond)
	r.d.p.send(pcmd{Cmd: "feed"})
	if _, err2 := r.d.p.waitCtl("fed", 3*time.Second); err2 != nil && err == nil {
		err = fmt.Errorf("the parent worker did not release its descriptors: %v", err2)
	}
	return err
}

// burst: n children that connect and hang up at once, nothing sent (model: children that connect and drop).
func (r *run) burst(n int) {
	for i := 0; i < n; i++ {
		if conn, err := net.DialTimeout("unix", r.sock, r.d.tmo); err == nil {
			conn.Close()
		}
	}
}

func (r *run) note(k, f string, a ...interface{}) {
	r.out.Issues = append(r.out.Issues, issue{K: k, D: fmt.Sprintf(f, a...)})
}

func (r *run) log(a string, c int, x string) { r.tr = append(r.tr, hev{a, c, x}) }

// unexpectedCall: a call the behaviour does not have at this point; logged, released.
func (r *run) unexpectedCall(e pev, where string) {
	r.out.Calls = append(r.out.Calls, e.X)
	r.log("call", 0, e.X)
	r.note("unexpected-call", "%s while %s", e.X, where)
	if e.X != "term" || r.d.hook {
		r.d.p.send(pcmd{Cmd: "release"})
	}
}

// expectCall waits for the next call event; returns its name ("" if none came).  next is the call-step the
// behaviour has after this one ("" = none): with a real signal the parent may already sit in it.
func (r *run) expectCall(want, next string) string {
	tmo := r.d.tmo
	if r.lenientTerm {
		tmo = 300 * time.Millisecond
	}
	t := time.NewTimer(tmo)
	defer t.Stop()
	src := r.d.p.calls
	var other chan pev
	if want == "term" && !r.d.hook {
		// the signal is observed asynchronously: its position relative to later calls is not asserted
		// in this mode (it is with -kill hook, where the package's kill variable is gated)
		src, other = r.d.p.terms, r.d.p.calls
	}
	got := func(e pev) string {
		if !r.inEpi {
			r.out.Calls = append(r.out.Calls, e.X)
		}
		r.log("call", 0, e.X)
		if e.X != want {
			r.note("other-call", "expected %s, the parent performed %s", want, e.X)
		}
		return e.X
	}
	if other == nil && len(r.stash) > 0 {
		e := r.stash[0]
		r.stash = r.stash[1:]
		return got(e)
	}
	for {
		select {
		case e := <-src:
			return got(e)
		case e := <-other:
			if e.X == next && len(r.stash) == 0 {
				r.stash = append(r.stash, e) // the parent went on after kill(); the signal is on its way
			} else {
				r.unexpectedCall(e, "the terminate signal was awaited")
			}
		case <-r.d.p.dead:
			r.parentDied("waiting for step " + want)
			return ""
		case <-t.C:
			if r.lenientTerm {
				r.out.CoalescedTerms++
				return ""
			}
			r.note("missing-call", "step %s was not performed within %s", want, r.d.tmo)
			return ""
		}
	}
}

// diedMeanwhile: a write or a connect failed; if that is because the process is going down, say so.
func (r *run) diedMeanwhile(where string) bool {
	select {
	case <-r.d.p.dead:
		r.parentDied(where)
		return true
	case <-time.After(300 * time.Millisecond):
		return false
	}
}

func (r *run) parentDied(where string) {
	if !r.out.ParentDied {
		r.out.ParentDied = true
		r.out.ParentLog = r.d.p.logTail()
		r.note("parent-died", "the process running the Restarter died %s: %s", where, r.out.ParentLog)
	}
	r.abort = true
}

// recv waits for one reply on child c, serving unexpected calls meanwhile.
func (r *run) recv(c int, where string) (string, bool) {
	conn := r.conns[c]
	if conn == nil {
		return "", false
	}
	ch := make(chan rdRes, 1)
	go func() { ch <- readReply(conn, r.d.tmo) }()
	for {
		select {
		case res := <-ch:
			if res.err != nil {
				return "", false
			}
			return res.name, true
		case e := <-r.d.p.calls:
			r.unexpectedCall(e, where)
		case <-r.d.p.dead:
			r.parentDied(where)
			// the read returns by itself (end of stream)
			res := <-ch
			if res.err != nil {
				return "", false
			}
			return res.name, true
		}
	}
}

// pollCalls serves calls that arrive while the walker waits for something the parent does, in program
// order, BEFORE any call the behaviour still has (reached tells whether that thing has happened by now).
// If it has, the call is the behaviour's next one and is kept, unreleased, for its own event; if not, the
// parent is sitting in a call the behaviour does not have: logged and released.
func (r *run) pollCalls(where string, reached func() bool) {
	for {
		select {
		case e := <-r.d.p.calls:
			if reached != nil && reached() {
				r.stash = append(r.stash, e)
				return
			}
			r.unexpectedCall(e, where)
		default:
			return
		}
	}
}

// pollTerms: signals nobody asked for (real mode), checked when a run is over.
func (r *run) pollTerms(where string) {
	for {
		select {
		case e := <-r.d.p.terms:
			r.unexpectedCall(e, where)
		default:
			return
		}
	}
}

// awaitCtl waits for a control event and keeps serving calls meanwhile (a gated call nobody
// releases would block the serving goroutine and with it Shutdown).
func (r *run) awaitCtl(kind string, d time.Duration, where string) error {
	t := time.NewTimer(d)
	defer t.Stop()
	for {
		select {
		case e := <-r.d.p.ctl:
			if e.Ev == kind {
				return nil
			}
		case e := <-r.d.p.calls:
			if e.X == "instShutdown" {
				continue
			}
			r.unexpectedCall(e, where)
		case <-r.d.p.dead:
			return errors.New("parent process died")
		case <-t.C:
			return fmt.Errorf("no %q from the parent within %s", kind, d)
		}
	}
}

func (r *run) sendReq(c int, x string) error {
	conn := r.conns[c]
	if conn == nil {
		return errors.New("not connected")
	}
	var m *hotrestart.VerifMessage
	if t, ok := reqType[x]; ok {
		m = &hotrestart.VerifMessage{Type: t, Len: 2, Data: []byte("{}")}
	} else {
		t := unknownTypes[r.d.unkIdx%len(unknownTypes)]
		r.d.unkIdx++
		r.out.Unknown = append(r.out.Unknown, t)
		m = &hotrestart.VerifMessage{Type: uint8(t), Len: 2, Data: []byte("{}")}
		if r.d.unkIdx%3 == 0 {
			m.Len, m.Data = 0, nil
		}
	}
	conn.SetWriteDeadline(time.Now().Add(r.d.tmo))
	return hotrestart.VerifSendMessage(conn, m)
}

func (r *run) sendBad(c int) error {
	conn := r.conns[c]
	if conn == nil {
		return errors.New("not connected")
	}
	if len(r.d.bad) == 0 {
		return errors.New("no malformed units given (-bad)")
	}
	v := r.d.bad[r.d.badIdx%len(r.d.bad)]
	r.d.badIdx++
	r.out.Bad = append(r.out.Bad, badUse{v.Cls, v.Type, v.Declared, v.Carried, v.Size})
	w0, in0 := atomic.LoadInt64(&r.d.p.warns), inq(conn)
	conn.SetWriteDeadline(time.Now().Add(r.d.tmo))
	if _, err := conn.Write(wireBytes(&v)); err != nil {
		return err
	}
	// one frame = one read unit: let the parent take it before anything else is written
	if r.exited {
		return nil
	}
	// One frame = one read unit.  The read that takes the malformed unit must have RETURNED before anything
	// else is written (an empty send queue is not enough: a stream read that still has room keeps collecting).
	// Evidence that it returned: the Restarter logged the rejection, or it acted on the unit (a call, a reply,
	// its death).
	end := time.Now().Add(r.d.tmo)
	for {
		if r.d.p.isDead() {
			return nil
		}
		if outq(conn) == 0 {
			if atomic.LoadInt64(&r.d.p.warns) > w0 || peekReadable(conn) == 0 {
				return nil
			}
			if inq(conn) > in0 {
				res := readReply(conn, 200*time.Millisecond)
				k := fmt.Sprint(c)
				r.out.Replies[k] = append(r.out.Replies[k], res.name)
				r.log("recv", c, res.name)
				r.note("bad-frame-answered", "the parent answered a malformed unit (%s type=%d declared=%d carried=%d) with %s", v.Cls, v.Type, v.Declared, v.Carried, res.name)
				return nil
			}
			select {
			case e := <-r.d.p.calls:
				r.unexpectedCall(e, "a malformed unit had been sent")
				return nil
			case e := <-r.d.p.terms:
				r.unexpectedCall(e, "a malformed unit had been sent")
				return nil
			default:
			}
		}
		if time.Now().After(end) {
			r.note("bad-frame-not-consumed", "no sign within %s that the parent took the malformed unit (no rejection logged, no call, no reply)", r.d.tmo)
			return nil
		}
		time.Sleep(20 * time.Microsecond)
	}
}

func (r *run) drop(c int, replyUnread bool) {
	conn := r.conns[c]
	if conn == nil {
		return
	}
	if replyUnread {
		end := time.Now().Add(r.d.tmo)
		for peekReadable(conn) < 0 && time.Now().Before(end) && !r.d.p.isDead() {
			r.pollCalls(fmt.Sprintf("child %d was about to drop with the reply unread", c), func() bool { return peekReadable(conn) >= 0 })
			time.Sleep(20 * time.Microsecond)
		}
	}
	conn.Close()
	delete(r.conns, c)
	delete(r.waitAt, c)
	r.dropped = append(r.dropped, c)
	r.log("drop", c, "")
}

func (r *run) connect(c int) error {
	conn, err := net.DialTimeout("unix", r.sock, r.d.tmo)
	if err != nil {
		return err
	}
	r.conns[c] = conn.(*net.UnixConn)
	return nil
}

// leftovers: at the end nothing may be readable on a connection that is not waiting for a reply.
func (r *run) leftovers() {
	for c, conn := range r.conns {
		if n := peekReadable(conn); n > 0 {
			res := readReply(conn, 100*time.Millisecond)
			key := fmt.Sprint(c)
			r.out.Replies[key] = append(r.out.Replies[key], res.name)
			r.log("recv", c, res.name)
			r.note("extra-reply", "child %d got a reply nobody asked for: %s", c, res.name)
		}
	}
}

func (r *run) drainCalls(where string) {
	// make sure every event the parent emitted so far has been seen
	r.d.p.send(pcmd{Cmd: "sync", N: r.out.ID})
	t := time.NewTimer(r.d.tmo)
	defer t.Stop()
	for {
		select {
		case e := <-r.d.p.calls:
			r.unexpectedCall(e, where)
		case e := <-r.d.p.ctl:
			if e.Ev == "sync" && e.N == r.out.ID {
				for {
					select {
					case e := <-r.d.p.calls:
						r.unexpectedCall(e, where)
					default:
						return
					}
				}
			}
		case <-r.d.p.dead:
			r.parentDied(where)
			return
		case <-t.C:
			return
		}
	}
}

func (d *driver) replay(b *behIn) seqOut {
	out := seqOut{ID: b.ID, Src: b.Src, Mode: "real", Followed: true, Calls: []string{}, ExpCalls: []string{},
		Replies: map[string][]string{}, ExpReplies: map[string][]string{}, Issues: []issue{}}
	if d.hook {
		out.Mode = "hook"
	}
	if err := d.ensureParent(); err != nil {
		out.Infra = "cannot start the parent process: " + err.Error()
		return out
	}
	var id int
	for attempt := 0; ; attempt++ {
		d.nextID++
		id = (os.Getpid()%20000)*100000 + d.nextID%100000
		d.p.send(pcmd{Cmd: "new", ID: id, Gate: true, Hook: d.hook})
		_, err := d.p.waitCtl("ready", 5*time.Second)
		if err == nil {
			break
		}
		if attempt == 0 && d.p.isDead() {
			// the process of the previous behaviour was still going down
			if err2 := d.ensureParent(); err2 == nil {
				continue
			}
		}
		out.Infra = "hotrestart.New: " + err.Error()
		return out
	}
	r := &run{d: d, out: &out, conns: map[int]*net.UnixConn{}, sock: hotrestart.VerifSocketName(id), waitAt: map[int]bool{},
		paused: map[int]bool{}, deadline: time.Now().Add(d.behTmo)}
	maxChild, exited := 0, false
	replied := map[int]bool{} // the behaviour says: a reply for child c is in flight, unread
	termsSeen, sentSinceKill := 0, false
	skip := -1
	for i, e := range b.Beh {
		if e.C > maxChild {
			maxChild = e.C
		}
		switch e.A {
		case "step", "kill":
			out.ExpCalls = append(out.ExpCalls, e.X)
		case "recv":
			k := fmt.Sprint(e.C)
			out.ExpReplies[k] = append(out.ExpReplies[k], e.X)
		}
		if len(out.Issues) > 0 {
			// the first deviation ends the replay of a behaviour: what follows would only be its echo
			r.abort = true
		}
		if !r.abort && time.Now().After(r.deadline) {
			r.note("behaviour-deadline", "the behaviour was not through after %s (at event %d: %s %d %s)", d.behTmo, i, e.A, e.C, e.X)
			r.abort = true
		}
		if r.abort || i == skip {
			continue
		}
		switch e.A {
		case "connect":
			fault := i+1 < len(b.Beh) && b.Beh[i+1].A == "acceptfault"
			if d.burstN > 0 && !fault {
				// a child that connects and hangs up without a word comes as a burst of such children
				for _, f := range b.Beh[i+1:] {
					if f.C == e.C && (f.A == "send" || f.A == "sendbad" || f.A == "drop") {
						if f.A == "drop" {
							r.burst(d.burstN)
						}
						break
					}
				}
			}
			var err error
			if fault {
				err = r.starvedConnect(e.C)
				r.faulted = true
			} else {
				err = r.connect(e.C)
			}
			if err != nil && fault && r.conns[e.C] != nil {
				// connected, but the shortage could not be produced / ended: infrastructure
				out.Infra = err.Error()
				r.abort = true
				continue
			}
			if err != nil {
				if !r.diedMeanwhile(fmt.Sprintf("(child %d could not connect)", e.C)) {
					r.note("connect-failed", "child %d: %v", e.C, err)
					out.Followed = false
					r.abort = true
				}
				continue
			}
			r.log("connect", e.C, "")
			if fault {
				r.log("acceptfault", e.C, "")
			}
		case "pause":
			// time passes; nothing else happens.  The deadline of the behaviour does not count it.
			time.Sleep(d.pause)
			r.deadline = r.deadline.Add(d.pause)
			r.paused[e.C] = true
			r.log("pause", e.C, "")
		case "refused":
			if err := r.connect(e.C); err == nil {
				// a connection to a process that is gone must not be served
				name, ok := "", false
				if r.sendReq(e.C, "admin") == nil {
					name, ok = r.recv(e.C, "probing a connection made after the exit")
				}
				if ok && name != "eof" {
					r.note("served-after-exit", "child %d connected after the exit and got %s", e.C, name)
				}
				r.conns[e.C].Close()
				delete(r.conns, e.C)
			}
			r.log("refused", e.C, "")
		case "send":
			pipelined, inStep, in0 := r.waitAt[e.C], "", 0
			if pipelined {
				// the child does not wait for the previous reply.  One frame = one read unit: write only once the parent
				// is inside the (blocked) step of the previous request, i.e. its call event is here.
				if len(r.stash) == 0 {
					select {
					case ev := <-d.p.calls:
						r.stash = append(r.stash, ev)
					case <-d.p.dead:
						r.parentDied("before a pipelined request")
						continue
					case <-time.After(d.tmo):
						r.note("missing-call", "the step before the pipelined %s was not entered within %s", e.X, d.tmo)
						continue
					}
				}
				inStep = r.stash[0].X
				in0 = inq(r.conns[e.C])
			}
			if err := r.sendReq(e.C, e.X); err != nil && r.exited {
				// the parent is gone: the write fails or goes nowhere, the child learns it at its next read
			} else if err != nil {
				if !r.diedMeanwhile(fmt.Sprintf("(child %d could not send %s)", e.C, e.X)) {
					if r.paused[e.C] {
						// nobody but the old process can have closed this connection
						r.blocked(e.C, e.X, "connection (closed by the old process: "+err.Error()+")", "behaviour")
						r.note("missing-reply", "child %d could not send %s after its pause: %v", e.C, e.X, err)
						continue
					}
					r.note("send-failed", "child %d %s: %v", e.C, e.X, err)
					out.Followed = false
					r.abort = true
				}
				continue
			}
			r.waitAt[e.C] = true
			sentSinceKill = true
			r.log("send", e.C, e.X)
			if pipelined {
				// the step in progress takes its time (the recording Instance is still blocked in it): nothing of the
				// later request may show before it is through
				saw := ""
				end := time.Now().Add(d.overtake)
				for saw == "" && time.Now().Before(end) {
					select {
					case ev := <-d.p.calls:
						saw = "the Instance call / signal for " + ev.X
						out.Calls = append(out.Calls, ev.X)
						r.log("call", 0, ev.X)
					case ev := <-d.p.terms:
						saw = "the terminate signal"
						out.Calls = append(out.Calls, ev.X)
						r.log("call", 0, ev.X)
					default:
						if conn := r.conns[e.C]; conn != nil && inq(conn) > in0 {
							res := readReply(conn, 200*time.Millisecond)
							k := fmt.Sprint(e.C)
							out.Replies[k] = append(out.Replies[k], res.name)
							r.log("recv", e.C, res.name)
							saw = "the reply " + res.name
						} else {
							time.Sleep(200 * time.Microsecond)
						}
					}
				}
				if saw != "" {
					out.Overtaken = &overtakenObs{Child: e.C, InProgress: inStep, Later: e.X, Saw: saw, Within: d.overtake.String()}
					r.note("overtaken", "%s was written while step %s was still running, and %s showed up before that step finished", e.X, inStep, saw)
				}
			}
		case "sendbad":
			if err := r.sendBad(e.C); err != nil && r.exited {
			} else if err != nil {
				if r.diedMeanwhile("while a malformed unit was being sent") {
				} else {
					r.note("send-failed", "child %d malformed unit: %v", e.C, err)
					out.Followed = false
					r.abort = true
				}
				continue
			}
			r.log("sendbad", e.C, "")
			if r.d.p.isDead() {
				r.parentDied("after a malformed unit")
			}
		case "reply":
			replied[e.C] = true
		case "step", "kill":
			gated := e.A == "step" || d.hook
			next := ""
			for _, f := range b.Beh[i+1:] {
				if f.A == "step" {
					next = f.X
					break
				}
			}
			r.lenientTerm = e.A == "kill" && !d.hook && termsSeen > 0 && !sentSinceKill
			got := r.expectCall(e.X, next)
			if got == "" && !r.lenientTerm {
				r.blocked(e.C, e.X, "step", "behaviour")
			}
			r.lenientTerm = false
			if e.A == "kill" {
				termsSeen++
				sentSinceKill = false
			}
			if i+1 < len(b.Beh) && b.Beh[i+1].A == "drop" && b.Beh[i+1].C == e.C && gated && got != "" {
				// the drop happens while the parent is inside the step
				r.drop(e.C, false)
				skip = i + 1
			}
			if got != "" && (got != "term" || d.hook) {
				d.p.send(pcmd{Cmd: "release"})
			}
		case "recv":
			name, ok := r.recv(e.C, fmt.Sprintf("child %d waits for %s", e.C, e.X))
			k := fmt.Sprint(e.C)
			if !ok {
				r.blocked(e.C, e.X, "reply", "behaviour")
				r.note("missing-reply", "child %d: no %s within %s", e.C, e.X, d.tmo)
				out.Replies[k] = append(out.Replies[k], "")
				r.abort = true
				continue
			}
			out.Replies[k] = append(out.Replies[k], name)
			replied[e.C] = false
			delete(r.waitAt, e.C)
			if name == "eof" {
				r.log("eof", e.C, "")
				if r.paused[e.C] {
					r.blocked(e.C, e.X, "reply (the old process closed the connection)", "behaviour")
				}
				r.note("missing-reply", "child %d: connection ended instead of %s", e.C, e.X)
				r.abort = true
				continue
			}
			r.log("recv", e.C, name)
			delete(r.paused, e.C) // answered: the pause did no harm
		case "drop":
			r.drop(e.C, replied[e.C])
			replied[e.C] = false
		case "eof":
			name, ok := r.recv(e.C, fmt.Sprintf("child %d expects the end of the stream", e.C))
			if ok && name == "eof" {
				r.log("eof", e.C, "")
			} else if ok {
				k := fmt.Sprint(e.C)
				out.Replies[k] = append(out.Replies[k], name)
				r.log("recv", e.C, name)
				r.note("extra-reply", "child %d expected the end of the stream, got %s", e.C, name)
			} else {
				r.note("no-eof", "child %d: connection still open %s after the parent shut down", e.C, d.tmo)
			}
			if conn := r.conns[e.C]; conn != nil {
				conn.Close()
				delete(r.conns, e.C)
			}
		case "exit":
			// the behaviour has the exit after these replies were written: let them arrive first
			for c, in := range replied {
				if conn := r.conns[c]; in && conn != nil {
					end := time.Now().Add(d.tmo)
					for peekReadable(conn) < 0 && time.Now().Before(end) && !d.p.isDead() {
						r.pollCalls("the parent was about to exit", func() bool { return peekReadable(conn) >= 0 })
						time.Sleep(20 * time.Microsecond)
					}
				}
			}
			r.pollCalls("the parent was about to exit", nil)
			d.p.send(pcmd{Cmd: "shutdown"})
			if err := r.awaitCtl("down", 5*time.Second, "the parent was shutting down"); err != nil {
				if d.p.isDead() {
					r.parentDied("during Shutdown")
				} else {
					r.note("shutdown-hangs", "Restarter.Shutdown did not return: %v", err)
				}
			}
			exited, r.exited = true, true
			r.log("exit", 0, "")
		}
	}
	for _, e := range r.stash {
		r.unexpectedCall(e, "the behaviour was over")
	}
	r.stash = nil
	if !r.abort {
		r.drainCalls("the behaviour was over")
		r.pollTerms("the behaviour was over")
		r.leftovers()
	}
	// a later child must be able to complete the hand-over
	if !exited && !out.ParentDied && !r.abort {
		r.epilogue(maxChild + 1)
	}
	for _, c := range r.conns {
		c.Close()
	}
	expired := out.Blocked != nil
	for _, is := range out.Issues {
		switch is.K {
		case "missing-call", "missing-reply", "shutdown-hangs", "bad-frame-not-consumed", "no-eof", "behaviour-deadline", "api-hangs", "overtaken":
			expired = true
		}
	}
	if out.Epilogue.Ran && !out.Epilogue.Done {
		expired = true
	}
	if expired && !out.ParentDied && !d.p.isDead() {
		// a wait on the real code ran out: whatever state that process is in (stuck, spinning), it is not reused
		d.p.kill()
		out.Killed = true
	}
	if !out.ParentDied && !d.p.isDead() {
		d.p.send(pcmd{Cmd: "end"})
		if err := r.awaitCtl("ended", 5*time.Second, "the run was over"); err != nil {
			if d.p.isDead() {
				r.parentDied("at the end of the run")
			} else {
				r.note("shutdown-hangs", "Restarter.Shutdown did not return at the end of the run: %v", err)
				d.p.cmd.Process.Kill()
			}
		}
		// signals raised during this run have all been handed over by now (the parent flushes before "ended")
		r.pollTerms("the run was over")
		// calls still queued belong to nobody
		for {
			select {
			case e := <-d.p.calls:
				if e.X == "instShutdown" {
					continue
				}
				out.Calls = append(out.Calls, e.X)
				r.note("unexpected-call", "%s after the run", e.X)
				continue
			default:
			}
			break
		}
	}
	if out.ParentDied {
		select {
		case <-d.p.dead:
		case <-time.After(2 * time.Second):
			d.p.cmd.Process.Kill()
		}
	}
	out.Events = len(r.tr)
	if d.trace != nil {
		tr := make([][3]interface{}, 0, len(r.tr))
		for _, e := range r.tr {
			tr = append(tr, [3]interface{}{e.A, e.C, e.X})
		}
		d.trace.Write(map[string]interface{}{"id": b.ID, "src": b.Src, "mode": out.Mode, "clean": len(out.Issues) == 0, "tr": tr})
	}
	return out
}

func (r *run) epilogue(c int) {
	ep := &r.out.Epilogue
	ep.Ran = true
	r.inEpi = true
	ep.Calls, ep.Replies = []string{}, []string{}
	if err := r.connect(c); err != nil {
		ep.Why = "connect: " + err.Error()
		return
	}
	r.log("connect", c, "")
	for _, x := range []string{"admin", "conf", "drain", "term"} {
		if err := r.sendReq(c, x); err != nil {
			ep.Why = "send " + x + ": " + err.Error()
			return
		}
		r.log("send", c, x)
		// call steps are performed before the reply; terminate writes the reply first and then
		// signals, so in both cases the call event exists before the reply has been read here
		got := r.expectCall(x, "")
		ep.Calls = append(ep.Calls, got)
		if got == "" {
			ep.Why = "step " + x + " not performed"
			r.blocked(c, x, "step", "later child after the behaviour")
			return
		}
		if x != "term" || r.d.hook {
			r.d.p.send(pcmd{Cmd: "release"})
		}
		name, ok := r.recv(c, "the later child waits for the reply to "+x)
		if !ok || name == "eof" {
			ep.Why = "no reply to " + x
			if !ok {
				r.blocked(c, x, "reply", "later child after the behaviour")
			}
			return
		}
		ep.Replies = append(ep.Replies, name)
		r.log("recv", c, name)
	}
	r.drop(c, false)
	r.drainCalls("the later child was done")
	r.pollTerms("the later child was done")
	ep.Done = true
}

// apiRun: the package's own child side (hotrestart.New with ParentID, then the four *Parent* calls of
// samaritan.go) against the parent process.
func (d *driver) apiRun(id0 int) seqOut {
	out := seqOut{ID: id0, Src: "api", Mode: "real", Followed: true, Calls: []string{}, Replies: map[string][]string{},
		ExpCalls: []string{"conf", "admin", "drain", "term"}, ExpReplies: map[string][]string{}, Issues: []issue{}}
	if err := d.ensureParent(); err != nil {
		out.Infra = err.Error()
		return out
	}
	d.nextID++
	pid := (os.Getpid()%20000)*100000 + d.nextID%100000
	d.nextID++
	cid := (os.Getpid()%20000)*100000 + d.nextID%100000
	d.p.send(pcmd{Cmd: "new", ID: pid, Gate: false, Hook: false})
	if _, err := d.p.waitCtl("ready", 5*time.Second); err != nil {
		out.Infra = "hotrestart.New: " + err.Error()
		return out
	}
	child := &recInstance{id: cid, out: &evOut{w: bufio.NewWriter(io.Discard)}}
	cr, err := hotrestart.New(&childInst{recInstance: child, parent: pid})
	if err != nil {
		out.Infra = "hotrestart.New (child): " + err.Error()
		return out
	}
	done := make(chan struct{})
	go func() {
		cr.ShutdownParentLocalConf()
		cr.ShutdownParentAdmin()
		cr.DrainParentListeners()
		cr.TerminateParent()
		close(done)
	}()
	r := &run{d: d, out: &out, conns: map[int]*net.UnixConn{}}
	select {
	case <-done:
	case <-time.After(5 * time.Second):
		r.note("api-hangs", "the package's child-side calls did not return within 5s")
	}
	// the Instance calls arrive in order on one channel; the real signal is observed asynchronously on its own
	// channel, so its position is not asserted here: the three calls first, the signal appended
	t := time.After(d.tmo)
	var sigs []string
collect:
	for len(out.Calls)+len(sigs) < 4 {
		select {
		case e := <-d.p.calls:
			out.Calls = append(out.Calls, e.X)
		case e := <-d.p.terms:
			sigs = append(sigs, e.X)
		case <-d.p.dead:
			r.parentDied("during the child-side calls")
			break collect
		case <-t:
			break collect
		}
	}
	out.Calls = append(out.Calls, sigs...)
	cr.Shutdown()
	r.drainCalls("the child-side calls were over")
	d.p.send(pcmd{Cmd: "end"})
	if _, err := d.p.waitCtl("ended", 5*time.Second); err != nil && !d.p.isDead() {
		d.p.kill()
		out.Killed = true
	}
	return out
}

type childInst struct {
	*recInstance
	parent int
}

func (c *childInst) ParentID() int { return c.parent }

func seqMain(args []string) error {
	fs := flag.NewFlagSet("c17-seq", flag.ContinueOnError)
	in := fs.String("in", "", "behaviours (ndjson: id, src, beh)")
	outp := fs.String("out", "", "results (ndjson)")
	trp := fs.String("trace", "", "observed traces (ndjson)")
	badp := fs.String("bad", "", "malformed units for sendbad (ndjson, vectors of FrameGen)")
	kill := fs.String("kill", "real", "real: SIGTERM to the re-exec'ed process | hook: the package's kill variable records")
	logp := fs.String("log", "", "file for stdout/stderr of the parent process")
	api := fs.Bool("api", false, "also run the package's own child side once")
	maxHangs := fs.Int("maxhangs", 3, "stop after this many behaviours in which a later child was blocked")
	waitTmo := fs.Duration("wait", 2*time.Second, "deadline of every single wait on the real code")
	pause := fs.Duration("pause", 11*time.Second, "real length of a pause event (a child silent on its open connection)")
	overtake := fs.Duration("overtake", 100*time.Millisecond, "how long a step stays blocked after a pipelined request was written")
	burst := fs.Int("burst", 0, "a child that connects and hangs up without sending comes with this many more such children")
	if err := fs.Parse(args); err != nil {
		return err
	}
	if *logp == "" {
		*logp = *outp + ".parent.log"
	}
	d := &driver{logPath: *logp, hook: *kill == "hook", tmo: *waitTmo, behTmo: 15 * time.Second, pause: *pause, burstN: *burst, overtake: *overtake, badIdx: int(cli.Seed()) * 7, unkIdx: int(cli.Seed()) * 3}
	if *badp != "" {
		if err := cli.ReadNDJSON(*badp, func(line []byte) error {
			var v frameIn
			if err := json.Unmarshal(line, &v); err != nil {
				return err
			}
			d.bad = append(d.bad, v)
			return nil
		}); err != nil {
			return err
		}
	}
	w, err := newLineWriter(*outp)
	if err != nil {
		return err
	}
	defer w.Close()
	if *trp != "" {
		if d.trace, err = newLineWriter(*trp); err != nil {
			return err
		}
		defer d.trace.Close()
	}
	defer func() {
		if d.p != nil && !d.p.isDead() {
			d.p.stop()
		}
	}()
	if *api {
		if err := w.Write(d.apiRun(-1)); err != nil {
			return err
		}
	}
	errStop := errors.New("stopped early")
	err = cli.ReadNDJSON(*in, func(line []byte) error {
		var b behIn
		if err := json.Unmarshal(line, &b); err != nil {
			return err
		}
		t0 := time.Now()
		o := d.replay(&b)
		o.Ms = time.Since(t0).Milliseconds()
		d.done++
		if err := w.Write(o); err != nil {
			return err
		}
		if o.Blocked != nil {
			d.hangs++
			if d.hangs >= *maxHangs {
				w.Write(seqOut{ID: -2, Src: "stopped", Issues: []issue{}, Stopped: &stopInfo{After: d.done, Hangs: d.hangs,
					Why: fmt.Sprintf("a later child was blocked in %d behaviours; the rest would only repeat it", d.hangs)}})
				return errStop
			}
		}
		return nil
	})
	if err == errStop {
		return nil
	}
	return err
}
