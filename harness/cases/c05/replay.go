package c05

import (
	"encoding/json"
	"flag"
	"fmt"
	"sync"
	"time"

	"verifharness/internal/cli"
)

func init() {
	cli.Register("c05-replay", replayCmd)
	cli.Register("c05-random", randomCmd)
	cli.Register("c05-special", specialCmd)
}

// step of a behaviour emitted by spec/tcp/RelayGen.tla, sizes already concretised
// (checks/c05.py): send/fin/close are executed, recv/eof/rst are awaited.
type step struct {
	E string `json:"e"`
	X string `json:"x"`
	N int64  `json:"n"`
}

type behaviour struct {
	ID    int    `json:"id"`
	Steps []step `json:"steps"`
}

// sink collects results and per-connection traces.
type sink struct {
	mu  sync.Mutex
	out *cli.NDJSONWriter
	tr  *cli.NDJSONWriter
}

func newSink(outPath, tracePath string) (*sink, error) {
	o, err := cli.NewNDJSONWriter(outPath)
	if err != nil {
		return nil, err
	}
	t, err := cli.NewNDJSONWriter(tracePath)
	if err != nil {
		return nil, err
	}
	return &sink{out: o, tr: t}, nil
}

func (s *sink) put(res result, ev []event) {
	s.mu.Lock()
	defer s.mu.Unlock()
	s.out.Write(res)
	for _, e := range ev { // the events of one connection stay together
		s.tr.Write(e)
	}
}

func (s *sink) close() {
	s.out.Close()
	s.tr.Close()
}

func replayOne(e *env, b behaviour, wait time.Duration) (result, []event) {
	t0 := time.Now()
	c, s, err := e.connect()
	if err != nil {
		return result{ID: b.ID, Kind: "replay", Err: "connect: " + err.Error()}, nil
	}
	r := newRelay(b.ID, c, s)
	r.start()
	disturbed := false
	for _, st := range b.Steps {
		x := sideIdx(st.X)
		switch st.E {
		case "send":
			r.send(x, st.N, nil, nil)
		case "fin":
			r.fin(x)
		case "close":
			r.mu.Lock()
			if !r.s[x].eof && !r.s[x].rst {
				disturbed = true
			}
			r.mu.Unlock()
			r.closeSide(x)
		case "recv":
			if disturbed {
				r.waitRecv(x, st.N, 30*time.Millisecond, false)
			} else {
				r.waitRecv(x, st.N, wait, true)
			}
		case "eof":
			r.waitEnd(x, wait, true)
		case "rst":
			r.waitFor(30*time.Millisecond, func() bool { return r.s[x].rst })
		}
	}
	r.settle(wait)
	res := r.result("replay")
	res.Ms = time.Since(t0).Milliseconds()
	return res, r.ev
}

func replayCmd(args []string) error {
	fs := flag.NewFlagSet("c05-replay", flag.ContinueOnError)
	in := fs.String("in", "", "behaviours (ndjson)")
	out := fs.String("out", "", "results (ndjson)")
	trace := fs.String("trace", "", "trace (ndjson)")
	par := fs.Int("par", 16, "concurrent replays")
	if err := fs.Parse(args); err != nil {
		return err
	}
	var behs []behaviour
	if err := cli.ReadNDJSON(*in, func(line []byte) error {
		var b behaviour
		if err := json.Unmarshal(line, &b); err != nil {
			return err
		}
		behs = append(behs, b)
		return nil
	}); err != nil {
		return err
	}
	e, err := newEnv(10 * time.Minute)
	if err != nil {
		return err
	}
	defer e.close()
	sk, err := newSink(*out, *trace)
	if err != nil {
		return err
	}
	defer sk.close()
	wait := waitTime()
	ch := make(chan behaviour)
	var wg sync.WaitGroup
	for w := 0; w < *par; w++ {
		wg.Add(1)
		go func() {
			defer wg.Done()
			for b := range ch {
				res, ev := replayOne(e, b, wait)
				sk.put(res, ev)
			}
		}()
	}
	for _, b := range behs {
		ch <- b
	}
	close(ch)
	wg.Wait()
	fmt.Printf("replayed %d behaviours\n", len(behs))
	return nil
}
