package c05

import (
	"flag"
	"fmt"
	"math/rand"
	"strings"
	"sync"
	"time"

	"verifharness/internal/cli"
)

const bufSize = 16 * 1024 // proc/tcp/proc.go bufSize

// sideScript is what one side does in a random run.
//   A  send everything, half-close
//   A+ send everything, half-close, wait for EOF, close
//   B  half-close first (sends nothing), wait for EOF, close
//   C  send the first part, wait for the peer's EOF, send the rest, half-close, close
//   D  send a part, close abruptly
//   E  send everything, stay open
type sideScript struct {
	Pattern string
	Chunks  []int64
	Split   int    // C: chunks[:Split] before the peer's EOF; D: chunks[:Split] before the close
	FragMax int    // 0: one write per chunk
	NapProb int    // 1/NapProb writes are followed by a short sleep (0: never)
	ReadMax int    // size of the reader's buffer
	ReadNapProb int // 1/ReadNapProb reads are preceded by a 1 ms sleep (0: never)
}

func (s sideScript) String() string {
	parts := make([]string, len(s.Chunks))
	for i, c := range s.Chunks {
		parts[i] = fmt.Sprint(c)
	}
	return fmt.Sprintf("%s[%s]/%d frag=%d nap=%d rd=%d rdnap=%d", s.Pattern, strings.Join(parts, ","), s.Split,
		s.FragMax, s.NapProb, s.ReadMax, s.ReadNapProb)
}

func total(c []int64) int64 {
	var t int64
	for _, v := range c {
		t += v
	}
	return t
}

func randTotal(rng *rand.Rand, max int64) int64 {
	var t int64
	switch p := rng.Intn(100); {
	case p < 25:
		t = int64(rng.Intn(200))
	case p < 55: // around multiples of the copy buffer
		t = int64(1+rng.Intn(6))*bufSize + int64(rng.Intn(3)-1)
		if rng.Intn(4) == 0 {
			t += 7
		}
	case p < 85:
		t = int64(rng.Intn(256 << 10))
	default:
		t = max/4 + rng.Int63n(max-max/4)
	}
	if t > max {
		t = max
	}
	return t
}

func randChunks(rng *rand.Rand, tot int64) []int64 {
	n := 1 + rng.Intn(5)
	out := make([]int64, 0, n)
	left := tot
	for i := 0; i < n-1; i++ {
		var c int64
		switch rng.Intn(5) {
		case 0:
			c = 0
		case 1:
			c = bufSize + int64(rng.Intn(3)-1)
		default:
			if left > 0 {
				c = rng.Int63n(left + 1)
			}
		}
		if c > left {
			c = left
		}
		out = append(out, c)
		left -= c
	}
	return append(out, left)
}

func randSide(rng *rand.Rand, patterns []string, max int64, abruptPct int) sideScript {
	s := sideScript{}
	if rng.Intn(100) < abruptPct {
		s.Pattern = "D"
	} else {
		s.Pattern = patterns[rng.Intn(len(patterns))]
	}
	if s.Pattern != "B" {
		s.Chunks = randChunks(rng, randTotal(rng, max))
	}
	s.Split = rng.Intn(len(s.Chunks) + 1)
	switch rng.Intn(4) {
	case 0:
		s.FragMax = 0
	case 1:
		s.FragMax = 64 << 10
	case 2:
		s.FragMax = bufSize + 1
	case 3:
		s.FragMax = 1 + rng.Intn(4096)
		if total(s.Chunks) < 4096 && rng.Intn(2) == 0 {
			s.FragMax = 1 + rng.Intn(16)
		}
	}
	if rng.Intn(3) == 0 {
		s.NapProb = 1 + rng.Intn(40)
	}
	return s
}

func randReader(rng *rand.Rand, incoming int64) (int, int) {
	sizes := []int{64 << 10, 64 << 10, bufSize, bufSize + 1, bufSize - 1, 4096, 512, 7, 1}
	rm := sizes[rng.Intn(len(sizes))]
	if incoming > 64<<10 && rm < 512 {
		rm = 4096
	}
	if incoming > 1<<20 && rm < bufSize-1 {
		rm = bufSize
	}
	nap := 0
	if rng.Intn(4) == 0 {
		nap = 20 + rng.Intn(200)
	}
	return rm, nap
}

func runSide(r *relay, x int, sc sideScript, rng *rand.Rand, wait time.Duration) {
	var frag func() int
	var nap func() time.Duration
	if sc.FragMax > 0 {
		frag = func() int { return 1 + rng.Intn(sc.FragMax) }
	}
	if sc.NapProb > 0 {
		nap = func() time.Duration {
			if rng.Intn(sc.NapProb) == 0 {
				return time.Duration(rng.Intn(1500)) * time.Microsecond
			}
			return 0
		}
	}
	sendAll := func(ch []int64) {
		for _, c := range ch {
			r.send(x, c, frag, nap)
			if nap != nil {
				if d := nap(); d > 0 {
					time.Sleep(d)
				}
			}
		}
	}
	switch sc.Pattern {
	case "A":
		sendAll(sc.Chunks)
		r.fin(x)
	case "A+":
		sendAll(sc.Chunks)
		r.fin(x)
		if r.waitEnd(x, wait, true) {
			r.closeSide(x)
		}
	case "B":
		r.fin(x)
		if r.waitEnd(x, wait, true) {
			r.closeSide(x)
		}
	case "C":
		sendAll(sc.Chunks[:sc.Split])
		if r.waitEnd(x, wait, true) {
			// the other direction has finished: ours must keep flowing
			sendAll(sc.Chunks[sc.Split:])
			r.fin(x)
			r.closeSide(x)
		}
	case "D":
		sendAll(sc.Chunks[:sc.Split])
		if rng.Intn(2) == 0 {
			time.Sleep(time.Duration(rng.Intn(3000)) * time.Microsecond)
		}
		r.closeSide(x)
	case "E":
		sendAll(sc.Chunks)
	}
}

func randomOne(e *env, id int, seed int64, max int64, abruptPct int, wait time.Duration, gate *sync.WaitGroup) (result, []event) {
	rng := rand.New(rand.NewSource(seed))
	all := []string{"A", "A", "A+", "A+", "B", "C", "C", "E"}
	noC := []string{"A", "A+", "B"}
	var sc [2]sideScript
	first := rng.Intn(2)
	sc[first] = randSide(rng, all, max, abruptPct)
	if sc[first].Pattern == "C" {
		sc[1-first] = randSide(rng, noC, max, 0)
	} else {
		p := all
		if sc[first].Pattern == "E" || sc[first].Pattern == "D" {
			p = []string{"A", "A+", "B", "E"}
			if sc[first].Pattern == "E" {
				p = []string{"A", "B", "E", "A"}
			}
		}
		sc[1-first] = randSide(rng, p, max, 0)
	}
	// A+ / B wait for an EOF that an E peer never sends
	for x := 0; x < 2; x++ {
		if sc[x].Pattern == "E" && (sc[1-x].Pattern == "A+" || sc[1-x].Pattern == "B") {
			sc[x].Pattern = "A"
		}
	}
	script := "client " + sc[client].String() + " | backend " + sc[backend].String()
	t0 := time.Now()
	c, s, err := e.connect()
	if gate != nil {
		gate.Done()
		gate.Wait() // all relays of the round transfer at the same time
	}
	if err != nil {
		return result{ID: id, Kind: "random", Seed: seed, Script: script, Err: "connect: " + err.Error()}, nil
	}
	r := newRelay(id, c, s)
	for x := 0; x < 2; x++ {
		rm, napN := randReader(rng, total(sc[1-x].Chunks))
		r.readMax[x] = rm
		if napN > 0 {
			rr := rand.New(rand.NewSource(seed*7 + int64(x)))
			r.readNap[x] = func() time.Duration {
				if rr.Intn(napN) == 0 {
					return time.Millisecond
				}
				return 0
			}
		}
		sc[x].ReadMax, sc[x].ReadNapProb = rm, napN
	}
	script = "client " + sc[client].String() + " | backend " + sc[backend].String()
	r.start()
	var wg sync.WaitGroup
	for x := 0; x < 2; x++ {
		wg.Add(1)
		go func(x int) {
			defer wg.Done()
			runSide(r, x, sc[x], rand.New(rand.NewSource(seed*3+int64(x))), wait)
		}(x)
	}
	wg.Wait()
	r.settle(wait)
	res := r.result("random")
	res.Seed, res.Script = seed, script
	res.Ms = time.Since(t0).Milliseconds()
	return res, r.ev
}

func randomCmd(args []string) error {
	fs := flag.NewFlagSet("c05-random", flag.ContinueOnError)
	out := fs.String("out", "", "results (ndjson)")
	trace := fs.String("trace", "", "trace (ndjson)")
	rounds := fs.Int("rounds", 3, "rounds")
	conc := fs.Int("conc", 16, "concurrent relays per round")
	max := fs.Int64("maxbytes", 1<<20, "max bytes per direction")
	abrupt := fs.Int("abrupt", 10, "percent of relays with an abrupt close")
	base := fs.Int("base", 100000, "first connection id")
	if err := fs.Parse(args); err != nil {
		return err
	}
	if *max > patLen-1024 {
		*max = patLen - 1024
	}
	e, err := newEnv(10 * time.Minute)
	if err != nil {
		return err
	}
	defer e.close()
	sk, err := newSink(*out, *trace)
	if err != nil {
		return err
	}
	defer sk.close()
	wait := waitTime()
	id := *base
	for round := 0; round < *rounds; round++ {
		var wg, gate sync.WaitGroup
		gate.Add(*conc)
		for k := 0; k < *conc; k++ {
			wg.Add(1)
			id++
			seed := cli.Seed()*1000003 + int64(round)*1009 + int64(k)
			go func(id int, seed int64) {
				defer wg.Done()
				res, ev := randomOne(e, id, seed, *max, *abrupt, wait, &gate)
				sk.put(res, ev)
			}(id, seed)
		}
		wg.Wait()
	}
	fmt.Printf("ran %d random relays\n", *rounds**conc)
	return nil
}
