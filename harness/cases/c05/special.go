package c05

import (
	"flag"
	"fmt"
	"math/rand"
	"time"

	"github.com/samaritan-proxy/samaritan/host"

	"verifharness/internal/cli"
)

// Scenarios around the idle timeout (applied per read, per direction) and the
// host-removed watcher.
//
//   idle-both      both sides go silent: both must see EOF, nothing else
//   idle-c2s-quiet the client goes silent, the backend keeps streaming for 3 timeouts:
//                  the backend sees EOF (the silent direction is shut down) and every
//                  byte of the backend still reaches the client (OtherDirectionKeepsFlowing)
//   idle-s2c-quiet the mirror image
//   remove         the host is removed while both directions carry data: both sides see
//                  EOF or a reset, what they received is a prefix

func idleBoth(e *env, id int, rng *rand.Rand, wait time.Duration) (result, []event) {
	c, s, err := e.connect()
	if err != nil {
		return result{ID: id, Kind: "idle-both", Err: err.Error()}, nil
	}
	r := newRelay(id, c, s)
	r.start()
	r.send(client, int64(1+rng.Intn(3*bufSize)), nil, nil)
	r.send(backend, int64(1+rng.Intn(3*bufSize)), nil, nil)
	for x := 0; x < 2; x++ { // what was sent before the silence must arrive
		r.mu.Lock()
		n := r.s[1-x].sent
		r.mu.Unlock()
		r.waitRecv(x, n, wait, true)
	}
	r.declareIdle(client)
	r.declareIdle(backend)
	r.settle(wait)
	return r.result("idle-both"), r.ev
}

func idleOneWay(e *env, id int, quietSide int, rng *rand.Rand, wait time.Duration) (result, []event) {
	kind := "idle-c2s-quiet"
	if quietSide == backend {
		kind = "idle-s2c-quiet"
	}
	c, s, err := e.connect()
	if err != nil {
		return result{ID: id, Kind: kind, Err: err.Error()}, nil
	}
	r := newRelay(id, c, s)
	r.start()
	active := 1 - quietSide
	r.send(quietSide, int64(rng.Intn(2*bufSize)), nil, nil)
	r.mu.Lock()
	n0 := r.s[quietSide].sent
	r.mu.Unlock()
	r.waitRecv(active, n0, wait, true)
	r.declareIdle(quietSide)
	gap := e.idle / 8
	worst := time.Duration(0)
	last := time.Now()
	start := last
	for time.Since(start) < 3*e.idle {
		r.send(active, int64(1+rng.Intn(bufSize+10)), nil, nil)
		now := time.Now()
		if now.Sub(last) > worst {
			worst = now.Sub(last)
		}
		last = now
		time.Sleep(gap)
	}
	// by now the quiet direction must have been shut down
	r.waitEnd(active, wait, true)
	r.fin(active)
	r.settle(wait)
	res := r.result(kind)
	if worst > e.idle*3/4 {
		res.Skipped = fmt.Sprintf("pace miss: %v between two writes of the active side (idle timeout %v)", worst, e.idle)
	}
	return res, r.ev
}

func removeHost(e *env, id int, rng *rand.Rand, wait time.Duration) (result, []event) {
	c, s, err := e.connect()
	if err != nil {
		return result{ID: id, Kind: "remove", Err: err.Error()}, nil
	}
	r := newRelay(id, c, s)
	r.start()
	r.send(client, int64(rng.Intn(3*bufSize)), nil, nil)
	r.send(backend, int64(rng.Intn(3*bufSize)), nil, nil)
	if rng.Intn(2) == 0 {
		r.waitRecv(backend, 1, 200*time.Millisecond, false)
	}
	r.declareRemoved()
	old := e.h
	e.p.OnSvcHostRemove([]*host.Host{old})
	// both ends must notice
	r.settle(wait)
	e.h = host.New(e.baddr)
	e.p.OnSvcHostAdd([]*host.Host{e.h})
	return r.result("remove"), r.ev
}

func specialCmd(args []string) error {
	fs := flag.NewFlagSet("c05-special", flag.ContinueOnError)
	out := fs.String("out", "", "results (ndjson)")
	trace := fs.String("trace", "", "trace (ndjson)")
	n := fs.Int("n", 1, "repetitions of every scenario")
	idleMs := fs.Int("idle-ms", 400, "idle timeout of the processor")
	base := fs.Int("base", 200000, "first connection id")
	if err := fs.Parse(args); err != nil {
		return err
	}
	e, err := newEnv(time.Duration(*idleMs) * time.Millisecond)
	if err != nil {
		return err
	}
	defer e.close()
	sk, err := newSink(*out, *trace)
	if err != nil {
		return err
	}
	defer sk.close()
	wait := waitTime()
	rng := rand.New(rand.NewSource(cli.Seed()))
	const nJobs = 3
	id := *base
	for i := 0; i < *n; i++ {
		// the idle scenarios are independent connections: run them side by side
		type pair struct {
			res result
			ev  []event
		}
		ch := make(chan pair, nJobs)
		seeds := make([]int64, nJobs)
		for j := 0; j < nJobs; j++ {
			seeds[j] = rng.Int63()
		}
		for j := 0; j < nJobs; j++ {
			id++
			go func(j, id int) {
				lr := rand.New(rand.NewSource(seeds[j]))
				var p pair
				switch j {
				case 0:
					p.res, p.ev = idleBoth(e, id, lr, wait)
				case 1:
					p.res, p.ev = idleOneWay(e, id, client, lr, wait)
				case 2:
					p.res, p.ev = idleOneWay(e, id, backend, lr, wait)
				}
				ch <- p
			}(j, id)
		}
		for j := 0; j < nJobs; j++ {
			p := <-ch
			sk.put(p.res, p.ev)
		}
		id++
		res, ev := removeHost(e, id, rng, wait)
		sk.put(res, ev)
	}
	fmt.Printf("ran %d special scenarios\n", *n*4)
	return nil
}
