// Package c05 drives the real TCP processor (proc.New, protocol TCP) with a
// scripted client and a scripted backend and reports what both sides observed
// (property C05: bytes are relayed unmodified, in order, both ways, with
// half-close).
//
// The payload byte at stream offset i of direction d of connection c is
// pat[d][i] ^ salt(c): any drop, duplication, reordering, cross-direction or
// cross-connection leak shows up at the first wrong offset.
package c05

import (
	"errors"
	"fmt"
	"io"
	"net"
	"os"
	"strings"
	"sync"
	"sync/atomic"
	"syscall"
	"time"

	"github.com/samaritan-proxy/samaritan/host"
	"github.com/samaritan-proxy/samaritan/pb/common"
	"github.com/samaritan-proxy/samaritan/pb/config/protocol"
	"github.com/samaritan-proxy/samaritan/pb/config/service"
	"github.com/samaritan-proxy/samaritan/proc"
	_ "github.com/samaritan-proxy/samaritan/proc/tcp"

	"verifharness/internal/sut"
)

const (
	client  = 0
	backend = 1

	patLen = 5 << 20 // longest stream per direction
)

var sideName = [2]string{"client", "backend"}

func sideIdx(s string) int {
	if s == "backend" {
		return backend
	}
	return client
}

// pat[d] is the payload of direction d (d = sending side).
var (
	pat     [2][]byte
	patOnce sync.Once
)

func initPat() {
	patOnce.Do(func() {
		for d := 0; d < 2; d++ {
			p := make([]byte, patLen)
			for i := range p {
				x := uint32(i)*2654435761 + uint32(d+1)*0x9e3779b9
				x ^= x >> 15
				x *= 0x2c1b3c6d
				x ^= x >> 12
				x *= 0x297a2d39
				x ^= x >> 15
				p[i] = byte(x)
			}
			pat[d] = p
		}
	})
}

// ---- environment: one TCP processor in front of one backend listener

type env struct {
	p     proc.Proc
	name  string
	addr  string // proxy address
	ln    net.Listener
	baddr string
	h     *host.Host
	acc   chan *net.TCPConn
	estMu sync.Mutex // connection establishment is serialised so that accepts pair with dials
	idle  time.Duration
	seq   int64
}

func tcpConfig(port int, idle time.Duration) *service.Config {
	cto := 3 * time.Second
	return &service.Config{
		Listener: &service.Listener{
			Address: &common.Address{Ip: "127.0.0.1", Port: uint32(port)},
		},
		ConnectTimeout: &cto,
		IdleTimeout:    &idle,
		LbPolicy:       service.LoadBalancePolicy_ROUND_ROBIN,
		Protocol:       protocol.TCP,
		ProtocolOptions: &service.Config_TcpOption{
			TcpOption: &protocol.TCPOption{},
		},
	}
}

func newEnv(idle time.Duration) (*env, error) {
	initPat()
	ln, err := net.Listen("tcp", "127.0.0.1:0")
	if err != nil {
		return nil, err
	}
	e := &env{ln: ln, baddr: ln.Addr().String(), acc: make(chan *net.TCPConn, 1024), idle: idle}
	go func() {
		for {
			c, err := ln.Accept()
			if err != nil {
				return
			}
			e.acc <- c.(*net.TCPConn)
		}
	}()
	e.name = sut.UniqueName("tcp")
	port := sut.FreePort()
	e.h = host.New(e.baddr)
	p, err := proc.New(e.name, tcpConfig(port, idle), []*host.Host{e.h})
	if err != nil {
		ln.Close()
		return nil, err
	}
	if err := p.Start(); err != nil {
		ln.Close()
		return nil, err
	}
	e.p = p
	e.addr = fmt.Sprintf("127.0.0.1:%d", port)
	if !sut.WaitListening(e.addr, 5*time.Second) {
		return nil, fmt.Errorf("tcp processor did not start listening on %s", e.addr)
	}
	// the probe connection of WaitListening was relayed to the backend: drop it
	select {
	case c := <-e.acc:
		c.Close()
	case <-time.After(2 * time.Second):
	}
	return e, nil
}

func (e *env) close() {
	sut.StopWithin(e.p, 5*time.Second)
	e.ln.Close()
}

// connect establishes one relayed connection and returns both ends.
func (e *env) connect() (*net.TCPConn, *net.TCPConn, error) {
	e.estMu.Lock()
	defer e.estMu.Unlock()
	for { // nothing may be pending
		select {
		case c := <-e.acc:
			c.Close()
			continue
		default:
		}
		break
	}
	var c net.Conn
	var err error
	for try := 0; try < 3; try++ {
		c, err = net.DialTimeout("tcp", e.addr, 3*time.Second)
		if err == nil {
			break
		}
		time.Sleep(20 * time.Millisecond)
	}
	if err != nil {
		return nil, nil, err
	}
	select {
	case b := <-e.acc:
		return c.(*net.TCPConn), b, nil
	case <-time.After(5 * time.Second):
		c.Close()
		return nil, nil, errors.New("backend did not get a connection from the proxy")
	}
}

// ---- one relayed connection

type event struct {
	Ev   string `json:"ev"`
	C    int    `json:"c"`
	X    string `json:"x"`
	N    int64  `json:"n"`
	From int64  `json:"from"`
	To   int64  `json:"to"`
}

type mismatch struct {
	X    string `json:"x"`    // receiving side
	Off  int64  `json:"off"`  // first wrong stream offset
	Got  int    `json:"got"`  // byte received
	Want int    `json:"want"` // byte the peer's stream has at that offset
	// where the received data would have been correct (diagnosis)
	LooksLike string `json:"looksLike,omitempty"`
}

type stall struct {
	X    string `json:"x"`
	Want string `json:"want"`
	Got  int64  `json:"got"`
	Sent int64  `json:"sent"`
	// the direction towards the peer had already finished when the wait began
	AfterOtherDone bool `json:"afterOtherDone"`
}

type sideState struct {
	conn    *net.TCPConn
	st      string // open | fin | closed
	sent    int64
	got     int64
	eof     bool
	rst     bool
	abrupt  bool
	idle    bool
	pendFr  int64 // received and verified but not yet logged: [pendFr, got)
	readErr string
	wrErr   string
	readerDone chan struct{}
}

type relay struct {
	id   int
	salt byte
	mu   sync.Mutex
	cond *sync.Cond
	s    [2]*sideState
	removed bool
	ended   bool // "end" logged: the harness is tearing the sockets down, nothing is recorded any more
	ev   []event
	bad  *mismatch
	early []string // sides that saw EOF before everything was there (no excuse)
	rstNoCause []string
	stalls []stall
	notes []string
	// reader pacing (random runs)
	readMax  [2]int
	readNap  [2]func() time.Duration
}

func newRelay(id int, c, b *net.TCPConn) *relay {
	r := &relay{id: id, salt: byte(id*37 + 11)}
	r.cond = sync.NewCond(&r.mu)
	r.s[client] = &sideState{conn: c, st: "open", readerDone: make(chan struct{})}
	r.s[backend] = &sideState{conn: b, st: "open", readerDone: make(chan struct{})}
	r.readMax = [2]int{64 << 10, 64 << 10}
	return r
}

// log appends an event; pending verified ranges of both sides are logged first
// (they were received before). Caller holds r.mu.
func (r *relay) log(ev event) {
	if r.ended {
		return
	}
	for x := 0; x < 2; x++ {
		r.flushRecv(x)
	}
	ev.C = r.id
	r.ev = append(r.ev, ev)
}

func (r *relay) flushRecv(x int) {
	s := r.s[x]
	if r.ended {
		return
	}
	if s.got > s.pendFr {
		r.ev = append(r.ev, event{Ev: "recv", C: r.id, X: sideName[x], From: s.pendFr, To: s.got})
		s.pendFr = s.got
	}
}

func (r *relay) earlyAllowed(x int) bool {
	p := r.s[1-x]
	return p.idle || r.removed || p.abrupt
}

func (r *relay) rstCause(x int) bool {
	return r.removed || r.s[1-x].abrupt || r.s[x].idle || r.s[1-x].idle
}

func isReset(err error) bool {
	return errors.Is(err, syscall.ECONNRESET) || errors.Is(err, syscall.EPIPE) || errors.Is(err, syscall.ENOTCONN)
}

func isClosedErr(err error) bool {
	return errors.Is(err, net.ErrClosed) || strings.Contains(err.Error(), "use of closed")
}

func (r *relay) sawReset(x int) { // caller holds r.mu
	s := r.s[x]
	if s.rst || s.st == "closed" || r.ended {
		return
	}
	if !r.rstCause(x) {
		r.rstNoCause = append(r.rstNoCause, sideName[x])
	}
	s.rst = true
	r.log(event{Ev: "rst", X: sideName[x]})
	r.cond.Broadcast()
}

// diagnose tells where the received bytes would have been right.
func (r *relay) diagnose(x int, off int64, data []byte) string {
	if len(data) > 16 {
		data = data[:16]
	}
	match := func(d int, salt byte, o int64) bool {
		for k, b := range data {
			if o+int64(k) >= patLen || pat[d][o+int64(k)]^salt != b {
				return false
			}
		}
		return true
	}
	if len(data) < 4 {
		return ""
	}
	in, out := 1-x, x
	// same connection, other direction
	for o := int64(0); o < 1<<20; o++ {
		if match(out, r.salt, o) {
			return fmt.Sprintf("own direction (%s's stream) offset %d", sideName[x], o)
		}
	}
	for o := int64(0); o < 1<<20; o++ {
		if o != off && match(in, r.salt, o) {
			return fmt.Sprintf("same stream at offset %d (shift %d)", o, o-off)
		}
	}
	for s := 0; s < 256; s++ {
		if byte(s) == r.salt {
			continue
		}
		for d := 0; d < 2; d++ {
			lo := off - (64 << 10)
			if lo < 0 {
				lo = 0
			}
			for o := lo; o < off+(64<<10); o++ {
				if match(d, byte(s), o) {
					return fmt.Sprintf("another connection (salt %d) stream of %s offset %d", s, sideName[d], o)
				}
			}
		}
	}
	return ""
}

// reader reads and verifies everything side x receives.
func (r *relay) reader(x int) {
	s := r.s[x]
	defer close(s.readerDone)
	in := 1 - x // the stream x receives is the one its peer sends
	buf := make([]byte, 64<<10)
	verify := true
	for {
		max := r.readMax[x]
		if max <= 0 || max > len(buf) {
			max = len(buf)
		}
		if nap := r.readNap[x]; nap != nil {
			if d := nap(); d > 0 {
				time.Sleep(d)
			}
		}
		s.conn.SetReadDeadline(time.Now().Add(60 * time.Second))
		n, err := s.conn.Read(buf[:max])
		r.mu.Lock()
		if n > 0 {
			if s.eof {
				// bytes after EOF: logged as a range, RelayObs rejects it
				r.log(event{Ev: "recv", X: sideName[x], From: s.got, To: s.got + int64(n)})
				r.notes = append(r.notes, fmt.Sprintf("%s: %d bytes after EOF", sideName[x], n))
			}
			if verify {
				off := s.got
				bad := -1
				if off+int64(n) > patLen {
					bad = 0
				} else {
					p := pat[in][off : off+int64(n)]
					for k := 0; k < n; k++ {
						if buf[k] != p[k]^r.salt {
							bad = k
							break
						}
					}
				}
				if bad >= 0 {
					s.got += int64(bad)
					r.flushRecv(x)
					want := -1
					if s.got < patLen {
						want = int(pat[in][s.got] ^ r.salt)
					}
					m := &mismatch{X: sideName[x], Off: s.got, Got: int(buf[bad]), Want: want}
					if s.got >= r.s[in].sent {
						m.LooksLike = "beyond what the peer has sent"
					}
					data := append([]byte{}, buf[bad:n]...)
					r.mu.Unlock()
					if m.LooksLike == "" {
						m.LooksLike = r.diagnose(x, m.Off, data)
					}
					r.mu.Lock()
					if r.bad == nil {
						r.bad = m
					}
					r.log(event{Ev: "bad", X: sideName[x], From: m.Off, To: m.Off + 1})
					verify = false
				} else {
					s.got += int64(n)
					if s.got > r.s[in].sent && r.bad == nil {
						// more than the peer has started to send (cannot verify as correct)
						r.flushRecv(x)
					}
				}
			}
			r.cond.Broadcast()
		}
		if err != nil {
			switch {
			case err == io.EOF:
				if !s.eof && !s.rst && s.st != "closed" && !r.ended {
					if r.bad == nil && !r.earlyAllowed(x) && (r.s[in].st == "open" || s.got != r.s[in].sent) {
						r.early = append(r.early, sideName[x])
					}
					s.eof = true
					r.log(event{Ev: "eof", X: sideName[x]})
					r.cond.Broadcast()
					r.mu.Unlock()
					// NoBytesAfterEOF: one more read must not deliver anything
					s.conn.SetReadDeadline(time.Now().Add(20 * time.Millisecond))
					if n2, _ := s.conn.Read(buf[:max]); n2 > 0 {
						r.mu.Lock()
						r.log(event{Ev: "recv", X: sideName[x], From: s.got, To: s.got + int64(n2)})
						r.notes = append(r.notes, fmt.Sprintf("%s: %d bytes after EOF", sideName[x], n2))
						r.mu.Unlock()
					}
					return
				}
			case isReset(err):
				r.sawReset(x)
			case isClosedErr(err):
				// own close
			default:
				s.readErr = err.Error()
			}
			r.flushRecv(x)
			r.cond.Broadcast()
			r.mu.Unlock()
			return
		}
		r.mu.Unlock()
	}
}

func (r *relay) start() {
	go r.reader(client)
	go r.reader(backend)
}

// send writes n bytes of x's stream; frag > 0 splits the write in pieces of at most frag
// bytes with nap() between them.
func (r *relay) send(x int, n int64, frag func() int, nap func() time.Duration) {
	s := r.s[x]
	r.mu.Lock()
	if s.st != "open" || s.rst {
		r.mu.Unlock()
		return
	}
	off := s.sent
	if off+n > patLen {
		n = patLen - off
	}
	s.sent += n
	r.log(event{Ev: "send", X: sideName[x], N: n})
	r.mu.Unlock()
	data := make([]byte, n)
	p := pat[x][off : off+n]
	for k := range data {
		data[k] = p[k] ^ r.salt
	}
	for first := true; first || len(data) > 0; first = false {
		w := len(data)
		if frag != nil {
			if f := frag(); f > 0 && f < w {
				w = f
			}
		}
		s.conn.SetWriteDeadline(time.Now().Add(20 * time.Second))
		_, err := s.conn.Write(data[:w])
		if err != nil {
			r.mu.Lock()
			if isReset(err) {
				r.sawReset(x)
			} else if !isClosedErr(err) {
				s.wrErr = err.Error()
			}
			r.mu.Unlock()
			return
		}
		data = data[w:]
		if nap != nil && len(data) > 0 {
			if d := nap(); d > 0 {
				time.Sleep(d)
			}
		}
	}
}

func (r *relay) fin(x int) {
	s := r.s[x]
	r.mu.Lock()
	if s.st != "open" || s.rst {
		r.mu.Unlock()
		return
	}
	s.st = "fin"
	r.log(event{Ev: "fin", X: sideName[x]})
	r.mu.Unlock()
	if err := s.conn.CloseWrite(); err != nil {
		r.mu.Lock()
		if isReset(err) {
			r.sawReset(x)
		} else {
			s.wrErr = err.Error()
		}
		r.mu.Unlock()
	}
}

func (r *relay) closeSide(x int) {
	s := r.s[x]
	r.mu.Lock()
	if s.st == "closed" {
		r.mu.Unlock()
		return
	}
	s.abrupt = !s.eof && !s.rst
	s.st = "closed"
	r.log(event{Ev: "close", X: sideName[x]})
	r.cond.Broadcast()
	r.mu.Unlock()
	s.conn.Close()
}

func (r *relay) declareIdle(x int) {
	r.mu.Lock()
	if r.s[x].st == "open" {
		r.s[x].idle = true
		r.log(event{Ev: "idle", X: sideName[x]})
	}
	r.mu.Unlock()
}

func (r *relay) declareRemoved() {
	r.mu.Lock()
	r.removed = true
	r.log(event{Ev: "remove"})
	r.mu.Unlock()
}

// waitFor waits until pred holds (under r.mu) or d elapsed.
func (r *relay) waitFor(d time.Duration, pred func() bool) bool {
	deadline := time.Now().Add(d)
	var fired int32
	t := time.AfterFunc(d, func() {
		atomic.StoreInt32(&fired, 1)
		r.mu.Lock()
		r.cond.Broadcast()
		r.mu.Unlock()
	})
	defer t.Stop()
	r.mu.Lock()
	defer r.mu.Unlock()
	for !pred() {
		if atomic.LoadInt32(&fired) == 1 || time.Now().After(deadline) {
			return pred()
		}
		r.cond.Wait()
	}
	return true
}

// dead: nothing more will be observed by x
func (r *relay) deadSide(x int) bool {
	s := r.s[x]
	return s.eof || s.rst || s.st == "closed" || s.readErr != "" || r.bad != nil
}

func (r *relay) quiet(x int) bool { // direction x -> peer undisturbed
	a, b := r.s[x], r.s[1-x]
	return !a.idle && !r.removed && !a.abrupt && !b.abrupt && !a.rst && !b.rst
}

// waitRecv waits until x has received at least n bytes.
func (r *relay) waitRecv(x int, n int64, d time.Duration, strict bool) {
	otherDone := false
	r.mu.Lock()
	otherDone = r.s[x].st != "open" && r.s[1-x].eof
	r.mu.Unlock()
	ok := r.waitFor(d, func() bool { return r.s[x].got >= n || r.deadSide(x) })
	r.mu.Lock()
	defer r.mu.Unlock()
	if strict && r.quiet(1-x) && r.bad == nil && (!ok || r.s[x].got < n) && r.s[x].st != "closed" {
		r.stalls = append(r.stalls, stall{X: sideName[x], Want: fmt.Sprintf("recv>=%d", n), Got: r.s[x].got,
			Sent: r.s[1-x].sent, AfterOtherDone: otherDone})
	}
}

// waitEnd waits until x has seen EOF (or a reset).
func (r *relay) waitEnd(x int, d time.Duration, strict bool) bool {
	r.mu.Lock()
	otherDone := r.s[x].st != "open" && r.s[1-x].eof
	r.mu.Unlock()
	ok := r.waitFor(d, func() bool { return r.deadSide(x) })
	r.mu.Lock()
	defer r.mu.Unlock()
	if strict && !ok {
		r.stalls = append(r.stalls, stall{X: sideName[x], Want: "eof", Got: r.s[x].got, Sent: r.s[1-x].sent, AfterOtherDone: otherDone})
	}
	return ok
}

// settle waits for what RelayObs!EndOK demands, logs "end" and closes both sockets.
func (r *relay) settle(d time.Duration) {
	for x := 0; x < 2; x++ {
		y := 1 - x
		r.mu.Lock()
		yClosed := r.s[y].st == "closed"
		q := r.quiet(x)
		sent := r.s[x].sent
		finished := r.s[x].st != "open"
		disturbedEnd := r.s[x].abrupt || r.removed || r.s[x].idle
		r.mu.Unlock()
		if yClosed {
			continue
		}
		if q {
			r.waitRecv(y, sent, d, true)
			if finished {
				r.waitEnd(y, d, true)
			}
		} else if disturbedEnd {
			r.waitEnd(y, d, true)
		}
	}
	r.mu.Lock()
	r.log(event{Ev: "end"})
	r.ended = true
	r.mu.Unlock()
	for x := 0; x < 2; x++ {
		r.s[x].conn.Close()
	}
	for x := 0; x < 2; x++ {
		select {
		case <-r.s[x].readerDone:
		case <-time.After(2 * time.Second):
		}
	}
}

// ---- result record

type sideRes struct {
	Sent   int64  `json:"sent"`
	Got    int64  `json:"got"`
	St     string `json:"st"`
	EOF    bool   `json:"eof"`
	Rst    bool   `json:"rst"`
	Abrupt bool   `json:"abrupt"`
	Idle   bool   `json:"idle"`
	RdErr  string `json:"rdErr,omitempty"`
	WrErr  string `json:"wrErr,omitempty"`
}

type result struct {
	ID       int       `json:"id"`
	Kind     string    `json:"kind"`
	Seed     int64     `json:"seed,omitempty"`
	Script   string    `json:"script,omitempty"`
	Client   sideRes   `json:"client"`
	Backend  sideRes   `json:"backend"`
	Removed  bool      `json:"removed,omitempty"`
	Bad      *mismatch `json:"bad,omitempty"`
	EarlyEOF []string  `json:"earlyEOF,omitempty"`
	RstNoCause []string `json:"rstNoCause,omitempty"`
	Stalls   []stall   `json:"stalls,omitempty"`
	Notes    []string  `json:"notes,omitempty"`
	Skipped  string    `json:"skipped,omitempty"` // the scenario could not be driven as scripted (pace miss)
	Err      string    `json:"err,omitempty"`
	Ms       int64     `json:"ms"`
}

func (r *relay) result(kind string) result {
	r.mu.Lock()
	defer r.mu.Unlock()
	sr := func(s *sideState) sideRes {
		return sideRes{Sent: s.sent, Got: s.got, St: s.st, EOF: s.eof, Rst: s.rst, Abrupt: s.abrupt, Idle: s.idle,
			RdErr: s.readErr, WrErr: s.wrErr}
	}
	return result{ID: r.id, Kind: kind, Client: sr(r.s[client]), Backend: sr(r.s[backend]), Removed: r.removed,
		Bad: r.bad, EarlyEOF: r.early, RstNoCause: r.rstNoCause, Stalls: r.stalls, Notes: r.notes}
}

func waitTime() time.Duration {
	if v := os.Getenv("VERIF_C05_WAIT_MS"); v != "" {
		var ms int
		fmt.Sscanf(v, "%d", &ms)
		if ms > 0 {
			return time.Duration(ms) * time.Millisecond
		}
	}
	return 8 * time.Second
}
