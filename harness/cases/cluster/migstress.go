package cluster

import (
	"flag"
	"fmt"
	"sync"
	"time"

	"verifharness/internal/cli"
	"verifharness/internal/simredis"
	"verifharness/internal/sut"
)

func init() { cli.Register("cluster-migstress", migStress) }

type migStressResult struct {
	Run      int      `json:"run"`
	Requests int      `json:"requests"`
	Bad      []string `json:"bad"`
	Copies   []string `json:"copies"`
	Err      string   `json:"err,omitempty"`
}

// migStress: concurrent readers and writers on several connections while a slot is half migrated (some keys
// still on the source, some already on the target), then while it is finalised.
func migStressOnce(run int, dur time.Duration) (res migStressResult) {
	res = migStressResult{Run: run}
	cl, err := simredis.NewCluster(3, 0)
	if err != nil {
		res.Err = err.Error()
		return
	}
	defer cl.Close()
	slot := slotOfModel("A")
	cl.SetOwner(slot, 0)
	px, err := sut.StartRedis(sut.RedisOpts{}, cl.Addrs())
	if err != nil {
		res.Err = "start: " + err.Error()
		return
	}
	defer sut.StopWithin(px.P, 5*time.Second)
	if !sut.WaitRefresh(px.Name, 3*time.Second) {
		res.Err = "slot table not loaded"
		return
	}
	const nkeys = 8
	keys := make([]string, nkeys)
	for i := range keys {
		keys[i] = fmt.Sprintf("%skey%d", slotTag["A"], i)
		cl.Preload(keys[i], []byte(fmt.Sprintf("val%d", i)))
	}
	cl.SetMigrating(slot, 0, 1)
	for i := 0; i < nkeys/2; i++ {
		cl.MigrateKey(keys[i]) // keys 0..3 are on the target, 4..7 still on the source
	}
	var mu sync.Mutex
	addBad := func(s string) {
		mu.Lock()
		if len(res.Bad) < 20 {
			res.Bad = append(res.Bad, s)
		}
		mu.Unlock()
	}
	stop := make(chan struct{})
	var wg sync.WaitGroup
	var reqs int64
	worker := func(id int) {
		defer wg.Done()
		c, err := sut.Dial(px.Addr)
		if err != nil {
			addBad("dial: " + err.Error())
			return
		}
		defer c.Close()
		n := 0
		own := fmt.Sprintf("%sown%d", slotTag["A"], id) // a key only this worker writes
		for {
			select {
			case <-stop:
				mu.Lock()
				reqs += int64(n)
				mu.Unlock()
				return
			default:
			}
			k := (id + n) % nkeys
			v, err := c.Do(5*time.Second, "GET", keys[k])
			n++
			if err != nil {
				addBad(fmt.Sprintf("GET %s: no reply: %v", keys[k], err))
				return
			}
			if v.IsErr() || string(v.Str) != fmt.Sprintf("val%d", k) {
				addBad(fmt.Sprintf("GET %s = %s (want val%d)", keys[k], v, k))
			}
			if n%3 == 0 {
				val := fmt.Sprintf("w%d-%d", id, n)
				if v, err := c.Do(5*time.Second, "SET", own, val); err != nil || v.IsErr() {
					addBad(fmt.Sprintf("SET %s: %v %v", own, v, err))
					continue
				}
				n++
				if v, err := c.Do(5*time.Second, "GET", own); err != nil || string(v.Str) != val {
					addBad(fmt.Sprintf("GET %s = %v %v (want %s)", own, v, err, val))
				}
				n++
			}
		}
	}
	for i := 0; i < 8; i++ {
		wg.Add(1)
		go worker(i)
	}
	time.Sleep(dur / 2)
	for i := nkeys / 2; i < nkeys; i++ {
		cl.MigrateKey(keys[i])
		time.Sleep(dur / 20)
	}
	for i := 0; i < 8; i++ {
		cl.MigrateKey(fmt.Sprintf("%sown%d", slotTag["A"], i))
	}
	cl.Finalise(slot)
	time.Sleep(dur / 4)
	close(stop)
	wg.Wait()
	res.Requests = int(reqs)
	all := append([]string{}, keys...)
	for i := 0; i < 8; i++ {
		all = append(all, fmt.Sprintf("%sown%d", slotTag["A"], i))
	}
	for _, k := range all {
		n := 0
		for _, node := range cl.Masters() {
			if _, ok := node.Get(k); ok {
				n++
			}
		}
		if n > 1 {
			res.Copies = append(res.Copies, fmt.Sprintf("%s: %d copies", k, n))
		}
	}
	return
}

func migStress(args []string) error {
	fs := flag.NewFlagSet("cluster-migstress", flag.ContinueOnError)
	out := fs.String("out", "", "results (ndjson)")
	runs := fs.Int("runs", 3, "runs")
	ms := fs.Int("ms", 300, "duration of a run in ms")
	if err := fs.Parse(args); err != nil {
		return err
	}
	sut.FastRefresh()
	w, err := cli.NewNDJSONWriter(*out)
	if err != nil {
		return err
	}
	defer w.Close()
	for i := 1; i <= *runs; i++ {
		if err := w.Write(migStressOnce(i, time.Duration(*ms)*time.Millisecond)); err != nil {
			return err
		}
	}
	return nil
}
