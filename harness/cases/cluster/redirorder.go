package cluster

// cluster-redirorder: the window W_RedirectToFreshNode of spec/redis/Cluster.tla (LazyConnect) on the real code.
// The counterexample of MC_Cluster_freshtarget_async.cfg: two commands for one key are answered MOVED / ASK naming a
// node the proxy has no connection to yet; if the resends do not leave the proxy in the order the source answered
// them, the later command is executed first (RedirectKeepsOrder). Preconditions set up here, every run:
//   ask            - a slot is being migrated to a node that never carried traffic (it is not a seed host);
//   moved          - the slot has been handed over to such a node, the routing table is still the old one;
//   failover-moved - a replica that was never contacted has been promoted, the old master is demoted and answers MOVED
//                    (write-only pipelines: what the demoted master does with reads is the next stratum);
//   demoted-read   - as failover-moved, each pipeline is SET k v, GET k: the write is redirected to the new master;
//                    the read must not be answered from anywhere before the write has been executed.
// The refresher is held back (one refresh at start), so every command takes the way over the old owner. Several
// connections each write ONE pipeline for a key of their own; every reply reveals the order of execution
// (APPEND answers the length, RPUSH the list length, GET/LRANGE the data). Judged by the property's own predicate:
// replies equal those of a single server executing the pipeline in the order written, the data afterwards is the
// single server's, nothing is executed twice, no MOVED / ASK reaches the client.

import (
	"bytes"
	"flag"
	"fmt"
	"strings"
	"sync"
	"sync/atomic"
	"time"

	predis "github.com/samaritan-proxy/samaritan/proc/redis"

	"verifharness/internal/cli"
	"verifharness/internal/resp"
	"verifharness/internal/simredis"
	"verifharness/internal/sut"
)

func init() { cli.Register("cluster-redirorder", redirOrder) }

type redirOrderResult struct {
	Run          int      `json:"run"`
	Kind         string   `json:"kind"`         // ask | moved | failover-moved
	Conns        int      `json:"conns"`        // pipelining connections
	Cmds         int      `json:"cmds"`         // commands per pipeline
	FreshBefore  bool     `json:"freshBefore"`  // the target had never accepted a connection when the pipelines were written
	Redirected   int64    `json:"redirected"`   // MOVED/ASK answered while the pipelines ran
	TargetServed int      `json:"targetServed"` // data commands the target executed
	Bad          []string `json:"bad"`          // replies that differ from the single server's
	Leaked       []string `json:"leaked"`       // MOVED / ASK seen by a client
	Final        []string `json:"final"`        // keys whose data differs from the single server's afterwards
	Twice        []string `json:"twice"`        // commands executed more than once
	Arrival      string   `json:"arrival"`      // diagnostics: order in which the target executed the first bad pipeline
	Err          string   `json:"err,omitempty"`
}

func redirOrderOnce(run int, kind string, conns, cmds int) (res redirOrderResult) {
	res = redirOrderResult{Run: run, Kind: kind, Conns: conns, Cmds: cmds}
	replicas := 0
	failover := kind == "failover-moved" || kind == "demoted-read"
	if failover {
		replicas = 1
	}
	cl, err := simredis.NewCluster(3, replicas)
	if err != nil {
		res.Err = err.Error()
		return
	}
	defer cl.Close()
	const src = 0
	target := 1
	seeds := []string{cl.Nodes[0].Addr, cl.Nodes[2].Addr} // the target is not a seed host
	if failover {
		target = 3 // the replica of master 0
	}
	px, err := sut.StartRedis(sut.RedisOpts{}, seeds)
	if err != nil {
		res.Err = "start: " + err.Error()
		return
	}
	defer sut.StopWithin(px.P, 5*time.Second)
	if !sut.WaitRefresh(px.Name, 3*time.Second) {
		res.Err = "slot table not loaded"
		return
	}
	// keys of node 0, all in one slot (the one that moves)
	tag := "{" + cl.KeyFor(src, "ro") + "}"
	slot := simredis.Slot([]byte(tag + "x"))
	keys := make([]string, conns)
	for i := range keys {
		keys[i] = fmt.Sprintf("%sk%d", tag, i)
	}
	// warm-up over the source so that its connection exists and the table is known to be in use
	wc, err := sut.Dial(px.Addr)
	if err != nil {
		res.Err = err.Error()
		return
	}
	defer wc.Close()
	if v, err := wc.Do(3*time.Second, "SET", tag+"warm", "1"); err != nil || v.IsErr() {
		res.Err = fmt.Sprintf("warm-up: %v %v", v, err)
		return
	}
	switch kind {
	case "ask":
		cl.SetMigrating(slot, src, target)
		cl.MigrateKey(tag + "warm")
	case "moved":
		cl.MoveSlot(slot, target)
	case "failover-moved", "demoted-read":
		cl.Failover(src, target, false)
	}
	res.FreshBefore = cl.Nodes[target].AcceptCount() == 0
	redirBefore := atomic.LoadInt64(&cl.Redirects)
	cl.Nodes[target].ClearLog()
	var mu sync.Mutex
	var wg sync.WaitGroup
	refs := make([]*simredis.Store, conns)
	start := make(chan struct{})
	for ci := 0; ci < conns; ci++ {
		refs[ci] = simredis.NewStore()
		wg.Add(1)
		go func(ci int) {
			defer wg.Done()
			c, err := sut.Dial(px.Addr)
			if err != nil {
				mu.Lock()
				res.Bad = append(res.Bad, "dial: "+err.Error())
				mu.Unlock()
				return
			}
			defer c.Close()
			k := keys[ci]
			var pipe [][]string
			reads := kind != "failover-moved" // reads inside the pipeline
			switch {
			case kind == "demoted-read":
				pipe = [][]string{{"SET", k, fmt.Sprintf("v%d", ci)}, {"GET", k}}
			case ci%3 == 0:
				for i := 0; i < cmds-1; i++ {
					pipe = append(pipe, []string{"SET", k, fmt.Sprintf("v%d\r\n", i)})
					if i%8 == 7 && reads {
						pipe = append(pipe, []string{"GET", k})
					}
				}
				if reads {
					pipe = append(pipe, []string{"GET", k})
				}
			case ci%3 == 1:
				for i := 0; i < cmds-1; i++ {
					pipe = append(pipe, []string{"APPEND", k, fmt.Sprintf("%d,", i)})
				}
				if reads {
					pipe = append(pipe, []string{"GET", k})
				}
			default:
				for i := 0; i < cmds-1; i++ {
					pipe = append(pipe, []string{"RPUSH", k, fmt.Sprintf("e%d", i)})
				}
				if reads {
					pipe = append(pipe, []string{"LRANGE", k, "0", "-1"})
				}
			}
			var buf []byte
			want := make([]resp.Value, len(pipe))
			for i, a := range pipe {
				buf = append(buf, resp.Bytes(resp.Cmd(a...))...)
				args := make([][]byte, len(a))
				for j := range a {
					args[j] = []byte(a[j])
				}
				want[i] = refs[ci].Exec(args)
			}
			<-start
			if err := c.Send(buf); err != nil {
				mu.Lock()
				res.Bad = append(res.Bad, "send: "+err.Error())
				mu.Unlock()
				return
			}
			nbad := 0
			for i := range pipe {
				v, err := c.Recv(20 * time.Second)
				mu.Lock()
				switch {
				case err != nil:
					res.Bad = append(res.Bad, fmt.Sprintf("conn %d command %d %s: no reply: %v", ci, i, pipe[i][0], err))
				case v.IsErr() && (bytes.HasPrefix(bytes.ToUpper(v.Str), []byte("MOVED")) || bytes.HasPrefix(bytes.ToUpper(v.Str), []byte("ASK"))):
					res.Leaked = append(res.Leaked, fmt.Sprintf("conn %d command %d %s: %s", ci, i, pipe[i][0], v))
				case !resp.Equal(v, want[i]):
					nbad++
					if nbad <= 2 {
						res.Bad = append(res.Bad, fmt.Sprintf("conn %d command %d of %d %s: got %s, a single server executing the pipeline in order replies %s",
							ci, i, len(pipe), strings.Join(pipe[i][:2], " "), clip(v.String()), clip(want[i].String())))
					}
				}
				mu.Unlock()
				if err != nil {
					return
				}
			}
		}(ci)
	}
	close(start)
	wg.Wait()
	res.Redirected = atomic.LoadInt64(&cl.Redirects) - redirBefore
	// the data afterwards, read through the proxy
	for ci, k := range keys {
		var a []string
		if ci%3 == 2 {
			a = []string{"LRANGE", k, "0", "-1"}
		} else {
			a = []string{"GET", k}
		}
		args := make([][]byte, len(a))
		for j := range a {
			args[j] = []byte(a[j])
		}
		want := refs[ci].Exec(args)
		v, err := wc.Do(5*time.Second, a...)
		if err != nil || !resp.Equal(v, want) {
			res.Final = append(res.Final, fmt.Sprintf("%s: %s (%v), the single server holds %s", k, clip(v.String()), err, clip(want.String())))
		}
	}
	// executed once; arrival order at the target for the diagnostics
	seen := map[string]int{}
	var order []string
	for _, rec := range simredis.DataCommands(cl.Nodes[target].Records()) {
		if !rec.Served {
			continue
		}
		res.TargetServed++
		if c := rec.Cmd(); c == "set" || c == "append" || c == "rpush" {
			id := fmt.Sprintf("%s %q", c, rec.Args[1:])
			seen[id]++
			if len(res.Bad) > 0 && len(rec.Args) > 2 && strings.Contains(res.Bad[0], string(rec.Args[1])) {
				order = append(order, strings.TrimSpace(string(rec.Args[2])))
			}
		}
	}
	for id, n := range seen {
		if n != 1 {
			res.Twice = append(res.Twice, fmt.Sprintf("%s executed %d times", id, n))
		}
	}
	res.Arrival = clip(strings.Join(order, " "))
	return
}

func clip(s string) string {
	if len(s) > 160 {
		return s[:160] + "..."
	}
	return s
}

func redirOrder(args []string) error {
	fs := flag.NewFlagSet("cluster-redirorder", flag.ContinueOnError)
	out := fs.String("out", "", "results (ndjson)")
	runs := fs.Int("runs", 1, "runs per kind")
	conns := fs.Int("conns", 3, "pipelining connections")
	cmds := fs.Int("cmds", 40, "commands per pipeline")
	if err := fs.Parse(args); err != nil {
		return err
	}
	// one refresh at start, then none: loopRefreshSlots waits slotsRefMinRate after every refresh
	predis.VerifSetSlotsRefreshTimers(time.Hour, time.Hour)
	w, err := cli.NewNDJSONWriter(*out)
	if err != nil {
		return err
	}
	defer w.Close()
	n := 0
	for i := 0; i < *runs; i++ {
		for _, kind := range []string{"ask", "moved", "failover-moved", "demoted-read"} {
			n++
			if err := w.Write(redirOrderOnce(n, kind, *conns, *cmds)); err != nil {
				return err
			}
		}
	}
	return nil
}
