package cluster

// cluster-refreshrace: the window W_RouteDuringRefresh of spec/redis/Cluster.tla (StepwiseRefresh) on the real code.
// The refresher rewrites the routing table entry by entry while the session goroutines read it without a lock; on a
// stable cluster every rewrite stores the owner the entry already had, so a command routed at ANY point of a refresh
// must still be delivered first to the owner of its slot (FirstHopIsOwner; the broken variant ClearBeforeFill of the
// module violates it). The refresh timers are set so that the refresher runs back to back (as it does after every
// trigger, only more often) while several connections issue keyed commands whose keys cover every node.
// Judged by the property's own predicate: every reply equals the single-server reply, no command is delivered to a
// node that does not own its key, the cluster answers no redirection at all.

import (
	"flag"
	"fmt"
	"sync"
	"sync/atomic"
	"time"

	predis "github.com/samaritan-proxy/samaritan/proc/redis"

	"verifharness/internal/cli"
	"verifharness/internal/simredis"
	"verifharness/internal/sut"
)

func init() { cli.Register("cluster-refreshrace", refreshRace) }

type refreshRaceResult struct {
	Run        int      `json:"run"`
	Requests   int64    `json:"requests"`
	Refreshes  int64    `json:"refreshes"`  // refreshes completed while the traffic ran
	Misrouted  int64    `json:"misrouted"`  // commands received by a node that does not own the key's slot
	Redirects  int64    `json:"redirects"`  // MOVED/ASK answered by the cluster
	FirstWrong string   `json:"firstWrong"` // first misrouted command
	Bad        []string `json:"bad"`        // replies that differ from the single-server reply
	Err        string   `json:"err,omitempty"`
}

func refreshRaceOnce(run int, dur time.Duration, workers int) (res refreshRaceResult) {
	res = refreshRaceResult{Run: run}
	cl, err := simredis.NewCluster(3, 0)
	if err != nil {
		res.Err = err.Error()
		return
	}
	defer cl.Close()
	// the refresher runs back to back from the start (the timers are read once per round)
	predis.VerifSetSlotsRefreshTimers(time.Microsecond, 0)
	defer predis.VerifSetSlotsRefreshTimers(200*time.Millisecond, 5*time.Millisecond)
	px, err := sut.StartRedis(sut.RedisOpts{}, cl.Addrs())
	if err != nil {
		res.Err = "start: " + err.Error()
		return
	}
	defer sut.StopWithin(px.P, 5*time.Second)
	if !sut.WaitRefresh(px.Name, 3*time.Second) {
		res.Err = "slot table not loaded"
		return
	}
	// the table is loaded: from now on every refresh rewrites entries that already hold their owner
	time.Sleep(20 * time.Millisecond)
	for _, n := range cl.Nodes {
		n.ClearLog()
	}
	refBefore := sut.ServiceStats(px.Name)["upstream.slots_refresh.success_total"]
	redirBefore := atomic.LoadInt64(&cl.Redirects)
	var mu sync.Mutex
	addBad := func(s string) {
		mu.Lock()
		if len(res.Bad) < 10 {
			res.Bad = append(res.Bad, s)
		}
		mu.Unlock()
	}
	// a command that gets no reply at all within the (generous) deadline is not a wrong reply: driver trouble
	noReply := func(s string) {
		mu.Lock()
		if res.Err == "" {
			res.Err = "no reply: " + s
		}
		mu.Unlock()
	}
	var wg sync.WaitGroup
	var reqs int64
	stop := make(chan struct{})
	for wi := 0; wi < workers; wi++ {
		wg.Add(1)
		go func(wi int) {
			defer wg.Done()
			c, err := sut.Dial(px.Addr)
			if err != nil {
				noReply("dial: " + err.Error())
				return
			}
			defer c.Close()
			// keys of this worker only, two on every node
			var keys []string
			for n := 0; n < 3; n++ {
				for j := 0; j < 2; j++ {
					keys = append(keys, cl.KeyFor(n, fmt.Sprintf("rr%d-%d-%d-", wi, n, j)))
				}
			}
			last := map[string]string{}
			for i := 0; ; i++ {
				select {
				case <-stop:
					atomic.AddInt64(&reqs, int64(i))
					return
				default:
				}
				k := keys[i%len(keys)]
				switch i % 5 {
				case 0, 3:
					val := fmt.Sprintf("w%d-%d", wi, i)
					v, err := c.Do(20*time.Second, "SET", k, val)
					if err != nil {
						noReply(fmt.Sprintf("SET %s: %v", k, err))
						return
					}
					if v.IsErr() {
						addBad(fmt.Sprintf("SET %s: %v", k, v))
						continue
					}
					last[k] = val
				case 4:
					// a split command: children for keys on different nodes
					k2 := keys[(i+3)%len(keys)]
					v, err := c.Do(20*time.Second, "MGET", k, k2)
					if err != nil {
						noReply(fmt.Sprintf("MGET %s %s: %v", k, k2, err))
						return
					}
					if v.Kind != '*' || len(v.Arr) != 2 || string(v.Arr[0].Str) != last[k] || string(v.Arr[1].Str) != last[k2] {
						addBad(fmt.Sprintf("MGET %s %s = %v (want %q %q)", k, k2, v, last[k], last[k2]))
					}
				default:
					v, err := c.Do(20*time.Second, "GET", k)
					if err != nil {
						noReply(fmt.Sprintf("GET %s: %v", k, err))
						return
					}
					if v.IsErr() || string(v.Str) != last[k] || (v.Null != (last[k] == "")) {
						addBad(fmt.Sprintf("GET %s = %v (want %q)", k, v, last[k]))
					}
				}
			}
		}(wi)
	}
	time.Sleep(dur)
	close(stop)
	wg.Wait()
	res.Requests = reqs
	res.Refreshes = sut.ServiceStats(px.Name)["upstream.slots_refresh.success_total"] - refBefore
	res.Redirects = atomic.LoadInt64(&cl.Redirects) - redirBefore
	for _, n := range cl.Nodes {
		for _, rec := range simredis.DataCommands(n.Records()) {
			if len(rec.Args) < 2 {
				continue
			}
			if o := cl.Owner(simredis.Slot(rec.Args[1])); o != n.Idx {
				res.Misrouted++
				if res.FirstWrong == "" {
					res.FirstWrong = fmt.Sprintf("%s %q received by node %d, the owner of slot %d is node %d", rec.Cmd(), rec.Args[1], n.Idx, simredis.Slot(rec.Args[1]), o)
				}
			}
		}
	}
	return
}

func refreshRace(args []string) error {
	fs := flag.NewFlagSet("cluster-refreshrace", flag.ContinueOnError)
	out := fs.String("out", "", "results (ndjson)")
	runs := fs.Int("runs", 2, "runs")
	ms := fs.Int("ms", 400, "duration of a run in ms")
	workers := fs.Int("workers", 4, "downstream connections")
	if err := fs.Parse(args); err != nil {
		return err
	}
	w, err := cli.NewNDJSONWriter(*out)
	if err != nil {
		return err
	}
	defer w.Close()
	for i := 1; i <= *runs; i++ {
		if err := w.Write(refreshRaceOnce(i, time.Duration(*ms)*time.Millisecond, *workers)); err != nil {
			return err
		}
	}
	return nil
}
