package cluster

import (
	"flag"
	"fmt"
	"strings"
	"time"

	predis "github.com/samaritan-proxy/samaritan/proc/redis"

	"verifharness/internal/cli"
	"verifharness/internal/resp"
	"verifharness/internal/sched"
	"verifharness/internal/simredis"
	"verifharness/internal/sut"
)

func askRaceOnce() (res askRaceResult) {
	cl, err := simredis.NewCluster(2, 0)
	if err != nil {
		res.Err = err.Error()
		return
	}
	defer cl.Close()
	slotA := slotOfModel("A")
	cl.SetOwner(slotA, 0)
	// the proxy never gets routing information: CLUSTER NODES fails on both nodes
	for _, n := range cl.Nodes {
		n.Script(&simredis.Scripted{
			Match: func(cmd string, args [][]byte) bool { return cmd == "cluster" },
			Raw:   resp.Bytes(resp.Err("ERR not now")),
		})
	}
	sc := sched.New(func(point string, a, b interface{}) string {
		// pinned code: between the two sends of handleRedirection; repaired code: in the backend writer between
		// ASKING and the command it belongs to (nothing else can get onto the wire in between)
		if point == "upstream.handleRedirection.asked" || point == "client.loopWrite.asked" {
			return "asked"
		}
		return ""
	})
	sc.Install()
	defer sc.Uninstall()
	px, err := sut.StartRedis(sut.RedisOpts{}, cl.Addrs())
	if err != nil {
		res.Err = "start: " + err.Error()
		return
	}
	defer sut.StopWithin(px.P, 5*time.Second)
	a1, a2 := concreteKey("a1"), concreteKey("a2")
	c, err := sut.Dial(px.Addr)
	if err != nil {
		res.Err = err.Error()
		return
	}
	defer c.Close()
	if v, err := c.Do(3*time.Second, "set", a1, "v1"); err != nil || v.IsErr() {
		res.Err = fmt.Sprintf("set a1: %v %v", v, err)
		return
	}
	cl.SetMigrating(slotA, 0, 1)
	sc.Gate("asked")
	ca, err := sut.Dial(px.Addr)
	if err != nil {
		res.Err = err.Error()
		return
	}
	defer ca.Close()
	ca.SendCmd("set", a2, "v2")
	if !sc.WaitParked("asked", 2*time.Second) {
		res.Err = "redirect never reached the point between ASKING and the command"
		return
	}
	res.Parked = true
	// other traffic for a key of the migrating slot that still lives on the source
	// (a request that the empty table sends to the source node is not answered while the source
	// connection's reader goroutine is parked in the redirect, hence one connection per attempt)
	for i := 0; i < 30 && !res.Stolen; i++ {
		res.Attempts++
		cb, err := sut.Dial(px.Addr)
		if err != nil {
			res.Err = err.Error()
			break
		}
		cb.Do(150*time.Millisecond, "set", a1, fmt.Sprintf("x%d", i))
		cb.Close()
		for _, r := range cl.Nodes[1].Records() {
			if r.Cmd() == "set" && string(r.Args[1]) == a1 && r.Served {
				res.Stolen = true
			}
		}
	}
	sc.Ungate("asked")
	if v, err := ca.Recv(5 * time.Second); err == nil {
		res.A2Reply = v.String()
	} else {
		res.A2Reply = "none: " + err.Error()
	}
	for _, n := range cl.Nodes {
		if e, ok := n.Get(a1); ok {
			res.CopiesA1++
			res.Values = append(res.Values, fmt.Sprintf("node%d=%s", n.Idx, string(e.Str)))
		}
	}
	_ = strings.TrimSpace
	return
}

func askRace(args []string) error {
	fs := flag.NewFlagSet("cluster-askrace", flag.ContinueOnError)
	out := fs.String("out", "", "results (ndjson)")
	runs := fs.Int("runs", 3, "runs")
	if err := fs.Parse(args); err != nil {
		return err
	}
	predis.VerifSetSlotsRefreshTimers(time.Hour, time.Hour) // one failing refresh at start, then silence
	w, err := cli.NewNDJSONWriter(*out)
	if err != nil {
		return err
	}
	defer w.Close()
	for i := 0; i < *runs; i++ {
		if err := w.Write(askRaceOnce()); err != nil {
			return err
		}
	}
	return nil
}
