package cluster

import (
	"flag"
	"fmt"
	"time"

	predis "github.com/samaritan-proxy/samaritan/proc/redis"

	"verifharness/internal/cli"
	"verifharness/internal/simredis"
	"verifharness/internal/sut"
)

func init() { cli.Register("cluster-failover", failover) }

type failoverResult struct {
	Run        int      `json:"run"`
	Kill       bool     `json:"kill"`
	Replies    []string `json:"replies"`    // replies to the reads after the failover, in order
	HealedAt   int      `json:"healedAt"`   // index of the first correct reply (-1 never)
	WriteOK    bool     `json:"writeOK"`    // a write after healing succeeded and was read back
	Leaked     bool     `json:"leaked"`     // a MOVED/ASK reached the client
	WrongValue bool     `json:"wrongValue"` // a non-error reply differed from the single-server reply
	Err        string   `json:"err,omitempty"`
}

// failoverOnce: a master is replaced by its replica (the old master dies or
// becomes a replica); afterwards the key's owner is reachable again, so reads
// must return the value within a bounded number of requests.
func failoverOnce(run int, kill bool) (res failoverResult) {
	res = failoverResult{Run: run, Kill: kill, HealedAt: -1}
	cl, err := simredis.NewCluster(3, 1)
	if err != nil {
		res.Err = err.Error()
		return
	}
	defer cl.Close()
	px, err := sut.StartRedis(sut.RedisOpts{}, cl.Addrs()[:3])
	if err != nil {
		res.Err = "start: " + err.Error()
		return
	}
	defer sut.StopWithin(px.P, 5*time.Second)
	if !sut.WaitRefresh(px.Name, 3*time.Second) {
		res.Err = "slot table not loaded"
		return
	}
	c, err := sut.Dial(px.Addr)
	if err != nil {
		res.Err = err.Error()
		return
	}
	defer c.Close()
	key := cl.KeyFor(0, "fo-")
	if v, err := c.Do(3*time.Second, "set", key, "v1"); err != nil || v.IsErr() {
		res.Err = fmt.Sprintf("set: %v %v", v, err)
		return
	}
	// node 3 is the replica of master 0 (masters 0..2, then one replica each)
	cl.Failover(0, 3, kill)
	for i := 0; i < 12; i++ {
		v, err := c.Do(5*time.Second, "get", key)
		if err != nil {
			res.Replies = append(res.Replies, "none: "+err.Error())
			break
		}
		res.Replies = append(res.Replies, v.String())
		if v.IsErr() {
			s := string(v.Str)
			if len(s) >= 3 && (s[:3] == "ASK" || (len(s) >= 5 && s[:5] == "MOVED")) {
				res.Leaked = true
			}
			time.Sleep(25 * time.Millisecond)
			continue
		}
		if string(v.Str) != "v1" {
			res.WrongValue = true
		}
		res.HealedAt = i
		break
	}
	if res.HealedAt >= 0 {
		if v, err := c.Do(3*time.Second, "set", key, "v2"); err == nil && !v.IsErr() {
			if g, err := c.Do(3*time.Second, "get", key); err == nil && string(g.Str) == "v2" {
				res.WriteOK = true
			}
		}
	}
	return
}

func failover(args []string) error {
	fs := flag.NewFlagSet("cluster-failover", flag.ContinueOnError)
	out := fs.String("out", "", "results (ndjson)")
	runs := fs.Int("runs", 4, "runs")
	if err := fs.Parse(args); err != nil {
		return err
	}
	// production ratio of the timers: the periodic refresh is far away (2 min in production), the rate limit is short
	predis.VerifSetSlotsRefreshTimers(time.Hour, 5*time.Millisecond)
	w, err := cli.NewNDJSONWriter(*out)
	if err != nil {
		return err
	}
	defer w.Close()
	for i := 1; i <= *runs; i++ {
		if err := w.Write(failoverOnce(i, i%2 == 1)); err != nil {
			return err
		}
	}
	return nil
}
